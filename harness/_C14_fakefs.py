"""Pure-Python stand-ins for the far side of the C / OS boundary below exactly_lib's string sources.

Nothing here models exactly_lib.  What is replaced, and the documented contract assumed:

* `FakeTextFile` / `FakePath` / `FakeFs` — a regular file opened in *text mode with default
  arguments* on POSIX (`pathlib.Path.open(mode)`), UTF-8:
    - the file is a sequence of BYTES; `write(s)` puts the UTF-8 encoding of s into the BUFFER of the file
      object; the buffer is written at the current byte position of the open file (overwriting what is
      there, extending at the end) by flush(), seek(), tell(), close() and before reading (the harness only
      writes texts far below the real buffer size of 8 KiB, so it is never written earlier); '\n' is written
      as '\n' (os.linesep on POSIX), nothing else is translated on output;
    - something that writes through the file DESCRIPTOR (`os.write(f.fileno(), ...)`, a child process that got
      the file as its stdout) puts its bytes at the current byte position of the open file at once, without
      touching the buffer of the file object: what is still buffered lands AFTER it;
    - reading decodes the bytes from the current position (an undecodable sequence raises
      UnicodeDecodeError) and applies universal-newline translation ('\r\n' and '\r' -> '\n');
      iteration / readline / readlines divide the translated text after each '\n';
    - `seek(n, 0)` with a small non-negative n positions at BYTE n (a TextIOWrapper cookie with
      no decoder state is the byte offset); `seek(0, 2)` positions at the end;
    - `os.fstat(fileno).st_size` is the number of bytes.
  Bytes are represented one str character per byte: an ASCII character stands for itself, a byte
  >= 0x80 is the private-use character chr(0xE000 + byte).  Only the characters listed in
  `_ENC` (plus ASCII) can be written: the harness pre-conditions restrict the alphabet.
* `PyStringIO` — `io.StringIO(newline='\n')`: a character buffer, no newline translation,
  `tell()` is the character index, `fileno()` raises `io.UnsupportedOperation`.
* `filecmp_cmp` — `filecmp.cmp(a, b, shallow=False)`: byte equality of two existing files.

All string handling is append / slice / find only (the operations CrossHair models exactly), and
no slice ever reaches past the end of a string.  `selftest()` compares every stand-in with the
real thing (real temporary files, real io.StringIO, real filecmp) on concrete data.
"""
import io as _real_io
from typing import Dict, List, Optional

# characters >= 0x80 that may be written, with their UTF-8 bytes
_ENC = {
    'é': (0xC3, 0xA9),  # e-acute: two bytes
}
_ENC_SYM = {c: ''.join(chr(0xE000 + b) for b in bs) for c, bs in _ENC.items()}
_DEC_SYM = {v: k for k, v in _ENC_SYM.items()}


class StubContractViolation(Exception):
    """The harness used a stand-in outside the contract it implements (a harness error,
    never a finding)."""


def utf8_syms(s: str) -> str:
    """The UTF-8 bytes of s, one str character per byte."""
    out = ''
    for c in s:
        if c < '\x80':
            out += c
        else:
            out += _enc_lookup(c)
    return out


def _enc_lookup(c) -> str:
    for k, v in _ENC_SYM.items():
        if c == k:
            return v
    raise StubContractViolation('fake text file: character outside the modelled alphabet: %r' % (c,))


def utf8_decode(raw: str) -> str:
    """Inverse of utf8_syms; raises UnicodeDecodeError on a broken sequence, as a strict
    UTF-8 decoder does."""
    out = ''
    n = len(raw)
    i = 0
    while i < n:
        c = raw[i]
        if c < '\x80':
            out += c
            i += 1
            continue
        hit = None
        for sym, ch in _DEC_SYM.items():
            k = len(sym)
            if i + k <= n and raw[i:i + k] == sym:
                hit = (ch, k)
                break
        if hit is None:
            raise UnicodeDecodeError('utf-8', b'', i, i + 1, 'invalid byte sequence (fake text file)')
        out += hit[0]
        i += hit[1]
    return out


def universal_newlines(s: str) -> str:
    """'\r\n' and '\r' -> '\n' (text mode, newline=None, on input)."""
    if '\r' not in s:
        return s
    out = ''
    n = len(s)
    i = 0
    while i < n:
        c = s[i]
        if c == '\r':
            out += '\n'
            if i + 1 < n and s[i + 1] == '\n':
                i += 2
            else:
                i += 1
        else:
            out += c
            i += 1
    return out


def lines_at_lf(s: str) -> List[str]:
    """The maximal segments of s that end in '\n' (plus a last segment without one)."""
    out = []
    pos = 0
    n = len(s)
    while pos < n:
        i = s.find('\n', pos)
        if i == -1:
            out.append(s[pos:])
            break
        out.append(s[pos:i + 1])
        pos = i + 1
    return out


class _Inode:
    def __init__(self, name: str, raw: str = ''):
        self.name = name
        self.raw = raw  # one character per byte
        self.mode_bits = None


class FakeFs:
    def __init__(self):
        self.files: Dict[str, _Inode] = {}
        self.handles: List['FakeTextFile'] = []
        self._n = 0

    def path(self, name: str) -> 'FakePath':
        return FakePath(self, name)

    def new_name(self, suffix: Optional[str]) -> str:
        self._n += 1
        return 'tmp/%04d-%s' % (self._n, suffix if suffix else 'f')

    def create(self, name: str, text: str) -> 'FakePath':
        """An existing regular file whose BYTES are the UTF-8 encoding of `text`."""
        self.files[name] = _Inode(name, utf8_syms(text))
        return FakePath(self, name)

    def raw_of(self, path) -> str:
        return self.files[str(path)].raw

    def fstat(self, fd: int):
        return _Stat(len(self.handles[fd].inode.raw))


class _Stat:
    def __init__(self, size: int):
        self.st_size = size


class FakePath:
    """The part of pathlib.Path that the string-source code uses."""

    def __init__(self, fs: FakeFs, name: str):
        self._fs = fs
        self._name = name

    def __str__(self) -> str:
        return self._name

    def __fspath__(self) -> str:
        raise StubContractViolation('FakePath handed to the operating system: ' + self._name)

    @property
    def name(self) -> str:
        return self._name.rsplit('/', 1)[-1]

    def exists(self) -> bool:
        return self._name in self._fs.files

    def is_file(self) -> bool:
        return self.exists()

    def chmod(self, mode: int):
        self._fs.files[self._name].mode_bits = mode

    def open(self, mode: str = 'r', *args, **kwargs) -> 'FakeTextFile':
        if args or kwargs:
            raise StubContractViolation('FakePath.open: only the mode argument is modelled')
        fs = self._fs
        if mode in ('r', 'rt'):
            if self._name not in fs.files:
                raise FileNotFoundError(self._name)
            f = FakeTextFile(fs, fs.files[self._name], readable=True, writable=False)
        elif mode in ('x', 'x+'):
            if self._name in fs.files:
                raise FileExistsError(self._name)
            fs.files[self._name] = _Inode(self._name)
            f = FakeTextFile(fs, fs.files[self._name], readable=(mode == 'x+'), writable=True)
        elif mode in ('w', 'w+'):
            ino = fs.files.get(self._name)
            if ino is not None and ino.mode_bits is not None and not (ino.mode_bits & 0o200):
                raise PermissionError(self._name)
            fs.files[self._name] = _Inode(self._name)
            f = FakeTextFile(fs, fs.files[self._name], readable=(mode == 'w+'), writable=True)
        else:
            raise StubContractViolation('FakePath.open: mode %r is not modelled' % (mode,))
        return f


class FakeTextFile:
    def __init__(self, fs: FakeFs, inode: _Inode, readable: bool, writable: bool):
        self._fs = fs
        self.inode = inode
        self._readable = readable
        self._writable = writable
        self._pos = 0  # byte offset of the open file (what the OS knows)
        self._wbuf = ''  # bytes written to the file object but not yet to the file
        self._rtext = None  # decoded + translated text from _pos on, while reading
        self._rpos = 0
        self._closed = False
        self._fd = None

    # ---- context / life cycle
    def __enter__(self):
        self._check_open()
        return self

    def __exit__(self, exc, value, tb):
        self.close()

    def close(self):
        if not self._closed:
            self._flush()
        self._closed = True

    @property
    def closed(self) -> bool:
        return self._closed

    def _check_open(self):
        if self._closed:
            raise ValueError('I/O operation on closed file.')

    def flush(self):
        self._check_open()
        self._flush()

    def _put(self, e: str):
        """stores bytes at the byte position of the open file"""
        k = len(e)
        if k == 0:
            return
        raw = self.inode.raw
        p = self._pos
        n = len(raw)
        if p == n:
            self.inode.raw = raw + e
        elif p + k >= n:
            self.inode.raw = raw[:p] + e
        else:
            self.inode.raw = raw[:p] + e + raw[p + k:]
        self._pos = p + k

    def _flush(self):
        e = self._wbuf
        self._wbuf = ''
        self._put(e)

    def os_write(self, s: str):
        """os.write(self.fileno(), s.encode()): the bytes go to the file at once, past the buffer"""
        self._check_open()
        self._put(utf8_syms(s))

    def fileno(self) -> int:
        self._check_open()
        if self._fd is None:
            self._fd = len(self._fs.handles)
            self._fs.handles.append(self)
        return self._fd

    def readable(self) -> bool:
        return self._readable

    def writable(self) -> bool:
        return self._writable

    def seekable(self) -> bool:
        return True

    # ---- writing
    def write(self, s: str) -> int:
        self._check_open()
        if not self._writable:
            raise _real_io.UnsupportedOperation('not writable')
        if self._rtext is not None:
            raise StubContractViolation('fake text file: write after read without seek is not modelled')
        self._wbuf = self._wbuf + utf8_syms(s)
        if len(self._wbuf) > 4000:
            raise StubContractViolation('fake text file: more than 4000 bytes buffered (the real buffer would be '
                                        'written by now; not modelled)')
        return len(s)

    def writelines(self, lines):
        for line in lines:
            self.write(line)

    # ---- positioning
    def seek(self, offset: int, whence: int = 0) -> int:
        self._check_open()
        self._flush()
        self._rtext = None
        self._rpos = 0
        if whence == 0:
            if offset < 0:
                raise ValueError('negative seek position')
            if offset > len(self.inode.raw):
                raise StubContractViolation('fake text file: seek beyond the end is not modelled')
            self._pos = offset
        elif whence == 2 and offset == 0:
            self._pos = len(self.inode.raw)
        else:
            raise StubContractViolation('fake text file: seek(%r, %r) is not modelled' % (offset, whence))
        return self._pos

    def tell(self) -> int:
        self._check_open()
        if self._rtext is not None and self._rpos != 0:
            raise StubContractViolation('fake text file: tell() in the middle of reading is not modelled')
        self._flush()
        return self._pos

    # ---- reading
    def _rt(self) -> str:
        self._check_open()
        if not self._readable:
            raise _real_io.UnsupportedOperation('not readable')
        if self._rtext is None:
            self._flush()
            raw = self.inode.raw
            p = self._pos
            rest = raw if p == 0 else raw[p:]
            self._rtext = universal_newlines(utf8_decode(rest))
            self._rpos = 0
            self._pos = len(raw)
        return self._rtext

    def read(self, n: int = -1) -> str:
        t = self._rt()
        p = self._rpos
        if n is None or n < 0 or p + n >= len(t):
            r = t if p == 0 else t[p:]
        else:
            r = t[p:p + n]
        self._rpos = p + len(r)
        return r

    def readline(self, *args) -> str:
        if args:
            raise StubContractViolation('fake text file: readline(size) is not modelled')
        t = self._rt()
        p = self._rpos
        if p >= len(t):
            return ''
        i = t.find('\n', p)
        if i == -1:
            r = t if p == 0 else t[p:]
        else:
            r = t[p:i + 1]
        self._rpos = p + len(r)
        return r

    def readlines(self, *args) -> List[str]:
        if args:
            raise StubContractViolation('fake text file: readlines(hint) is not modelled')
        out = []
        while True:
            line = self.readline()
            if line == '':
                return out
            out.append(line)

    def __iter__(self):
        return self

    def __next__(self) -> str:
        line = self.readline()
        if line == '':
            raise StopIteration
        return line


class FakeDirFileSpace:
    """DirFileSpace whose paths live in a FakeFs (duck-typed: only new_path is used by the
    string-source code)."""

    def __init__(self, fs: FakeFs):
        self.fs = fs

    def new_path(self, name_suffix: Optional[str] = None) -> FakePath:
        return self.fs.path(self.fs.new_name(name_suffix))

    def new_path_as_existing_dir(self, name_suffix: Optional[str] = None):
        raise StubContractViolation('FakeDirFileSpace: directories are not modelled')

    def sub_dir_space(self, name_suffix: Optional[str] = None):
        return self


class PyStringIO:
    """io.StringIO(newline='\\n')."""

    def __init__(self, initial_value: str = '', newline: Optional[str] = '\n'):
        if newline != '\n':
            raise StubContractViolation('PyStringIO models newline="\\n" only')
        self._s = initial_value
        self._pos = 0
        self._closed = False

    def _check_open(self):
        if self._closed:
            raise ValueError('I/O operation on closed file')

    def write(self, s: str) -> int:
        self._check_open()
        if not isinstance(s, str):
            raise TypeError('string argument expected')
        if self._pos != len(self._s):
            raise StubContractViolation('PyStringIO: only appending writes are modelled')
        self._s = self._s + s
        self._pos = len(self._s)
        return len(s)

    def writelines(self, lines):
        for line in lines:
            self.write(line)

    def tell(self) -> int:
        self._check_open()
        return self._pos

    def seek(self, pos: int, whence: int = 0) -> int:
        self._check_open()
        if whence == 0 and 0 <= pos <= len(self._s):
            self._pos = pos
        elif whence == 2 and pos == 0:
            self._pos = len(self._s)
        else:
            raise StubContractViolation('PyStringIO: seek(%r, %r) is not modelled' % (pos, whence))
        return self._pos

    def getvalue(self) -> str:
        self._check_open()
        return self._s

    def read(self, n: int = -1) -> str:
        self._check_open()
        p = self._pos
        t = self._s
        if n is None or n < 0 or p + n >= len(t):
            r = t if p == 0 else t[p:]
        else:
            r = t[p:p + n]
        self._pos = p + len(r)
        return r

    def readline(self) -> str:
        self._check_open()
        t = self._s
        p = self._pos
        if p >= len(t):
            return ''
        i = t.find('\n', p)
        r = (t if p == 0 else t[p:]) if i == -1 else t[p:i + 1]
        self._pos = p + len(r)
        return r

    def __iter__(self):
        return self

    def __next__(self):
        line = self.readline()
        if line == '':
            raise StopIteration
        return line

    def flush(self):
        self._check_open()

    def fileno(self):
        raise _real_io.UnsupportedOperation('fileno')

    def close(self):
        self._closed = True

    @property
    def closed(self) -> bool:
        return self._closed

    def __enter__(self):
        return self

    def __exit__(self, *a):
        self.close()


class _IoStub:
    """What spooled_file uses of the `io` module at run time."""
    StringIO = PyStringIO
    UnsupportedOperation = _real_io.UnsupportedOperation
    TextIOBase = _real_io.TextIOBase


class _OsStub:
    """What frozen.py uses of the `os` module."""
    SEEK_SET = 0

    def __init__(self):
        self.fs: Optional[FakeFs] = None

    def fstat(self, fd: int):
        return self.fs.fstat(fd)


class _FilecmpStub:
    """filecmp.cmp(a, b, shallow=False) on two files of the fake file system: byte equality."""

    def __init__(self):
        self.fs: Optional[FakeFs] = None

    def cmp(self, f1, f2, shallow=True):
        if shallow:
            raise StubContractViolation('filecmp.cmp: only shallow=False is modelled')
        a = self.fs.files[str(f1)].raw
        b = self.fs.files[str(f2)].raw
        return a == b


class _SubprocessStub:
    """What process_executor uses of the `subprocess` module: call().  The only program that exists is
    `printf %s TEXT`; the child writes TEXT through the file DESCRIPTOR of the file it got as stdout."""
    import subprocess as _real
    DEVNULL = _real.DEVNULL
    TimeoutExpired = _real.TimeoutExpired

    def call(self, args, stdin=None, stdout=None, stderr=None, env=None, timeout=None, shell=False):
        if shell or len(args) != 3 or args[0] != 'printf' or args[1] != '%s':
            raise StubContractViolation('subprocess stub: only `printf %s TEXT` exists')
        if stdout is None:
            raise StubContractViolation('subprocess stub: stdout of the parent process is not modelled')
        if stdout is not self.DEVNULL:
            write_to_fd(stdout.fileno(), args[2])
        return 0


_SUBPROCESS = _SubprocessStub()
_OS = _OsStub()
_FILECMP = _FilecmpStub()


def handle_of_fd(fd: int) -> FakeTextFile:
    """The open file behind a descriptor handed out by FakeTextFile.fileno() (used to model a child
    process that writes to the descriptor)."""
    return _OS.fs.handles[fd]


_INSTALLED = False


def write_to_fd(fd: int, text: str):
    """What a child process does that was given the descriptor as its stdout and prints `text`."""
    if _INSTALLED:
        handle_of_fd(fd).os_write(text)
    else:
        import os
        os.write(fd, text.encode('utf-8'))


def file_bytes_as_text(path) -> str:
    """The bytes of a file decoded as UTF-8, without newline translation."""
    if isinstance(path, FakePath):
        return utf8_decode(path._fs.raw_of(path))
    return path.read_bytes().decode('utf-8')


def install(fs: FakeFs):
    """Rebinds the module attributes through which the string-source code reaches the OS:
    spooled_file._io, frozen.os, equality.filecmp, process_executor.subprocess."""
    from exactly_lib.util.file_utils import spooled_file
    from exactly_lib.impls.types.string_source.contents import frozen
    from exactly_lib.impls.types.string_matcher.impl import equality
    global _INSTALLED
    _INSTALLED = True
    _OS.fs = fs
    _FILECMP.fs = fs
    from exactly_lib.util.process_execution import process_executor
    spooled_file._io = _IoStub
    frozen.os = _OS
    equality.filecmp = _FILECMP
    process_executor.subprocess = _SUBPROCESS


def uninstall():
    import filecmp
    import os
    from exactly_lib.util.file_utils import spooled_file
    from exactly_lib.impls.types.string_source.contents import frozen
    from exactly_lib.impls.types.string_matcher.impl import equality
    global _INSTALLED
    _INSTALLED = False
    import subprocess
    from exactly_lib.util.process_execution import process_executor
    spooled_file._io = _real_io
    frozen.os = os
    equality.filecmp = filecmp
    process_executor.subprocess = subprocess


# --------------------------------------------------------------------------- self-test

def selftest(scratch_dir: str) -> int:
    """Concrete differential test of the stand-ins against real files / io.StringIO / filecmp.
    Returns the number of comparisons made; raises AssertionError on a difference."""
    import filecmp
    import itertools
    import os
    import pathlib
    n = 0
    root = pathlib.Path(scratch_dir)
    alphabet = ['a', '\n', '\r', '\x0c', 'é']
    texts = ['']
    for k in (1, 2, 3):
        texts += [''.join(t) for t in itertools.product(alphabet, repeat=k)]
    texts += ['a\r\nb\r\n', 'éé\né', 'ab\n\ncd', '\r\r\n\n\r']

    # (1) write whole / line-wise, then read / iterate / readlines / read(n) / size / bytes
    for i, t in enumerate(texts):
        fs = FakeFs()
        real = root / ('w%d' % i)
        fake = fs.path('w')
        with real.open('x') as fr, fake.open('x') as ff:
            assert fr.write(t) == ff.write(t)
        assert os.stat(str(real)).st_size == len(fs.raw_of(fake)), t
        assert real.read_bytes() == _syms_to_bytes(fs.raw_of(fake)), t
        with real.open() as fr, fake.open() as ff:
            assert fr.read() == ff.read(), t
        with real.open() as fr, fake.open() as ff:
            assert list(fr) == list(ff), t
        with real.open() as fr, fake.open() as ff:
            assert fr.readlines() == ff.readlines(), t
        with real.open() as fr, fake.open() as ff:
            assert fr.read(2) == ff.read(2), t
            assert fr.read() == ff.read(), t
        with real.open() as fr, fake.open() as ff:
            assert fr.readline() == ff.readline(), t
            assert list(fr) == list(ff), t
        n += 8
        os.unlink(str(real))

    # (2) the x+ protocol of SpooledTextFile._rollover / frozen: write, seek(k, 0), write more,
    #     flush, fstat size, seek(0), read -- including k in the middle of the bytes
    j = 0
    for t in texts:
        if len(t) > 3:
            continue
        for more in ('', 'a', 'b\n', 'é'):
            for k in range(0, len(t.encode('utf-8')) + 1):
                fs = FakeFs()
                real = root / ('x%d' % j)
                j += 1
                fake = fs.path('x')
                fr = real.open('x+')
                ff = fake.open('x+')
                fr.write(t)
                ff.write(t)
                fr.seek(k, 0)
                ff.seek(k, 0)
                fr.writelines([more, more])
                ff.writelines([more, more])
                fr.flush()
                ff.flush()
                assert os.fstat(fr.fileno()).st_size == fs.fstat(ff.fileno()).st_size, (t, more, k)
                fr.seek(0, os.SEEK_SET)
                ff.seek(0, 0)
                try:
                    a = fr.read()
                except UnicodeDecodeError:
                    a = UnicodeDecodeError
                try:
                    b = ff.read()
                except UnicodeDecodeError:
                    b = UnicodeDecodeError
                assert a == b, (t, more, k, a, b)
                fr.close()
                ff.close()
                assert real.read_bytes() == _syms_to_bytes(fs.raw_of(fake)), (t, more, k)
                os.unlink(str(real))
                n += 3

    # (2b) writes through the descriptor (os.write) between buffered writes, with / without flush, x / x+ / w+
    for mode in ('x', 'x+', 'w+'):
        for script in (['wa', 'oC', 'wb'], ['wa', 'f', 'oC', 'wb'], ['oC', 'wa'], ['wa', 'wb', 'oC', 'oD', 'f', 'wé'],
                       ['wa\n', 'oé', 't', 'oC', 'wb'], ['wab', 's1', 'oC', 'wd'], ['wa', 'oC', 'f', 'oD', 'wb', 'oE']):
            fs = FakeFs()
            real = root / ('o%d' % j)
            j += 1
            fake = fs.path('o')
            fr = real.open(mode)
            ff = fake.open(mode)
            for op in script:
                if op[0] == 'w':
                    fr.write(op[1:])
                    ff.write(op[1:])
                elif op[0] == 'o':
                    os.write(fr.fileno(), op[1:].encode('utf-8'))
                    ff._fs.handles[ff.fileno()].os_write(op[1:])
                elif op[0] == 'f':
                    fr.flush()
                    ff.flush()
                elif op[0] == 't':
                    assert fr.tell() == ff.tell(), (mode, script)
                elif op[0] == 's':
                    fr.seek(int(op[1:]), 0)
                    ff.seek(int(op[1:]), 0)
            fr.close()
            ff.close()
            assert real.read_bytes() == _syms_to_bytes(fs.raw_of(fake)), (mode, script, real.read_bytes(), fs.raw_of(fake))
            os.unlink(str(real))
            n += 1

    # (3) w+ on an existing file truncates; x on an existing file fails
    fs = FakeFs()
    real = root / 'wp'
    fake = fs.path('wp')
    for t in ('abc\n', 'z'):
        with real.open('w+') as fr, fake.open('w+') as ff:
            fr.writelines([t])
            ff.writelines([t])
        assert real.read_bytes() == _syms_to_bytes(fs.raw_of(fake))
        n += 1
    for p in (real, fake):
        try:
            p.open('x')
            raise AssertionError('x on existing file must fail')
        except FileExistsError:
            pass
    os.unlink(str(real))

    # (4) PyStringIO against io.StringIO(newline='\n')
    for t in texts:
        for parts in ([t], list(t), [t, t]):
            a = _real_io.StringIO(newline='\n')
            b = PyStringIO(newline='\n')
            for p in parts:
                assert a.write(p) == b.write(p)
                assert a.tell() == b.tell()
            assert a.getvalue() == b.getvalue()
            a.seek(0)
            b.seek(0)
            assert list(a) == list(b), t
            a.seek(0)
            b.seek(0)
            assert a.read() == b.read()
            n += 4
    try:
        PyStringIO().fileno()
        raise AssertionError('fileno must raise')
    except _real_io.UnsupportedOperation:
        pass

    # (5) filecmp stub against filecmp.cmp(shallow=False)
    some = ['', 'a', 'a\n', 'a\r\n', 'a\r', 'é', 'b']
    for x in some:
        for y in some:
            fs = FakeFs()
            _FILECMP.fs = fs
            ra, rb = root / 'ca', root / 'cb'
            with ra.open('w') as f:
                f.write(x)
            with rb.open('w') as f:
                f.write(y)
            fa = fs.create('ca', x)
            fb = fs.create('cb', y)
            assert filecmp.cmp(str(ra), str(rb), shallow=False) == _FILECMP.cmp(str(fa), str(fb), shallow=False), (x, y)
            n += 1
            os.unlink(str(ra))
            os.unlink(str(rb))

    # (6) helpers
    for t in texts:
        assert utf8_decode(utf8_syms(t)) == t
        assert _syms_to_bytes(utf8_syms(t)) == t.encode('utf-8')
        assert universal_newlines(t) == _real_io.StringIO(t, newline=None).read(), t
        assert lines_at_lf(t) == _real_io.StringIO(t, newline='\n').readlines(), t
        n += 4
    return n


def _syms_to_bytes(raw: str) -> bytes:
    return bytes((ord(c) if ord(c) < 0x80 else ord(c) - 0xE000) for c in raw)
