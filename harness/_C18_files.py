"""C18 helper: mistakes that need SEVERAL FILES (`including`).

A test case is a TREE of files: the file given to the program and the files it names, at any depth, with `including`.
This module builds such trees from a handful of small integers (so that the harness keeps them symbolic), runs the
REAL main program on them (harness/_C18_cli: in process, natively, `subprocess` replaced by a recording stub) and says
what must come out.

Two families:

  cycles   a chain  F0 -> F1 -> ... -> F(tail+n-1) -> F(tail)  of `including` directives: `tail` files lead into a cycle of
           `n` files.  The files lie in the directories of a LAYOUT; the directive that closes the cycle (or every
           directive) is written in one of the SPELLINGS (plain, `./x`, `d/../x`, `../d/x`, through another directory,
           absolute, absolute with `..`, through a symbolic link to the file / to its directory); the file handed to
           the program is itself spelled in one of MAIN_SPELLINGS.
  defects  a chain  F0 -> ... -> F(depth)  whose last file is missing / a directory / not UTF-8 / a dangling or looping
           symbolic link / below a regular file / has a name the OS refuses, or holds a document-level mistake of the
           catalogue of harness/C18 (DOC_MISTAKES); same layouts and spellings.

What must come out is stated from the documentation only: an inclusion that cannot be carried out is FILE_ACCESS_ERROR
(exit 65), a mistake in an included file is the same mistake as in the file that includes it ("the effect of
including a file is equivalent to having the contents of the included file in the including file"); the message shows
the chain of `including` lines that leads to the offending line - file, line number, source line.  Nothing is
executed.  How the program finds a cycle is not looked at.
"""
import os
import re

from harness import _C18_cli as cli

PHASES = ('setup', 'conf', 'before-assert', 'assert', 'cleanup')  # not [act]: there, a line is source code of the actor, not a directive
FILE_NAMES = ('t.case', 'a.xly', 'b.xly', 'c.xly')
# directory (relative to the root of the tree) of the k-th file of a chain; file 0 is the one given to the program
LAYOUTS = (
    ('same-dir', ('.', '.', '.', '.')),
    ('sub-dir', ('.', 'lib', 'lib', 'lib')),
    ('nested', ('.', 'lib', 'lib/sub', 'lib/sub/deep')),
    ('siblings', ('.', 'lib', 'other', 'lib/sub')),
    ('main-in-sub-dir', ('lib/sub', 'lib', '.', 'other')),
)
# ways of writing the path of a directive
SPELLINGS = ('plain', 'dot', 'double-slash', 'down-and-up', 'up-and-down', 'via-other-dir', 'absolute', 'absolute-non-canonical',
             'symlink-to-file', 'symlink-to-dir')
CANONICAL_SPELLINGS = ('plain', 'absolute')
# ways of handing the test case file to the program
MAIN_SPELLINGS = ('absolute', 'absolute-non-canonical', 'symlink-to-file', 'relative', 'relative-non-canonical')
OTHER_DIR = 'home-dir'  # exists in every tree (harness/_C18_cli.HOME_FILES), never holds a file of a chain
SUB_DIR = 'd'  # an (empty) sub directory, made on demand below the directory of a file: `d/../x`

# what can be wrong with the last file of a chain, as a file (the catalogue of mistakes INSIDE the file is DOC_MISTAKES)
FILE_FAULTS = ('missing', 'is-directory', 'not-utf-8', 'dangling-symlink', 'symlink-loop', 'parent-is-a-file', 'name-too-long',
               'nul-in-name')
CONTROL = 'control-comment-only'  # a valid included file: the test case PASSes


def _norm(p: str) -> str:
    return os.path.normpath(p)


class Tree:
    """what is put on disk, relative to the root of the tree"""

    def __init__(self):
        self.dirs = set()
        self.files = {}  # rel path -> str | bytes
        self.links = {}  # rel path -> target (absolute: prefixed by the root when the tree is written; or relative)
        self.link_is_abs = {}

    def need_dir(self, rel: str):
        self.dirs.add(_norm(rel))


def spell(tree: Tree, kind: str, from_dir: str, target: str, k: int) -> str:
    """the path of `target` (relative to the root) as written, in the way `kind`, in a file of the directory `from_dir`;
    the root itself is written {ROOT}"""
    plain = os.path.relpath(target, from_dir)
    if kind == 'plain':
        return plain
    if kind == 'dot':
        return './' + plain
    if kind == 'double-slash':
        return './/' + plain.replace('/', '//')
    if kind == 'down-and-up':
        tree.need_dir(os.path.join(from_dir, SUB_DIR))
        return SUB_DIR + '/../' + plain
    if kind == 'up-and-down':
        # `..` and back into the directory of the including file
        own = os.path.basename(_norm(from_dir)) if _norm(from_dir) != '.' else '{ROOTNAME}'
        return '../' + own + '/' + plain
    if kind == 'via-other-dir':
        return os.path.relpath(OTHER_DIR, from_dir) + '/' + os.path.relpath(target, OTHER_DIR)
    if kind == 'absolute':
        return '{ROOT}/' + _norm(target)
    if kind == 'absolute-non-canonical':
        return '{ROOT}/' + OTHER_DIR + '/../' + _norm(target)
    if kind == 'symlink-to-file':
        name = 'ln-%d.xly' % k
        link = _norm(os.path.join(from_dir, name))
        tree.links[link] = _norm(target)
        tree.link_is_abs[link] = True
        return name
    if kind == 'symlink-to-dir':
        name = 'ln-dir-%d' % k
        link = _norm(os.path.join(from_dir, name))
        tree.links[link] = _norm(os.path.dirname(_norm(target)) or '.')
        tree.link_is_abs[link] = True
        return name + '/' + os.path.basename(target)
    raise ValueError(kind)


def spell_main(tree: Tree, kind: str, main: str):
    """-> (path handed to the program, working directory or None)"""
    d = os.path.dirname(main) or '.'
    base = os.path.basename(main)
    if kind == 'absolute':
        return '{ROOT}/' + _norm(main), None
    if kind == 'absolute-non-canonical':
        tree.need_dir(os.path.join(d, SUB_DIR))
        return '{ROOT}/' + _norm(d) + '/' + SUB_DIR + '/../' + base, None
    if kind == 'symlink-to-file':
        link = _norm(os.path.join(d, 'ln-main.case'))
        tree.links[link] = base
        tree.link_is_abs[link] = False
        return '{ROOT}/' + link, None
    if kind == 'relative':
        return base, d
    if kind == 'relative-non-canonical':
        tree.need_dir(os.path.join(d, SUB_DIR))
        return SUB_DIR + '/../' + base, d
    raise ValueError(kind)


def _filler(k: int, phase: str) -> str:
    """k lines that are no instructions (so that every file has its directive on a line of its own number)"""
    return ''.join(('# filler %d\n' % j) if j % 2 == 0 else '\n' for j in range(k))


class Scenario:
    def __init__(self):
        self.tree = Tree()
        self.main = None  # rel path of the file handed to the program
        self.main_arg = None
        self.cwd = None
        self.chain = []  # (file rel root, line number, source line, base name under which the file is referred to)
        self.description = ''


def _paths(layout: int, count: int):
    dirs = LAYOUTS[layout][1]
    return [_norm(os.path.join(dirs[k], FILE_NAMES[k])) for k in range(count)]


def _chain_files(sc: Scenario, paths, targets, spellings, phase: str):
    """writes files paths[k] (k < len(targets)), file k including targets[k] spelled spellings[k]; records the chain"""
    main_base = os.path.basename(sc.main_arg)
    referred_as = main_base
    from_dir = os.path.dirname(paths[0]) or '.'
    for k, target in enumerate(targets):
        # paths are relative to the directory of the path under which the including file was named: for a file reached
        # through a symbolic link to it, that is the directory of the link
        if k > 0 and spellings[k - 1] != 'symlink-to-file':
            from_dir = os.path.dirname(paths[k]) or '.'
        spelled = spell(sc.tree, spellings[k], from_dir, target, k)
        directive = 'including ' + spelled
        head = ('[%s]\n' % phase) if k == 0 else ''
        text = head + _filler(k, phase) + directive + '\n' + '\n# the end\n'
        sc.tree.files[paths[k]] = text
        line = (1 if k == 0 else 0) + k + 1
        sc.chain.append((paths[k], line, directive, referred_as))
        referred_as = os.path.basename(spelled)
    return referred_as


def cycle(n: int, tail: int, layout: int, spelling: int, everywhere: bool, phase: int, main_spelling: int) -> Scenario:
    """`tail` files lead into a cycle of `n` files."""
    sc = Scenario()
    count = tail + n
    paths = _paths(layout, count)
    sc.main = paths[0]
    sc.main_arg, sc.cwd = spell_main(sc.tree, MAIN_SPELLINGS[main_spelling], paths[0])
    targets = [paths[k + 1] for k in range(count - 1)] + [paths[tail]]
    sp = SPELLINGS[spelling]
    spellings = [sp if (everywhere or k == count - 1) else 'plain' for k in range(count)]
    _chain_files(sc, paths, targets, spellings, PHASES[phase])
    sc.description = 'cycle of %d file(s) after %d file(s), layout %s, %s directive(s) spelled %s, in [%s], test case given as %s' % (
        n, tail, LAYOUTS[layout][0], 'all' if everywhere else 'closing', sp, PHASES[phase], MAIN_SPELLINGS[main_spelling])
    return sc


def defect(depth: int, fault, layout: int, spelling: int, everywhere: bool, phase: int, main_spelling: int) -> Scenario:
    """A chain of `depth` inclusions; the last file has the fault: an element of FILE_FAULTS, CONTROL, or a row
    (name, text, identifiers, line, quoted source) of the catalogue of document-level mistakes."""
    sc = Scenario()
    paths = _paths(layout, depth + 1)
    sc.main = paths[0]
    sc.main_arg, sc.cwd = spell_main(sc.tree, MAIN_SPELLINGS[main_spelling], paths[0])
    last = paths[depth]
    last_dir = os.path.dirname(last) or '.'
    tree = sc.tree
    if fault == 'is-directory':
        tree.need_dir(last)
    elif fault == 'not-utf-8':
        tree.files[last] = b'# \xe9 latin-1, and not UTF-8: \xff\xfe\ndir d\n'
    elif fault == 'dangling-symlink':
        tree.links[last] = 'no-such-file.xly'
        tree.link_is_abs[last] = False
    elif fault == 'symlink-loop':
        tree.links[last] = os.path.basename(last)
        tree.link_is_abs[last] = False
    elif fault == 'parent-is-a-file':
        tree.files[_norm(os.path.join(last_dir, 'plain-file'))] = 'a plain file\n'
        last = _norm(os.path.join(last_dir, 'plain-file', os.path.basename(last)))
    elif fault == 'name-too-long':
        last = _norm(os.path.join(last_dir, 'n' * 300 + '.xly'))
    elif fault == 'nul-in-name':
        last = _norm(os.path.join(last_dir, 'a\x00b.xly'))
    elif fault == 'missing':
        pass
    elif fault == CONTROL:
        tree.files[last] = '# nothing but a comment\n\n'
    else:
        tree.files[last] = fault[1]
    tree.need_dir(last_dir)
    targets = [paths[k + 1] for k in range(depth - 1)] + [last]
    sp = SPELLINGS[spelling]
    spellings = [sp if (everywhere or k == depth - 1) else 'plain' for k in range(depth)]
    referred_as = _chain_files(sc, paths, targets, spellings, PHASES[phase])
    if not isinstance(fault, str):
        name, text, idents, line, quoted = fault
        sc.chain.append((last, line, quoted, referred_as))
    sc.description = 'chain of %d inclusion(s), last file: %s; layout %s, %s directive(s) spelled %s, in [%s], test case given as %s' % (
        depth, fault if isinstance(fault, str) else fault[0], LAYOUTS[layout][0], 'all' if everywhere else 'last', sp, PHASES[phase],
        MAIN_SPELLINGS[main_spelling])
    return sc


_LOCATION = re.compile(r'^(.+), line (\d+)$')


def run(sc: Scenario):
    """Writes the tree and runs `exactly FILE` on it (the real MainProgram.execute, in process, natively).
    Returns what run_cli returns, plus `locations`: the lines `PATH, line N` of stderr as
    (index of the line, PATH, N, the file PATH denotes - relative to the root of the tree, symbolic links followed)."""
    with cli.no_tracing():
        return _run(sc)


def _subst(s: str, root: str) -> str:
    return s.replace('{ROOTNAME}', os.path.basename(root)).replace('{ROOT}', root)


def _write_tree(sc: Scenario, root: str):
    main_dir = os.path.join(root, os.path.dirname(sc.main))
    tree = sc.tree

    def write(rel, contents):
        p = os.path.join(root, rel)
        os.makedirs(os.path.dirname(p), exist_ok=True)
        if isinstance(contents, bytes):
            with open(p, 'wb') as f:
                f.write(contents)
        else:
            with open(p, 'w', encoding='utf-8') as f:
                f.write(_subst(contents, root))

    for name, contents in cli.HOME_FILES.items():
        write(name, contents)
        # the files a test case may refer to relative to its home directory
        if os.path.normpath(main_dir) != os.path.normpath(root):
            write(os.path.join(os.path.dirname(sc.main), name), contents)
    for d in sorted(tree.dirs):
        os.makedirs(os.path.join(root, d), exist_ok=True)
    for rel, contents in tree.files.items():
        write(rel, contents)
    for rel, target in tree.links.items():
        p = os.path.join(root, rel)
        os.makedirs(os.path.dirname(p), exist_ok=True)
        os.symlink(os.path.join(root, target) if tree.link_is_abs[rel] else target, p)


def _run(sc: Scenario):
    from vsym import scratch
    from exactly_lib.util.file_utils.std import StdOutputFiles
    mp = cli._main_program()
    work = os.path.realpath(scratch.new_dir('c18f'))
    root = os.path.join(work, 'h', 'case')
    os.makedirs(root)
    _write_tree(sc, root)

    def subst(s: str) -> str:
        return _subst(s, root)

    roots = []

    def resolver() -> str:
        p = os.path.join(work, 'sandboxes-%d' % (len(roots) + 1))
        os.mkdir(p)
        roots.append(p)
        return p

    cli._RESOLVER[0] = resolver
    out, err = cli.Sink(), cli.Sink()
    cli._SubprocessStub.calls = []
    cwd = os.getcwd()
    run_dir = os.path.join(root, sc.cwd) if sc.cwd is not None else cwd
    arg = subst(sc.main_arg)
    exc = None
    try:
        os.chdir(run_dir)
        rc = mp.execute([arg], StdOutputFiles(out, err))
    except Exception as e:  # noqa  (an escaping exception is itself an observation)
        rc, exc = None, e
    except SystemExit as e:  # the program must return its exit code, not leave through sys.exit
        rc, exc = None, e
    os.chdir(cwd)
    stderr = err.value()
    locations = []
    for i, line in enumerate(stderr.split('\n')):
        m = _LOCATION.match(line)
        if m:
            try:
                denoted = os.path.relpath(os.path.realpath(os.path.join(run_dir, m.group(1))), root)
            except (OSError, ValueError):
                denoted = None
            locations.append((i, m.group(1), int(m.group(2)), denoted))
    n_calls = len(cli._SubprocessStub.calls)
    cli._make_writable(work)
    scratch.remove(work)
    so = out.value()
    return dict(rc=rc, exc=exc, ident=so.split('\n')[0], stdout=so, stderr=stderr, process_starts=n_calls, sandboxes=len(roots),
                path=arg, locations=locations, root=root)


def shows_chain(r, sc: Scenario, chain=None) -> bool:
    """The message shows the chain of source lines that leads to the offending one: for every link, in order, a line
    `FILE, line N` - FILE ends with the name under which the file was referred to and denotes that very file (symbolic
    links followed) - followed by the source line."""
    chain = sc.chain if chain is None else chain
    lines = r['stderr'].split('\n')
    locations = r['locations']
    if len(locations) < len(chain):
        return False
    for (i, shown, number, denoted), (file, line, source, referred_as) in zip(locations, chain):
        if number != line:
            return False
        if os.path.basename(shown) != referred_as:
            return False
        if denoted != _norm(file):
            return False
        j = i + 1
        while j < len(lines) and lines[j].strip() == '':
            j += 1
        if j >= len(lines) or lines[j] != '  ' + _subst(source, r['root']).strip():
            return False
    return True


def selftest() -> int:
    """The trees are what they are meant to be: in every layout, every spelling of a directive, read the way the OS reads a
    path (from the directory of the path under which the including file was reached), denotes the file meant; every way
    of naming the test case file denotes it; a cycle of directives is a cycle of files."""
    from vsym import scratch
    n = 0
    for layout in range(len(LAYOUTS)):
        for spelling in range(len(SPELLINGS)):
            for main_spelling in range(len(MAIN_SPELLINGS)):
                sc = cycle(3, 1, layout, spelling, True, 0, main_spelling)
                work = os.path.realpath(scratch.new_dir('c18fs'))
                root = os.path.join(work, 'h', 'case')
                os.makedirs(root)
                try:
                    _write_tree(sc, root)
                    at = os.path.join(root, sc.cwd or '.', _subst(sc.main_arg, root))
                    visited = []
                    for file, line, source, referred_as in sc.chain:
                        if os.path.realpath(at) != os.path.join(root, file) or os.path.basename(at) != referred_as:
                            raise AssertionError('%s: %r is not %r' % (sc.description, at, file))
                        with open(at) as f:
                            text = f.read().split('\n')
                        if text[line - 1] != _subst(source, root):
                            raise AssertionError('%s: line %d of %r is %r' % (sc.description, line, file, text[line - 1]))
                        visited.append(os.path.realpath(at))
                        at = os.path.join(os.path.dirname(at), text[line - 1].split()[1])
                        n += 1
                    if os.path.realpath(at) != visited[1] or len(set(visited)) != 4:
                        raise AssertionError('%s: not a cycle of 3 files after 1' % sc.description)
                finally:
                    scratch.remove(work)
    return n
