"""C03  Validation precedes execution: an invalid test case has no effects.

K1  [execution harness] a defect (undefined symbol through a real SymbolReference, pre-sandbox
    validation error, hard error, exception) at every pre-sandbox step of every phase and
    position: no main / post-setup / prepare / execute step of ANY stub ran, the sandbox
    resolver was never called, the result has no sandbox, and the status is the one the kind
    dictates.  Fault kind and status symbolic; site concrete per obligation.
K2  the accessor: real AccessorFromParts + ProcessorFromAccessorAndExecutor with stub
    reader / preprocessor / parser failing by ProcessError or AccessorError and a recording
    stub executor: the executor is not invoked and the AccessErrorType is the documented one.
K3  real instructions through the real MainProgram.execute in process: an otherwise valid
    test case with effects in every phase (processes, files), one defective instruction out
    of a catalogue inserted at every phase and position; `subprocess` replaced by a recording
    stub that starts nothing; counting sandbox resolver.  Exit 65 with SYNTAX_ERROR /
    VALIDATION_ERROR / FILE_ACCESS_ERROR, 0 process starts, 0 sandboxes; the same for
    `exactly symbol FILE`.                                                        [selector]
K4  the cases of a suite: an instruction written in the suite file (parsed once, shared by all
    cases) whose validity depends on a symbol each case defines: every invalid case is
    VALIDATION_ERROR without a sandbox, every valid case PASSes, whatever the order.  [selector]
"""
import os
from typing import List

from vsym import ob
from vsym.ob import Ob

PROPERTY = 'C03'

REAL_K1 = (
    'exactly_lib.execution.partial_execution.impl.executor._PartialExecutor.execute',
    'exactly_lib.execution.partial_execution.impl.executor.parse_atc_and_validate_symbols',
    'exactly_lib.execution.partial_execution.impl.symbol_validation.SymbolsValidator.validate',
    'exactly_lib.execution.impl.symbol_validation.validate_symbol_usages',
    'exactly_lib.execution.impl.phase_step_execution.run_instructions_phase_step',
    'exactly_lib.execution.full_execution.execution.execute',
)
REAL_K2 = (
    'exactly_lib.processing.processing_utils.AccessorFromParts.apply',
    'exactly_lib.processing.processing_utils.ProcessorFromAccessorAndExecutor.apply',
)
REAL_K3 = (
    'exactly_lib.cli.main_program.MainProgram.execute',
    'exactly_lib.processing.standalone.processor.Processor.process',
    'exactly_lib.processing.processors._Parser',
    'exactly_lib.processing.processors._SourceReader',
    'exactly_lib.section_document.impl.document_parser',
    'exactly_lib.execution.partial_execution.impl.executor._PartialExecutor.execute',
    'exactly_lib.execution.impl.symbol_validation.validate_symbol_usages',
    'exactly_lib.impls.svh_validators',
    'exactly_lib.type_val_deps.dep_variants.sdv.sdv_validation',
    'exactly_lib.type_val_deps.dep_variants.ddv.ddv_validators',
    'exactly_lib.cli.program_modes.symbol.execution',
    'exactly_lib.impls.actors.program.parse',
)


# ----------------------------------------------------------------------------- K1

def _pre_k1(kind: int, mode: int) -> bool:
    from harness import C01
    case = ob.case()
    cells = C01.canonical(case['n'])
    return kind in C01.valid_kinds(cells[case['cell']][0]) and 0 <= mode <= 1


def k1_no_effects(kind: int, mode: int) -> bool:
    """
    pre: _pre_k1(kind, mode)
    post: _
    """
    from harness import C01
    from vsym import exeharness as xh
    case = ob.case()
    n, ci = case['n'], case['cell']
    cells = C01.canonical(n)
    kind = ob.concrete_int(kind, 0, 5)
    mode = ob.concrete_int(mode, 0, 1)

    def kind_of(cell) -> int:
        return kind if cell == cells[ci][0] else 0

    plan = xh.Plan(kind_of)
    run = xh.execute(plan, xh.stub_test_case(plan, n, xh.STATUSES[mode]))
    if run.exception is not None or run.result is None:
        return False
    executed = [c for c in run.trace if c[1] in ('main', 'post', 'exe-input', 'prepare', 'execute') and c[0] != 'conf']
    if case.get('oracle_bug'):
        executed = [c for c in run.trace if c[1] != 'parse']
    want = {1: ('VALIDATION_ERROR', 'SYNTAX_ERROR'), 2: ('HARD_ERROR',), 3: ('HARD_ERROR',), 4: ('INTERNAL_ERROR',)}[kind]
    return ob.post(not executed and run.resolver_calls == 0 and not run.result.has_sds
                   and run.result.action_to_check_outcome is None and run.result.status.name in want)


# ----------------------------------------------------------------------------- K2

STAGES = ('read', 'preprocess', 'parse')
STAGE_ERROR = {'read': 'FILE_ACCESS_ERROR', 'preprocess': 'PRE_PROCESS_ERROR', 'parse': 'SYNTAX_ERROR'}
ACCESS_TYPES = ('FILE_ACCESS_ERROR', 'PRE_PROCESS_ERROR', 'SYNTAX_ERROR')


def _pre_k2(stage: int, how: int, explicit: int) -> bool:
    # how: 0 ProcessError, 1 AccessorError (parser only, with an explicit error type), 2 other exception
    if not (0 <= stage <= 2 and 0 <= how <= 2 and 0 <= explicit <= 2):
        return False
    if how == 1 and stage != 2:
        return False
    if how != 1 and explicit != 0:
        return False
    return True


def k2_accessor(stage: int, how: int, explicit: int) -> bool:
    """
    pre: _pre_k2(stage, how, explicit)
    post: _
    """
    import pathlib
    from exactly_lib.processing import processing_utils as pu, test_case_processing as tcp
    from exactly_lib.processing.test_case_handling_setup import TestCaseTransformer
    from exactly_lib.test_case import error_description
    from vsym import exeharness as xh
    st = ob.pick(STAGES, stage)
    how = ob.concrete_int(how, 0, 2)
    explicit_type = ob.pick(ACCESS_TYPES, explicit)
    log = []

    def fail():
        info = tcp.ErrorInfo(error_description.of_constant_message('injected'))
        if how == 0:
            raise tcp.ProcessError(info)
        if how == 1:
            raise tcp.AccessorError(tcp.AccessErrorType[explicit_type], info)
        raise ValueError('implementation error in stage')

    class Reader(pu.SourceReader):
        def apply(self, test_case_file_path):
            log.append('read')
            if st == 'read':
                fail()
            return 'source'

    class Pre(tcp.Preprocessor):
        def apply(self, test_case_file_path, test_case_source):
            log.append('preprocess')
            if st == 'preprocess':
                fail()
            return test_case_source

    plan = xh.Plan(lambda cell: 0)
    doc = xh.stub_test_case(plan, (0, 1, 0, 0, 1), None)

    class Parser(pu.Parser):
        def apply(self, test_case, test_case_plain_source):
            log.append('parse')
            if st == 'parse':
                fail()
            return doc

    class Executor(pu.Executor):
        def apply(self, test_case_file_path, test_case):
            log.append('execute')
            raise AssertionError('executor must not be invoked')

    accessor = pu.AccessorFromParts(Reader(), Pre(), Parser(), TestCaseTransformer())
    processor = pu.ProcessorFromAccessorAndExecutor(accessor, Executor())
    result = processor.apply(tcp.TestCaseFileReference(pathlib.Path('/vsym/x.case'), pathlib.Path('/vsym')))
    if 'execute' in log or plan.trace:
        return False
    if log != list(STAGES[:STAGES.index(st) + 1]):
        return False
    if how == 2:
        ok = result.status is tcp.Status.INTERNAL_ERROR
    else:
        want = explicit_type if how == 1 else STAGE_ERROR[st]
        if ob.case().get('oracle_bug'):
            want = 'SYNTAX_ERROR'
        ok = (result.status is tcp.Status.ACCESS_ERROR and result.access_error_type.name == want
              and result.execution_result is None)
    return ob.post(ok)


# ----------------------------------------------------------------------------- K3

BASE = {
    'conf': [],
    'setup': ['$ touch setup-marker', "file f1.txt = 'x'", 'run % touch setup-run-marker'],
    'act': ['$ echo act'],
    'before-assert': ['$ touch ba-marker', 'dir d1'],
    'assert': ['exit-code == 0', '$ touch assert-marker'],
    'cleanup': ['$ touch cleanup-marker', "file f2.txt = -stdout-from $ echo c"],
}
PRELUDE = ['def line-matcher LM = contents matches x', 'def path HP = -rel-home x', 'def string S = s',
           'def program PGM = % echo pgm-arg',
           'def path AP = /vsym-no-such-dir/sub', 'def path RP = -rel-result r', 'def path RP2 = -rel RP deeper',
           # strings built from several symbols, a path symbol first / second / at depth two
           'def string IND1 = "@[HP]@-@[S]@"', 'def string IND2 = "@[S]@-@[HP]@"', 'def string IND3 = "@[S]@@[S]@@[IND2]@"']
PHASES = ('setup', 'before-assert', 'assert', 'cleanup')
# how the test case is run: a plain run, the `symbol` command, and the two other output modes (round 5: C03-r5m2 skipped the
# pre-sandbox validation of [before-assert] / [assert] under --act)
K3_MODES = ('plain', 'symbol', '--act', '--keep')

# (name, defective line, expected identifiers, extra)
DEFECTS = (
    ('syntax', 'file', ('SYNTAX_ERROR',), None),
    ('syntax-superfluous', "dir d2 superfluous", ('SYNTAX_ERROR',), None),
    ('syntax-quote', "file q.txt = 'unterminated", ('SYNTAX_ERROR',), None),
    ('unknown-instruction', 'no-such-instruction arg', ('SYNTAX_ERROR',), None),
    ('undefined-symbol', 'file u.txt = @[UNDEFINED_SYM]@', ('VALIDATION_ERROR',), None),
    ('undefined-symbol-in-program-arg', '% echo @[UNDEFINED_SYM]@', ('VALIDATION_ERROR',), None),
    ('symbol-defined-later', 'file u.txt = @[LATER]@', ('VALIDATION_ERROR',), 'later'),
    ('symbol-defined-twice', "def string S = again", ('VALIDATION_ERROR',), None),
    # a definition that refers to the symbol it defines (round 5: C03-r5m1 entered the definition into the table before its own
    # references were checked)
    ('symbol-refers-to-itself', 'def string SELF = @[SELF]@', ('VALIDATION_ERROR',), None),
    ('symbol-refers-to-itself-inside-text', 'def string SELF2 = "prefix @[SELF2]@ suffix"', ('VALIDATION_ERROR',), None),
    ('list-symbol-refers-to-itself', 'def list SELFL = a @[SELFL]@ b', ('VALIDATION_ERROR',), None),
    ('path-symbol-relative-to-itself', 'def path SELFP = -rel SELFP x', ('VALIDATION_ERROR',), None),
    ('symbols-refer-to-each-other', 'def string CYC1 = @[CYC2]@\ndef string CYC2 = @[CYC1]@', ('VALIDATION_ERROR',), None),
    ('wrong-symbol-type', 'file u.txt = @[LM]@', ('VALIDATION_ERROR',), None),
    ('wrong-symbol-type-matcher', 'def line-matcher LM2 = S', ('VALIDATION_ERROR',), None),
    ('illegal-relativity-via-symbol', "file @[HP]@/y.txt = 'c'", ('VALIDATION_ERROR',), None),
    ('illegal-relativity-option', "file -rel-home y.txt = 'c'", ('SYNTAX_ERROR',), None),
    # every kind of path symbol a file-creating argument must reject, in every reference form (round 7: C03-r7m1 accepted
    # absolute path symbols everywhere; C12-r7m1 accepted the result directory as DESTINATION of `copy`)
    ('illegal-relativity-absolute-path-symbol-as-rel', "file -rel AP out.txt = 'x'", ('VALIDATION_ERROR',), None),
    ('illegal-relativity-absolute-path-symbol-as-prefix', "file @[AP]@/out.txt = 'x'", ('VALIDATION_ERROR',), None),
    ('illegal-relativity-absolute-path-symbol-dir', 'dir -rel AP d', ('VALIDATION_ERROR',), None),
    ('illegal-relativity-absolute-path-symbol-copy-destination', 'copy -rel-home existing.txt -rel AP dst.txt', ('VALIDATION_ERROR',), None),
    ('illegal-relativity-home-path-symbol-as-rel', "file -rel HP out.txt = 'x'", ('VALIDATION_ERROR',), None),
    ('illegal-relativity-home-path-symbol-copy-destination', 'copy -rel-home existing.txt @[HP]@/dst.txt', ('VALIDATION_ERROR',), None),
    ('illegal-relativity-result-path-symbol-file', "file -rel RP out.txt = 'x'", ('VALIDATION_ERROR',), None),
    ('illegal-relativity-result-path-symbol-depth-2-dir', 'dir @[RP2]@/d', ('VALIDATION_ERROR',), None),
    ('illegal-relativity-result-path-symbol-copy-destination', 'copy -rel-home existing.txt -rel RP dst.txt', ('VALIDATION_ERROR',), None),
    ('illegal-relativity-result-option-copy-destination', 'copy -rel-home existing.txt -rel-result dst.txt', ('SYNTAX_ERROR',), None),
    ('illegal-relativity-result-option-file', "file -rel-result out.txt = 'x'", ('SYNTAX_ERROR',), None),
    ('missing-home-file-copy', 'copy -rel-home no-such-file.txt', ('VALIDATION_ERROR',), None),
    ('missing-home-file-contents-of', 'file c.txt = -contents-of -rel-home missing.txt', ('VALIDATION_ERROR',), None),
    ('missing-home-program', 'run -rel-home missing-prog arg', ('VALIDATION_ERROR',), None),
    ('missing-home-program-non-last-validator', "file m.txt = -stdout-from -rel-home missing-prog -transformed-by identity",
     ('VALIDATION_ERROR',), None),
    ('missing-home-file-as-program-arg', '% echo -existing-file -rel-home missing.txt', ('VALIDATION_ERROR',), None),
    ('missing-home-file-arg-then-transformer',
     "file m2.txt = -stdout-from % echo -existing-file -rel-home missing.txt -transformed-by identity",
     ('VALIDATION_ERROR',), None),
    ('file-destination-is-not-a-file-name', "file . = 'x'", ('VALIDATION_ERROR',), None),
    ('assert-stdout-from-missing-home-program', "stdout -from -rel-home missing-prog\n       equals 'expected'",
     ('VALIDATION_ERROR',), 'assert-only'),
    ('assert-stdout-from-program-with-missing-home-file-arg',
     "stdout -from % echo -existing-file -rel-home missing.txt\n       equals 'expected'", ('VALIDATION_ERROR',), 'assert-only'),
    ('assert-exit-code-bad-integer', "exit-code == 1+", ('VALIDATION_ERROR',), 'assert-only'),
    ('missing-absolute-file-copy', 'copy /vsym-no-such-dir/f.txt', ('VALIDATION_ERROR',), None),
    ('missing-absolute-file-via-path-symbol', 'copy @[AP]@/f.txt', ('VALIDATION_ERROR',), None),
    ('missing-absolute-file-contents-of', 'file c.txt = -contents-of /vsym-no-such-dir/f.txt', ('VALIDATION_ERROR',), None),
    ('missing-absolute-program', 'run /vsym-no-such-dir/program arg', ('VALIDATION_ERROR',), None),
    # every symbol a path component / an integer is built from must be a string - transitively, whichever reference
    ('indirect-wrong-type-1st-reference-path-component', 'dir -rel-tmp d-@[IND1]@', ('VALIDATION_ERROR',), None),
    ('indirect-wrong-type-2nd-reference-path-component', 'dir -rel-tmp d-@[IND2]@', ('VALIDATION_ERROR',), None),
    ('indirect-wrong-type-depth-2-last-reference-path-component', 'dir -rel-tmp d-@[IND3]@', ('VALIDATION_ERROR',), None),
    ('indirect-wrong-type-2nd-reference-integer', 'timeout = @[IND2]@', ('VALIDATION_ERROR',), None),
    ('indirect-wrong-type-2nd-reference-program-name', '% @[IND2]@', ('VALIDATION_ERROR',), None),
    ('bad-integer-expression', 'timeout = 1+', ('VALIDATION_ERROR',), None),
    ('bad-integer-name', 'timeout = abc', ('VALIDATION_ERROR',), None),
    # integer expressions whose evaluation ends in every other way than an integer (round 9: C03-r9m1 let SystemExit escape -
    # `exit-code == exit(0)` ended the program with exit code 0 and nothing printed)
    ('bad-integer-exit-0', 'timeout = exit(0)', ('VALIDATION_ERROR',), None),
    ('bad-integer-quit', 'timeout = quit()', ('VALIDATION_ERROR',), None),
    ('bad-integer-exit-3-in-assertion', 'exit-code == exit(3)', ('VALIDATION_ERROR',), 'assert-only'),
    ('bad-integer-division-by-zero', 'timeout = 1//0', ('VALIDATION_ERROR',), None),
    ('bad-integer-float', 'timeout = 1.5', ('VALIDATION_ERROR',), None),
    ('bad-integer-too-large-to-display', 'timeout = 10**5000', ('VALIDATION_ERROR',), None),
    ('bad-integer-negative-timeout', 'timeout = -1', ('VALIDATION_ERROR',), None),
    ('bad-integer-in-line-range', "file li.txt = 'x' -transformed-by filter -line-nums exit(0)", ('VALIDATION_ERROR',), None),
    ('bad-integer-in-num-lines', "contents f1.txt : num-lines == quit()", ('VALIDATION_ERROR',), 'assert-only'),
    ('bad-integer-via-string-symbol', 'def string EXITING = exit(0)\ntimeout = @[EXITING]@', ('VALIDATION_ERROR',), None),
    ('bad-regex', "file r.txt = -contents-of -rel-home existing.txt -transformed-by replace '(' y", ('VALIDATION_ERROR',), None),
    # validation that is accumulated through references to program symbols (round 4: C03-r4m1 dropped the validators of
    # arguments added where a program symbol is referenced)
    ('missing-home-file-arg-added-at-program-symbol-reference', 'run @ PGM -existing-file -rel-home missing.txt', ('VALIDATION_ERROR',), None),
    ('missing-home-file-arg-inside-referenced-program-symbol',
     'def program PGM2 = % echo -existing-file -rel-home missing.txt\nrun @ PGM2 more', ('VALIDATION_ERROR',), None),
    ('missing-home-file-arg-at-reference-of-reference',
     'def program PGM3 = @ PGM a\nrun @ PGM3 -existing-file -rel-home missing.txt', ('VALIDATION_ERROR',), None),
    ('missing-home-file-arg-at-program-symbol-reference-as-text-source',
     'file p.txt = -stdout-from @ PGM -existing-dir -rel-home missing-dir', ('VALIDATION_ERROR',), None),
    ('undefined-symbol-arg-added-at-program-symbol-reference', 'run @ PGM @[UNDEFINED_SYM]@', ('VALIDATION_ERROR',), None),
    ('bad-regex-in-transformer-added-at-program-symbol-reference',
     "file p2.txt = -stdout-from @ PGM\n    -transformed-by replace '(' y", ('VALIDATION_ERROR',), None),
    # an undefined symbol in every argument position that takes references (round 4: C03-r4m2 lost the references of
    # the DESTINATION of `copy`)
    ('undefined-symbol-in-copy-source', 'copy @[UNDEFINED_SYM]@', ('VALIDATION_ERROR',), None),
    ('undefined-symbol-in-copy-destination', 'copy -rel-home existing.txt @[UNDEFINED_SYM]@/dst.txt', ('VALIDATION_ERROR',), None),
    ('illegal-relativity-via-symbol-in-copy-destination', 'copy -rel-home existing.txt @[HP]@/dst.txt', ('VALIDATION_ERROR',), None),
    ('undefined-symbol-in-file-name', "file @[UNDEFINED_SYM]@ = 'x'", ('VALIDATION_ERROR',), None),
    ('undefined-symbol-in-dir-name', 'dir -rel-tmp @[UNDEFINED_SYM]@', ('VALIDATION_ERROR',), None),
    ('undefined-symbol-in-cd', 'cd @[UNDEFINED_SYM]@', ('VALIDATION_ERROR',), None),
    ('undefined-symbol-in-env-value', 'env V = @[UNDEFINED_SYM]@', ('VALIDATION_ERROR',), None),
    ('undefined-symbol-in-timeout', 'timeout = @[UNDEFINED_SYM]@', ('VALIDATION_ERROR',), None),
    ('undefined-transformer-symbol', "file t.txt = 'x' -transformed-by UNDEFINED_TRANSFORMER", ('VALIDATION_ERROR',), None),
    ('undefined-symbol-in-file-list', 'dir dl = { file @[UNDEFINED_SYM]@ }', ('VALIDATION_ERROR',), None),
    ('undefined-matcher-symbol-in-assertion', 'exit-code UNDEFINED_MATCHER', ('VALIDATION_ERROR',), 'assert-only'),
    ('undefined-symbol-in-path-of-assertion', 'exists @[UNDEFINED_SYM]@', ('VALIDATION_ERROR',), 'assert-only'),
    ('undefined-file-matcher-symbol-in-assertion', 'exists f.txt : UNDEFINED_FM', ('VALIDATION_ERROR',), 'assert-only'),
    # composites whose several parts each carry validation: the defective part at every position (round 6: C03-r6m1 kept one
    # validator per file NAME of a files-condition, so the matcher of an earlier entry with the same name was not validated)
    ('files-condition-same-name-bad-matcher-first',
     "dir-contents . : matches {\n    f1.txt : contents matches '('\n    f1.txt : type file\n}", ('VALIDATION_ERROR',), 'assert-only'),
    ('files-condition-same-name-bad-matcher-last',
     "dir-contents . : matches {\n    f1.txt : type file\n    f1.txt : contents matches '('\n}", ('VALIDATION_ERROR',), 'assert-only'),
    ('files-condition-same-name-other-spelling-missing-home-file-first',
     "dir-contents . : matches -full {\n    f1.txt : contents equals -contents-of -rel-home missing.txt\n    ./f1.txt : type file\n}",
     ('VALIDATION_ERROR',), 'assert-only'),
    ('files-condition-three-entries-bad-integer-in-the-middle',
     "dir-contents . : matches {\n    a : type file\n    f1.txt : contents num-lines == notAnInt\n    f1.txt\n}",
     ('VALIDATION_ERROR',), 'assert-only'),
    ('files-condition-symbol-same-name-bad-matcher-first',
     "def files-condition FC = {\n    f1.txt : contents matches '('\n    f1.txt : type file\n}\ndir-contents . : matches FC",
     ('VALIDATION_ERROR',), 'assert-only'),
    ('conjunction-bad-operand-last', "exists f1.txt : ( type file && contents matches '(' )", ('VALIDATION_ERROR',), 'assert-only'),
    ('disjunction-bad-operand-first', "exists f1.txt : ( contents matches '(' || type file )", ('VALIDATION_ERROR',), 'assert-only'),
    ('disjunction-three-operands-bad-in-the-middle',
     "exists f1.txt : ( type file || contents equals -contents-of -rel-home missing.txt || type dir )", ('VALIDATION_ERROR',),
     'assert-only'),
    ('file-list-bad-contents-first', "dir dl1 = {\n    file a = -contents-of -rel-home missing.txt\n    file b = 'x'\n}",
     ('VALIDATION_ERROR',), None),
    ('file-list-bad-contents-last', "dir dl2 = {\n    file a = 'x'\n    file a2 = 'y'\n    file b = -contents-of -rel-home missing.txt\n}",
     ('VALIDATION_ERROR',), None),
    ('file-list-nested-bad-contents', "dir dl3 = {\n    dir sub = {\n        file b = -contents-of -rel-home missing.txt\n    }\n    file c = 'x'\n}",
     ('VALIDATION_ERROR',), None),
    ('program-arguments-missing-file-first-of-three', '% echo -existing-file -rel-home missing.txt -existing-file -rel-home existing.txt x',
     ('VALIDATION_ERROR',), None),
    ('program-arguments-missing-file-last-of-three', '% echo x -existing-file -rel-home existing.txt -existing-file -rel-home missing.txt',
     ('VALIDATION_ERROR',), None),
    ('transformer-sequence-bad-regex-first', "file ts1.txt = 'x' -transformed-by ( replace '(' y | identity | char-case -to-upper )",
     ('VALIDATION_ERROR',), None),
    ('transformer-sequence-bad-regex-in-the-middle', "file ts2.txt = 'x' -transformed-by ( identity | replace '(' y | char-case -to-upper )",
     ('VALIDATION_ERROR',), None),
    ('replace-with-line-selection-bad-regex', "file ts3.txt = 'x' -transformed-by replace -at line-num == 1 '(' y", ('VALIDATION_ERROR',), None),
    ('replace-with-line-selection-and-preserve-new-lines-bad-regex',
     "file ts4.txt = 'x' -transformed-by replace -at line-num == 1 -preserve-new-lines '(' y", ('VALIDATION_ERROR',), None),
    ('replace-with-bad-line-selection', "file ts5.txt = 'x' -transformed-by replace -at line-num == notAnInt 'a' y", ('VALIDATION_ERROR',), None),
    ('bad-regex-in-matcher-after-valid', "file r2.txt = -contents-of -rel-home existing.txt -transformed-by ( identity | filter contents matches '(' )",
     ('VALIDATION_ERROR',), None),
)
ACT_DEFECTS = (
    ('act-syntax-second-line', ['$ echo act', 'second line'], ('SYNTAX_ERROR',), None),
    ('act-syntax-unterminated-quote-in-program', ["'unterminated-program arg"], ('SYNTAX_ERROR',), None),
    ('act-undefined-symbol', ['$ echo @[UNDEFINED_SYM]@'], ('VALIDATION_ERROR',), None),
    ('act-symbol-defined-in-later-phase', ['$ echo @[LATER_BA]@'], ('VALIDATION_ERROR',), 'later-ba'),
    ('act-missing-home-program', ['missing-program-in-home arg'], ('VALIDATION_ERROR',), None),
    ('act-missing-home-file-arg-added-at-program-symbol-reference', ['@ PGM -existing-file -rel-home missing.txt'],
     ('VALIDATION_ERROR',), None),
    ('act-undefined-symbol-arg-added-at-program-symbol-reference', ['@ PGM @[UNDEFINED_SYM]@'], ('VALIDATION_ERROR',), None),
    ('act-missing-home-file-arg-of-program', ['% echo -existing-file -rel-home missing.txt'], ('VALIDATION_ERROR',), None),
    # the other actors (round 5: C08-r5m2 dropped the references of the arguments after the file name of the file actor)
    ('act-file-actor-undefined-symbol-in-argument', ['existing.txt @[UNDEFINED_SYM]@'], ('VALIDATION_ERROR',), 'conf:actor = file % sh'),
    ('act-file-actor-undefined-symbol-in-file-name', ['@[UNDEFINED_SYM]@ arg'], ('VALIDATION_ERROR',), 'conf:actor = file % sh'),
    ('act-file-actor-symbol-defined-in-later-ba-phase-in-argument', ['existing.txt @[LATER_BA]@'], ('VALIDATION_ERROR',),
     'conf:actor = file % sh'),
    ('act-file-actor-wrong-symbol-type-in-argument', ['existing.txt @[LM]@'], ('VALIDATION_ERROR',), 'conf:actor = file % sh'),
    ('act-file-actor-missing-file', ['missing.src arg'], ('VALIDATION_ERROR',), 'conf:actor = file % sh'),
    ('act-file-actor-two-lines', ['existing.txt', 'second line'], ('SYNTAX_ERROR',), 'conf:actor = file % sh'),
    ('act-source-actor-undefined-symbol-in-source', ['echo @[UNDEFINED_SYM]@'], ('VALIDATION_ERROR',), 'conf:actor = source % sh'),
    ('act-source-actor-undefined-symbol-in-interpreter-argument', ['echo x'], ('VALIDATION_ERROR',),
     'conf:actor = source % sh @[UNDEFINED_SYM]@'),
    ('act-file-actor-undefined-symbol-in-interpreter-argument', ['existing.txt'], ('VALIDATION_ERROR',),
     'conf:actor = file % sh @[UNDEFINED_SYM]@'),
    ('act-undefined-symbol-in-stdin-of-program', ['% cat', '  -stdin @[UNDEFINED_SYM]@'], ('VALIDATION_ERROR',), None),
    ('act-undefined-transformer-of-program', ['% cat', '  -transformed-by UNDEFINED_TRANSFORMER'], ('VALIDATION_ERROR',), None),
)


def case_text(defect, phase: str, pos: int) -> str:
    name, line, _, extra = defect
    secs = {k: list(v) for k, v in BASE.items()}
    secs['setup'] = PRELUDE + secs['setup']
    if isinstance(line, list):
        secs['act'] = list(line)
    else:
        base_len = len(BASE[phase])
        at = (len(PRELUDE) if phase == 'setup' else 0) + (0 if pos == 0 else base_len if pos == 2 else 1)
        secs[phase].insert(at, line)
    if isinstance(extra, str) and extra.startswith('conf:'):
        secs['conf'].append(extra[len('conf:'):])
        if 'later-ba' in name:
            secs['before-assert'].append("def string LATER_BA = 'v'")
    if extra == 'later':
        secs['cleanup'].append("def string LATER = 'v'")
    if extra == 'later-ba':
        secs['before-assert'].append("def string LATER_BA = 'v'")
    out = []
    for ph in ('conf', 'setup', 'act', 'before-assert', 'assert', 'cleanup'):
        out.append('[%s]' % ph)
        out.extend(secs[ph])
        out.append('')
    return '\n'.join(out) + '\n'


class _SubprocessStub:
    """Stands in for the `subprocess` module at exactly_lib's single process-starting site.
    Records every call and starts nothing."""
    import subprocess as _sp
    TimeoutExpired = _sp.TimeoutExpired
    DEVNULL = _sp.DEVNULL
    PIPE = _sp.PIPE
    STDOUT = _sp.STDOUT
    calls = []

    @classmethod
    def call(cls, *a, **k):
        cls.calls.append((a, k))
        return 0


_MP = {}


def run_cli(text: str, symbol_cmd: bool, option: str = None):
    """Runs the REAL main program in process on a test-case file holding `text`."""
    import io
    from vsym import scratch
    from harness.C02 import Sink
    from exactly_lib.cli import main_program
    from exactly_lib.cli_default import default_main_program_setup as d
    from exactly_lib.util.file_utils.std import StdOutputFiles
    from exactly_lib.util.process_execution import process_executor
    from exactly_lib.processing import preprocessor
    process_executor.subprocess = _SubprocessStub
    preprocessor.subprocess = _SubprocessStub
    work = scratch.new_dir('c03')
    case_dir = os.path.join(work, 'case')
    os.mkdir(case_dir)
    with open(os.path.join(case_dir, 'existing.txt'), 'w') as f:
        f.write('e\n')
    path = os.path.join(case_dir, 't.case')
    with open(path, 'w') as f:
        f.write(text)
    roots = []

    def resolver() -> str:
        p = os.path.join(work, 'sandboxes-%d' % (len(roots) + 1))
        os.mkdir(p)
        roots.append(p)
        return p

    mp = main_program.MainProgram(
        d.test_case_handling_setup.setup(), resolver,
        d.TestCaseDefinitionForMainProgram(
            d.TestCaseParsingSetup(d.instruction_name_and_argument_splitter.splitter,
                                   d.default_instructions_setup.INSTRUCTIONS_SETUP, d.ActPhaseParser()),
            d.builtin_symbols.ALL),
        d.test_suite.test_suite_definition(), io.DEFAULT_BUFFER_SIZE)
    out, err = Sink(), Sink()
    _SubprocessStub.calls = []
    cwd = os.getcwd()
    before = sorted(os.listdir(case_dir))
    argv = (['symbol'] if symbol_cmd else []) + ([option] if option else []) + [path]
    exc = None
    try:
        rc = mp.execute(argv, StdOutputFiles(out, err))
    except Exception as e:  # noqa
        rc, exc = None, e
    except SystemExit as e:  # the program must return its exit code, not leave through sys.exit / exit() of an evaluated text
        rc, exc = None, e
    os.chdir(cwd)
    after = sorted(os.listdir(case_dir))
    n_calls = len(_SubprocessStub.calls)
    scratch.remove(work)
    return dict(rc=rc, exc=exc, ident=out.value().split('\n')[0], stdout=out.value(), stderr=err.value(),
                process_starts=n_calls, sandboxes=len(roots), home_changed=(before != after))


def _pre_k3(d: int, ph: int, pos: int, sym: int) -> bool:
    nd = len(ACT_DEFECTS if ob.case()['act'] else DEFECTS)
    if not (0 <= d < nd and 0 <= ph < len(PHASES) and 0 <= pos <= 2 and 0 <= sym < len(K3_MODES)):
        return False
    if ob.case()['act'] and (ph != 0 or pos != 0):
        return False
    lo, hi = ob.case()['range']
    if not (lo <= d < hi):
        return False
    if not ob.case()['act'] and DEFECTS[d][3] == 'assert-only' and PHASES[ph] != 'assert':
        return False
    if ob.excluded('missing-argument-at-end-of-phase') and not ob.case()['act'] and d == 0 and pos == 2:
        # known finding: an instruction whose mandatory argument is missing takes it from the following
        # lines, even from the header line of the next phase (see known_findings.json)
        return False
    return True


def k3_invalid_case(d: int, ph: int, pos: int, sym: int) -> bool:
    """
    pre: _pre_k3(d, ph, pos, sym)
    post: _
    """
    act = ob.case()['act']
    defect = ob.pick(ACT_DEFECTS if act else DEFECTS, d)
    phase = ob.pick(PHASES, ph)
    pos = ob.concrete_int(pos, 0, 2)
    mode = ob.pick(K3_MODES, sym)   # (a bool is accepted: False = plain run, True = `symbol` command)
    sym = mode == 'symbol'
    text = case_text(defect, phase, pos)
    if ob.case().get('oracle_bug'):
        text = case_text(('valid', [BASE['act'][0]], (), None), phase, pos)
    with ob.untraced():   # every selector is concrete by now
        r = run_cli(text, sym, mode if mode.startswith('--') else None)
    no_effects = (r['exc'] is None and r['process_starts'] == 0 and r['sandboxes'] == 0 and not r['home_changed'])
    if sym:
        # `exactly symbol FILE` reports without executing anything (whatever it reports)
        return ob.post(no_effects)
    # the identifier is printed on stdout by a plain run and on stderr under --keep / --act (C02)
    ident = r['ident'] if mode == 'plain' else r['stderr'].split('\n')[0]
    return ob.post(no_effects and r['rc'] == 65 and ident in defect[2] and (mode == 'plain' or r['stdout'] == ''))


# ----------------------------------------------------------------------------- K4: the cases of a suite

# An instruction written in the SUITE file belongs to every case, is parsed once, and is validated for
# each case with that case's symbols: (name, phase, instruction in the suite file, definition in a valid case,
# definition in an invalid case)
SUITE_DEFECTS = (
    ('copy-home-file-via-path-symbol', 'before-assert', 'copy @[SYM]@',
     'def path SYM = -rel-home existing.txt', 'def path SYM = -rel-home missing.txt'),
    ('contents-of-home-file-via-path-symbol', 'cleanup', 'file c.txt = -contents-of @[SYM]@',
     'def path SYM = -rel-home existing.txt', 'def path SYM = -rel-home missing.txt'),
    ('existing-file-program-argument', 'assert', '% echo -existing-file @[SYM]@',
     'def path SYM = -rel-home existing.txt', 'def path SYM = -rel-home missing.txt'),
    ('timeout-via-string-symbol', 'before-assert', 'timeout = @[SYM]@',
     'def string SYM = 5', 'def string SYM = abc'),
    ('exit-code-integer-via-string-symbol', 'assert', 'exit-code == @[SYM]@',
     'def string SYM = 0', 'def string SYM = 1+'),
    ('regex-via-string-symbol', 'assert', "stdout -transformed-by replace @[SYM]@ y is-empty",
     'def string SYM = x', "def string SYM = '('"),
)
# which of the cases, in listing order, are invalid
SUITE_LAYOUTS = ((False, True), (True, False), (False, True, False), (False, False, True), (True, True))


def run_suite(files: dict, suite_name: str):
    """Runs the REAL main program (`exactly suite`) in process."""
    import io
    from vsym import scratch
    from harness.C02 import Sink
    from exactly_lib.cli import main_program
    from exactly_lib.cli.test_suite_def import TestSuiteDefinition
    from exactly_lib.cli_default import default_main_program_setup as d
    from exactly_lib.util.file_utils.std import StdOutputFiles
    from exactly_lib.util.process_execution import process_executor
    from exactly_lib.processing import preprocessor
    process_executor.subprocess = _SubprocessStub
    preprocessor.subprocess = _SubprocessStub
    work = scratch.new_dir('c03s')
    case_dir = os.path.join(work, 'suite')
    os.mkdir(case_dir)
    for name, text in files.items():
        with open(os.path.join(case_dir, name), 'w') as f:
            f.write(text)
    roots = []

    def resolver() -> str:
        p = os.path.join(work, 'sandboxes-%d' % (len(roots) + 1))
        os.mkdir(p)
        roots.append(p)
        return p

    class CountingSuiteDefinition(TestSuiteDefinition):
        @property
        def sandbox_root_dir_sdv(self):
            return resolver

    std = d.test_suite.test_suite_definition()
    mp = main_program.MainProgram(
        d.test_case_handling_setup.setup(), resolver,
        d.TestCaseDefinitionForMainProgram(
            d.TestCaseParsingSetup(d.instruction_name_and_argument_splitter.splitter,
                                   d.default_instructions_setup.INSTRUCTIONS_SETUP, d.ActPhaseParser()),
            d.builtin_symbols.ALL),
        CountingSuiteDefinition(std.configuration_section_instructions, std.configuration_section_parser),
        io.DEFAULT_BUFFER_SIZE)
    out, err = Sink(), Sink()
    _SubprocessStub.calls = []
    cwd = os.getcwd()
    exc = None
    try:
        rc = mp.execute(['suite', os.path.join(case_dir, suite_name)], StdOutputFiles(out, err))
    except Exception as e:  # noqa
        rc, exc = None, e
    cwd_after = os.getcwd()
    os.chdir(cwd)
    sandboxes_left = [os.path.isdir(r) and len(os.listdir(r)) > 0 for r in roots]
    scratch.remove(work)
    statuses = {}
    for line in (out.value() + err.value()).split('\n'):
        parts = line.split()
        if len(parts) >= 3 and parts[0] == 'case':
            statuses[os.path.basename(parts[1].rstrip(':'))] = parts[-1]
    return dict(rc=rc, exc=exc, statuses=statuses, sandboxes=len(roots), process_starts=len(_SubprocessStub.calls),
                stdout=out.value(), stderr=err.value(), sandboxes_left=sandboxes_left, cwd_restored=(cwd_after == cwd))


def suite_files(defect, layout) -> dict:
    name, phase, line, valid_def, invalid_def = defect
    files = {'existing.txt': 'e\n'}
    case_names = ['c%d.case' % (i + 1) for i in range(len(layout))]
    files['the.suite'] = '[cases]\n' + '\n'.join(case_names) + '\n\n[%s]\n%s\n' % (phase, line)
    for case_name, invalid in zip(case_names, layout):
        files[case_name] = '[setup]\n%s\n$ touch setup-marker\n[act]\n$ echo act\n[assert]\nexit-code == 0\n' % (
            invalid_def if invalid else valid_def)
    return files


def _pre_k4(sd: int, lay: int) -> bool:
    return 0 <= sd < len(SUITE_DEFECTS) and 0 <= lay < len(SUITE_LAYOUTS)


def k4_suite_cases(sd: int, lay: int) -> bool:
    """
    pre: _pre_k4(sd, lay)
    post: _
    """
    defect = ob.pick(SUITE_DEFECTS, sd)
    layout = ob.pick(SUITE_LAYOUTS, lay)
    if ob.case().get('oracle_bug'):
        layout = tuple(False for _ in layout)  # seeded oracle error: expects VALIDATION_ERROR of a valid suite
        expected_invalid = SUITE_LAYOUTS[lay]
    else:
        expected_invalid = layout
    with ob.untraced():   # every selector is concrete by now
        r = run_suite(suite_files(defect, layout), 'the.suite')
    if r['exc'] is not None:
        return ob.post(False)
    ok = True
    for i, invalid in enumerate(expected_invalid):
        status = r['statuses'].get('c%d.case' % (i + 1))
        ok = ok and (status == 'VALIDATION_ERROR' if invalid else status == 'PASS')
    n_valid = len([x for x in expected_invalid if not x])
    # an invalid case creates no sandbox (and, the sandbox being where processes run, starts nothing)
    return ob.post(ok and r['sandboxes'] == n_valid and r['rc'] == (4 if n_valid < len(expected_invalid) else 0))


# -----------------------------------------------------------------------------

def obligations(tier: str) -> List[Ob]:
    from harness import C01
    obs = []
    ns = [(1, 1, 1, 1, 1)] if tier == 'quick' else [(1, 1, 1, 1, 1), (2, 2, 2, 2, 2), (0, 2, 1, 0, 2)]
    for n in ns:
        for i, (c, fam) in enumerate(C01.canonical(n)):
            if fam in ('parse', 'sym', 'pre'):
                obs.append(Ob(name='K1:n%s:%s-%s-%d' % ((''.join(map(str, n)),) + c), fn='k1_no_effects',
                              case=dict(n=n, cell=i), kernel='K1',
                              bound='instructions per phase %s; defect at step %s/%s of instruction %d with every applicable kind; '
                                    'status PASS/FAIL' % ((n,) + c),
                              timeout=300, real=REAL_K1, stubs=('stub instructions / actor', 'counting sandbox resolver'),
                              entry='full_execution.execution.execute'))
    obs.append(Ob(name='K1:seeded-oracle-error', fn='k1_no_effects',
                  case=dict(n=(1, 1, 1, 1, 1), cell=[i for i, (c, f) in enumerate(C01.canonical((1, 1, 1, 1, 1)))
                                                     if c == ('assert', 'pre', 0)][0], oracle_bug=True), kernel='K1',
                  bound='seeded: oracle forbids even the validation steps', timeout=300, expect=ob.REFUTE))
    obs.append(Ob(name='K2:accessor', fn='k2_accessor', case={}, kernel='K2', selector=True,
                  bound='stage in {read, preprocess, parse} failing by ProcessError / AccessorError(each type) / other exception',
                  timeout=300, real=REAL_K2, stubs=('stub reader, preprocessor, parser, recording executor',)))
    obs.append(Ob(name='K2:seeded-oracle-error', fn='k2_accessor', case=dict(oracle_bug=True), kernel='K2', selector=True,
                  bound='seeded: oracle expects SYNTAX_ERROR for every stage', timeout=300, expect=ob.REFUTE))
    step = 1 if tier == 'thorough' else 2
    for lo in range(0, len(DEFECTS), step):
        hi = min(lo + step, len(DEFECTS))
        obs.append(Ob(name='K3:cli:%s' % '+'.join(d[0] for d in DEFECTS[lo:hi]), fn='k3_invalid_case',
                      case=dict(act=False, range=(lo, hi)), kernel='K3', selector=True,
                      bound='defects %s inserted into each of %s at position first / second / last of the phase; '
                            'plain run, `symbol` command, --act and --keep' % ([d[0] for d in DEFECTS[lo:hi]], list(PHASES)),
                      timeout=2400, real=REAL_K3,
                      stubs=('subprocess module at process_executor / preprocessor: recording stub that starts nothing',
                             'counting sandbox resolver (MainProgram constructor argument)', 'in-memory stdout/stderr',
                             'CrossHair tracing is suspended while the program runs on the concrete test case (every selector has '
                             'been made concrete before): the solver enumerates the selector space'),
                      entry='MainProgram.execute([FILE]) / MainProgram.execute(["symbol", FILE])',
                      outside=('effects through channels other than processes, the sandbox and the home directory',)))
    obs.append(Ob(name='K3:cli:act-phase', fn='k3_invalid_case', case=dict(act=True, range=(0, len(ACT_DEFECTS))),
                  kernel='K3', selector=True,
                  bound='act-phase defects %s; plain run, `symbol` command, --act and --keep' % [d[0] for d in ACT_DEFECTS],
                  timeout=1200, real=REAL_K3, entry='MainProgram.execute'))
    obs.append(Ob(name='K3:seeded-oracle-error', fn='k3_invalid_case', case=dict(act=True, range=(0, 1), oracle_bug=True),
                  kernel='K3', selector=True, bound='seeded: a valid case is claimed to be rejected', timeout=600,
                  expect=ob.REFUTE))
    obs.append(Ob(name='K4:suite-cases', fn='k4_suite_cases', case={}, kernel='K4', selector=True,
                  bound='suites of 2-3 cases sharing ONE instruction written in the suite file (%s) whose validity depends on a '
                        'symbol each case defines itself; which cases are invalid: %s' % (
                            [d[0] for d in SUITE_DEFECTS], [list(x) for x in SUITE_LAYOUTS]),
                  timeout=1800, real=REAL_K3 + ('exactly_lib.test_suite.processing.Processor.process_reporter',
                                                'exactly_lib.test_suite.file_reading.suite_file_reading',
                                                'exactly_lib.processing.processors._Executor.apply'),
                  stubs=('subprocess module at process_executor / preprocessor: recording stub that starts nothing',
                         'counting sandbox resolver (TestSuiteDefinition.sandbox_root_dir_sdv)', 'in-memory stdout/stderr'),
                  entry='MainProgram.execute(["suite", FILE])'))
    obs.append(Ob(name='K4:seeded-oracle-error', fn='k4_suite_cases', case=dict(oracle_bug=True), kernel='K4',
                  selector=True, bound='seeded: valid cases claimed to be rejected', timeout=600, expect=ob.REFUTE))
    return obs


ASSUMPTIONS = [
    'subprocess.call is the only way exactly_lib starts processes (read: process_executor.py, preprocessor.py); it is replaced by a '
    'recording stub that starts nothing',
    'the sandbox root is obtained only through the sandbox_root_dir_resolver handed to MainProgram',
]
OUTSIDE = ['effects an instruction could have through channels other than processes, the sandbox and the home directory '
           '(none exist in the instruction set as read)']
