"""Helpers of the C12 harness (paths and relativities).

Two halves that share nothing but the abstract syntax of the generated inputs:

* the REFERENCE half (`ref_*`, `CONFS`, `Fixture.root`): what the manual says a PATH denotes, written
  without importing exactly_lib: the accepted relativities of each argument (tables copied
  from `exactly help ...`), "relativity of a chain of symbols = relativity of its root",
  "value = root directory joined with all suffixes", "-rel-cd is resolved when used";
* the REAL half (`real_*`, `run_cli`): renders the abstract syntax to source text and feeds it to the
  repository's own parsers (`def` instruction of the default instruction set, `parse_path.parse_path`
  with the configuration objects of the real instructions), `validate_symbol_usages`, the SDV/DDV
  resolution, and `MainProgram.execute`.

Abstract syntax of a PATH argument:   (rel, frags, quoted)
    rel    ''            no RELATIVITY (default relativity of the argument)
           'opt:<kind>'  one of the six relativity options, kind in KINDS
           'sym:<NAME>'  -rel NAME
           'here'        -rel-here
    frags  tuple of ('c', text) | ('r', SYMBOL-NAME)      -- FILE-NAME, may be empty
    quoted True: FILE-NAME is written inside double quotes (soft quotes: references are substituted)
A definition:  ('path', NAME, expr) | ('string', NAME, frags)
"""
import os
import pathlib
from typing import Dict, List, Optional, Sequence, Tuple

KINDS = ('cwd', 'home', 'act-home', 'act', 'tmp', 'result')
OPTION = {'cwd': '-rel-cd', 'home': '-rel-home', 'act-home': '-rel-act-home',
          'act': '-rel-act', 'tmp': '-rel-tmp', 'result': '-rel-result'}
SANDBOX_SUB_DIR = {'act': 'act', 'tmp': 'tmp', 'result': 'result'}  # documented sandbox layout

ALL = frozenset(KINDS)
CREATE = frozenset(('act', 'tmp', 'cwd'))


class Conf:
    """What the manual says about one PATH argument (exactly help <phase> <instruction>)."""

    def __init__(self, name: str, accepted, abs_ok: bool, default: str, suffix_required: bool, here_ok: bool = False,
                 creates: bool = False):
        self.name = name
        self.accepted = frozenset(accepted)
        self.abs_ok = abs_ok
        self.default = default
        self.suffix_required = suffix_required
        self.here_ok = here_ok
        self.creates = creates


# name -> documented behaviour.  The real configuration object of the same argument: real_conf(name)
CONFS: Dict[str, Conf] = {c.name: c for c in (
    Conf('file-dst', CREATE, False, 'cwd', True, creates=True),
    Conf('dir-dst', CREATE, False, 'cwd', True, creates=True),
    Conf('copy-dst', CREATE, False, 'cwd', False, creates=True),
    Conf('copy-src-pre', ALL - {'result'}, True, 'home', True),
    Conf('copy-src-post', ALL, True, 'home', True),
    Conf('def-path', ALL, True, 'cwd', True, here_ok=True),
    Conf('cd-pre', CREATE, True, 'cwd', True),
    Conf('cd-post', CREATE | {'result'}, True, 'cwd', True),
    Conf('exists', ALL - {'result'}, True, 'cwd', True),
    Conf('contents', ALL - {'result'}, True, 'cwd', True),
    Conf('contents-of-pre', ALL - {'result'}, True, 'home', True),
    Conf('contents-of-post', ALL, True, 'home', True),
)}


class _Null:
    def __enter__(self):
        return self

    def __exit__(self, *a):
        return False


def untraced():
    """Context manager: suspends CrossHair's byte-code tracer (no-op on plain CPython / in replay).

    Used only after every symbolic selector has been made a concrete Python value (ob.concrete_int /
    ob.pick / ob.concrete_bool fork the path per value BEFORE this point), so that everything executed
    inside is a function of concrete data only: the real code then runs natively and CrossHair's role is
    the exhaustive enumeration of the selector space.  No symbolic value may be live inside the block."""
    try:
        from crosshair.tracers import NoTracing, is_tracing
    except ImportError:
        return _Null()
    if not is_tracing():
        return _Null()
    return NoTracing()


# ----------------------------------------------------------------------------- rendering

def render_frags(frags) -> str:
    return ''.join(t if k == 'c' else '@[%s]@' % t for k, t in frags)


def render_expr(expr) -> str:
    rel, frags, quoted = expr
    out = []
    if rel.startswith('opt:'):
        out.append(OPTION[rel[4:]])
    elif rel.startswith('sym:'):
        out.append('-rel ' + rel[4:])
    elif rel == 'here':
        out.append('-rel-here')
    name = render_frags(frags)
    if quoted:
        name = '"' + name + '"'
    elif ' ' in name:
        raise ValueError('harness: unquoted file name with space')
    if name:
        out.append(name)
    return ' '.join(out)


def render_def(d) -> str:
    if d[0] == 'path':
        return 'def path %s = %s' % (d[1], render_expr(d[2]))
    text = render_frags(d[2])
    return 'def string %s = "%s"' % (d[1], text)


# ----------------------------------------------------------------------------- fixture

class Fixture:
    """Directories of a test-case directory structure.  The current directory is NOT part of the fixture:
    it is whatever the process' current directory is when a value is used."""

    def __init__(self, home: str, act_home: str, sds_root: str, here: str):
        self.home, self.act_home, self.sds_root, self.here = home, act_home, sds_root, here
        self.cwd = None  # whole-program runs: the current directory of the test case at the time of use

    def root(self, kind: str) -> str:
        if kind == 'home':
            return self.home
        if kind == 'act-home':
            return self.act_home
        if kind == 'cwd':
            return self.cwd if self.cwd is not None else os.getcwd()
        return self.sds_root + '/' + SANDBOX_SUB_DIR[kind]


UNIT_FIXTURE = Fixture('/vsym-fx/home-case', '/vsym-fx/home-act', '/vsym-fx/sds', '/vsym-fx/src-dir')


def norm(p) -> str:
    return str(pathlib.PurePosixPath(str(p)))


def join(base: str, suffix: str) -> str:
    return str(pathlib.PurePosixPath(base) / suffix) if suffix else base


# ----------------------------------------------------------------------------- reference semantics

class RefPath:
    def __init__(self, kind: str, abs_base: Optional[str], parts: Tuple[str, ...]):
        self.kind, self.abs_base, self.parts = kind, abs_base, parts  # kind 'abs': abs_base is the root

    def value(self, fx: Fixture) -> str:
        root = self.abs_base if self.kind == 'abs' else fx.root(self.kind)
        p = pathlib.PurePosixPath(root)
        for part in self.parts:
            if part != '':
                p = p / part
        return str(p)


class RefString:
    def __init__(self, text: Optional[str], path_dependent: bool):
        self.text, self.path_dependent = text, path_dependent


SYNTAX, VALIDATION, REJECT = 'syntax', 'validation', 'reject'


def _string_of_frags(frags, env) -> Tuple[Optional[str], Optional[str]]:
    """(error, text) of a FILE-NAME / string made of constants and references that must all be pure strings"""
    out = []
    for k, t in frags:
        if k == 'c':
            out.append(t)
        else:
            v = env.get(t)
            if v is None:
                return VALIDATION, None  # undefined symbol
            if not isinstance(v, RefString) or v.path_dependent:
                # "Every symbol used as a path component of a path must be defined as a string"
                # (also indirectly: a string built from a path has lost its relativity)
                return VALIDATION, None
            out.append(v.text)
    return None, ''.join(out)


def _accepted(conf: Conf, kind: str) -> bool:
    return conf.abs_ok if kind == 'abs' else kind in conf.accepted


def ref_eval(expr, env: Dict[str, object], conf: Conf):
    """-> (SYNTAX,) | (VALIDATION,) | (REJECT,) | ('ok', RefPath).
    REJECT: the manual excludes the input but does not say at which stage (absolute FILE-NAME, see region
    'absolute-file-name')."""
    rel, frags, quoted = expr
    if rel.startswith('opt:') and rel[4:] not in conf.accepted:
        return (SYNTAX,)
    if rel == 'here' and not conf.here_ok:
        return (SYNTAX,)
    if not frags and (conf.suffix_required or quoted):
        return (SYNTAX,) if not quoted else (VALIDATION,)  # "" as file name: not generated
    base = None
    rest = frags
    if rel.startswith('sym:'):
        v = env.get(rel[4:])
        if v is None or not isinstance(v, RefPath):
            return (VALIDATION,)
        if not _accepted(conf, v.kind):
            return (VALIDATION,)
        base = v
    elif rel == '' and frags and frags[0][0] == 'r' and (
            len(frags) == 1 or (frags[1][0] == 'c' and frags[1][1].startswith('/'))):
        v = env.get(frags[0][1])
        if v is None:
            return (VALIDATION,)
        if isinstance(v, RefPath):
            if not _accepted(conf, v.kind):
                return (VALIDATION,)
            base = v
            rest = frags[1:]
    err, name = _string_of_frags(rest, env)
    if err:
        return (err,)
    if base is not None and rel == '':
        # FILE-NAME begins with a reference to a path symbol: the rest is relative to it
        name = name.lstrip('/')
        return ('ok', RefPath(base.kind, base.abs_base, base.parts + ((name,) if name else ())))
    if name.startswith('/'):
        # "If FILE-NAME is an absolute path, then RELATIVITY must not be given."
        if rel != '' or not conf.abs_ok:
            return (REJECT,)
        return ('ok', RefPath('abs', name, ()))
    if base is not None:
        return ('ok', RefPath(base.kind, base.abs_base, base.parts + ((name,) if name else ())))
    if rel == 'here':
        return ('ok', RefPath('abs', None, (name,)))  # abs_base filled in by the caller (location of the source file)
    kind = rel[4:] if rel.startswith('opt:') else conf.default
    return ('ok', RefPath(kind, None, (name,) if name else ()))


def is_absolute_file_name(expr, env) -> bool:
    """region 'absolute-file-name': FILE-NAME, after substitution of string symbols, is an absolute path and is
    not relative to a leading path-symbol reference"""
    rel, frags, quoted = expr
    rest = frags
    if rel == '' and frags and frags[0][0] == 'r' and isinstance(env.get(frags[0][1]), RefPath):
        return False
    err, name = _string_of_frags(rest, env)
    return err is None and name.startswith('/')


def ref_program(defs, use_conf: Conf, use_expr, fx: Fixture):
    """-> (index of the first rejected line or None, outcome of that line / of the use)"""
    env: Dict[str, object] = {}
    for i, d in enumerate(defs):
        if d[1] in env:
            return i, (VALIDATION,)
        if d[0] == 'string':
            text = []
            dep = False
            bad = False
            for k, t in d[2]:
                if k == 'c':
                    text.append(t)
                else:
                    v = env.get(t)
                    if v is None:
                        bad = True
                        break
                    if isinstance(v, RefPath) or v.path_dependent:
                        dep = True
                        text.append('<path>')
                    else:
                        text.append(v.text)
            if bad:
                return i, (VALIDATION,)
            env[d[1]] = RefString(''.join(text), dep)
        else:
            r = ref_eval(d[2], env, CONFS['def-path'])
            if r[0] != 'ok':
                return i, r
            v = r[1]
            if v.kind == 'abs' and v.abs_base is None:
                v = RefPath('abs', fx.here, v.parts)
            env[d[1]] = v
    r = ref_eval(use_expr, env, use_conf)
    if r[0] == 'ok' and r[1].kind == 'abs' and r[1].abs_base is None:
        r = ('ok', RefPath('abs', fx.here, r[1].parts))
    return (None if r[0] == 'ok' else len(defs)), r


def ref_env(defs, fx: Fixture):
    """environment after the (valid) definitions"""
    env = {}
    for d in defs:
        if d[0] == 'string':
            dep = any(k == 'r' and (isinstance(env[t], RefPath) or env[t].path_dependent) for k, t in d[2])
            env[d[1]] = RefString(''.join(t if k == 'c' else ('<path>' if dep else env[t].text) for k, t in d[2]), dep)
        else:
            r = ref_eval(d[2], env, CONFS['def-path'])
            if r[0] != 'ok':
                raise ValueError('harness: ref_env on invalid definitions')
            v = r[1]
            if v.kind == 'abs' and v.abs_base is None:
                v = RefPath('abs', fx.here, v.parts)
            env[d[1]] = v
    return env


# ----------------------------------------------------------------------------- the real thing (unit level)

_REAL_CONF = {}


def real_conf(name: str):
    """The configuration object the REAL instruction hands to parse_path for this argument."""
    if name not in _REAL_CONF:
        from exactly_lib.impls.instructions.multi_phase import new_file, new_dir, copy, change_dir
        from exactly_lib.impls.instructions.multi_phase.define_symbol import type_parser
        from exactly_lib.impls.instructions.assert_ import existence_of_file, contents_of_file
        _REAL_CONF.update({
            'file-dst': new_file.REL_OPT_ARG_CONF,
            'dir-dst': new_dir.RELATIVITY_VARIANTS,
            'copy-dst': copy.REL_OPTION_ARG_CONF_FOR_DESTINATION,
            'copy-src-pre': copy.src_rel_opt_arg_conf_for_phase(False),
            'copy-src-post': copy.src_rel_opt_arg_conf_for_phase(True),
            'def-path': type_parser.REL_OPTION_ARGUMENT_CONFIGURATION,
            'cd-pre': change_dir.relativity_options(False),
            'cd-post': change_dir.relativity_options(True),
            'exists': existence_of_file._REL_OPTION_CONFIG,
            'contents': contents_of_file.ACTUAL_RELATIVITY_CONFIGURATION,
        })
        from exactly_lib.impls.types.string_source import defs as ss_defs
        from exactly_lib.tcfs.path_relativity import RelOptionType
        for post in (False, True):
            # the configuration `-contents-of` is parsed with (string_source.parse.default_parser_for)
            _REAL_CONF['contents-of-post' if post else 'contents-of-pre'] = \
                ss_defs.src_rel_opt_arg_conf_for_phase(post, RelOptionType.REL_HDS_CASE)
    return _REAL_CONF[name]


_DEF_CACHE = {}
_USE_CACHE = {}


def _fs_location_info(fx: Fixture):
    from exactly_lib.section_document.source_location import FileLocationInfo, FileSystemLocationInfo
    return FileSystemLocationInfo(FileLocationInfo(pathlib.Path(fx.here), pathlib.Path('t.case'), ()))


def real_parse_def(line: str, fx: Fixture):
    """`def ...` through the parser of the default instruction set of [setup] -> instruction | None (syntax error)"""
    key = (line, fx.here)
    if key not in _DEF_CACHE:
        from exactly_lib.cli_default.program_modes.test_case import default_instructions_setup as dis
        from exactly_lib.section_document.parse_source import ParseSource
        from exactly_lib.section_document.element_parsers.instruction_parser_exceptions import \
            SingleInstructionInvalidArgumentException
        assert line.startswith('def ')
        src = ParseSource(line)
        src.consume_part_of_current_line(4)
        try:
            ins = dis.INSTRUCTIONS_SETUP.setup_instruction_set['def'].parse(_fs_location_info(fx), src)
            if not src.is_at_eof:
                raise ValueError('harness: def parser left %r' % src.remaining_source)
        except SingleInstructionInvalidArgumentException:
            ins = None
        _DEF_CACHE[key] = ins
    return _DEF_CACHE[key]


def real_parse_use(conf_name: str, text: str, fx: Fixture):
    """PATH argument through parse_path with the real configuration -> PathSdv | None (syntax error)"""
    key = (conf_name, text, fx.here)
    if key not in _USE_CACHE:
        from exactly_lib.impls.types.path import parse_path
        from exactly_lib.section_document.element_parsers.token_stream_parser import new_token_parser
        from exactly_lib.section_document.element_parsers.instruction_parser_exceptions import \
            SingleInstructionInvalidArgumentException
        tp = new_token_parser(text)
        try:
            sdv = parse_path.parse_path(tp.token_stream, real_conf(conf_name),
                                        pathlib.Path(fx.here) if conf_name == 'def-path' else None)
            if tp.token_stream.remaining_source.strip() != '':
                raise ValueError('harness: path parser left %r of %r' % (tp.token_stream.remaining_source, text))
        except SingleInstructionInvalidArgumentException:
            sdv = None
        _USE_CACHE[key] = sdv
    return _USE_CACHE[key]


def real_tcds(fx: Fixture):
    from exactly_lib.tcfs.hds import HomeDs
    from exactly_lib.tcfs.sds import SandboxDs
    from exactly_lib.tcfs.tcds import TestCaseDs
    return TestCaseDs(HomeDs(pathlib.Path(fx.home), pathlib.Path(fx.act_home)), SandboxDs(fx.sds_root))


def real_program(defs, use_conf_name: str, use_expr, fx: Fixture, before_use=None, tcds=None):
    """-> (index of first rejected line or None, (SYNTAX,) | (VALIDATION,) | ('ok', kind, value))
    Lines are validated the way the executor does: validate_symbol_usages on the usages of each
    instruction, in order, against one growing symbol table."""
    from exactly_lib.execution.impl.symbol_validation import validate_symbol_usages
    from exactly_lib.util.symbol_table import SymbolTable
    symbols = SymbolTable()
    for i, d in enumerate(defs):
        ins = real_parse_def(render_def(d), fx)
        if ins is None:
            return i, (SYNTAX,)
        if validate_symbol_usages(ins.symbol_usages(), symbols) is not None:
            return i, (VALIDATION,)
    sdv = real_parse_use(use_conf_name, render_expr(use_expr), fx)
    if sdv is None:
        return len(defs), (SYNTAX,)
    if validate_symbol_usages(sdv.references, symbols) is not None:
        return len(defs), (VALIDATION,)
    if before_use is not None:
        before_use()
    ddv = sdv.resolve(symbols)
    rel = ddv.relativity()
    kind = 'abs' if rel.is_absolute else _KIND_OF_REAL[rel.relativity_type.name]
    # one test case has ONE directory-structure object: callers that model several uses within a case pass the same `tcds`
    value = ddv.value_of_any_dependency(tcds if tcds is not None else real_tcds(fx))
    return None, ('ok', kind, str(value), ddv.path_suffix_str())


_KIND_OF_REAL = {'REL_CWD': 'cwd', 'REL_HDS_CASE': 'home', 'REL_HDS_ACT': 'act-home', 'REL_ACT': 'act',
                 'REL_TMP': 'tmp', 'REL_RESULT': 'result'}


# ----------------------------------------------------------------------------- the real thing (whole program)

class _Sink:
    """In-memory text file (write/flush); append-only."""

    def __init__(self):
        self.parts = []

    def write(self, s):
        self.parts.append(s)
        return len(s)

    def flush(self):
        pass

    def isatty(self):
        return False

    def value(self) -> str:
        return ''.join(self.parts)


class _SubprocessStub:
    """Stands in for the `subprocess` module at exactly_lib's process-starting sites.  Records every call,
    starts nothing, reports exit code 0."""
    import subprocess as _sp
    TimeoutExpired = _sp.TimeoutExpired
    DEVNULL = _sp.DEVNULL
    PIPE = _sp.PIPE
    STDOUT = _sp.STDOUT
    calls = []

    @classmethod
    def call(cls, *a, **k):
        cls.calls.append((os.getcwd(), a, k))
        return 0


HOME_FILES = (('home/existing.txt', 'e\n'), ('home/sub/inner.txt', 'i\n'), ('acthome/prog.txt', 'p\n'),
              ('here.txt', 'h\n'))


def snapshot(root: str):
    """every directory and file below root with the bytes of the files"""
    out = []
    for d, dirs, files in os.walk(root):
        dirs.sort()
        rel = os.path.relpath(d, root)
        out.append(('d', rel))
        for f in sorted(files):
            p = os.path.join(d, f)
            with open(p, 'rb') as fh:
                out.append(('f', os.path.join(rel, f), fh.read()))
    return out


class CliRun:
    pass


def _main_program(resolver):
    import io
    from exactly_lib.cli import main_program
    from exactly_lib.cli_default import default_main_program_setup as d
    return main_program.MainProgram(
        d.test_case_handling_setup.setup(), resolver,
        d.TestCaseDefinitionForMainProgram(
            d.TestCaseParsingSetup(d.instruction_name_and_argument_splitter.splitter,
                                   d.default_instructions_setup.INSTRUCTIONS_SETUP, d.ActPhaseParser()),
            d.builtin_symbols.ALL),
        d.test_suite.test_suite_definition(), io.DEFAULT_BUFFER_SIZE)


def run_cli(make_text, inspect=None) -> CliRun:
    """Runs the REAL main program in process, with --keep, on a test-case file in a fresh directory
        <work>/case/{t.case, here.txt, home/..., acthome/...}
    `make_text(fx)` gets the Fixture (home, act-home, location of the source file; sds_root is filled in when
    the sandbox is created) and returns the text of the case.  `inspect(run, fx)` is called after the run,
    while the kept sandbox still exists.  Everything is removed afterwards."""
    from vsym import scratch
    from exactly_lib.util.file_utils.std import StdOutputFiles
    from exactly_lib.util.process_execution import process_executor
    from exactly_lib.processing import preprocessor
    process_executor.subprocess = _SubprocessStub
    preprocessor.subprocess = _SubprocessStub
    work = scratch.new_dir('c12')
    case_dir = os.path.join(work, 'case')
    os.mkdir(case_dir)
    for rel, contents in HOME_FILES:
        p = os.path.join(case_dir, rel)
        os.makedirs(os.path.dirname(p), exist_ok=True)
        with open(p, 'w') as f:
            f.write(contents)
    fx = Fixture(case_dir + '/home', case_dir + '/acthome', None, case_dir)
    text = make_text(fx)
    path = os.path.join(case_dir, 't.case')
    with open(path, 'w') as f:
        f.write(text)
    roots = []

    def resolver() -> str:
        p = os.path.join(work, 'sandbox-%d' % (len(roots) + 1))
        os.mkdir(p)
        roots.append(p)
        return p

    run = CliRun()
    run.text = text
    out, err = _Sink(), _Sink()
    _SubprocessStub.calls = []
    cwd = os.getcwd()
    before = snapshot(case_dir)
    run.exc = None
    try:
        run.rc = _main_program(resolver).execute(['--keep', path], StdOutputFiles(out, err))
    except Exception as e:  # noqa
        run.rc, run.exc = None, e
    os.chdir(cwd)
    run.stdout, run.stderr = out.value(), err.value()
    run.ident = run.stderr.split('\n')[0]  # with --keep: stdout = sandbox directory, stderr = exit identifier + message
    run.case_dir_changed = snapshot(case_dir) != before
    run.process_starts = len(_SubprocessStub.calls)
    run.cwd_of_process_starts = [c[0] for c in _SubprocessStub.calls]
    run.sandboxes = list(roots)
    run.work = work
    if roots:
        fx.sds_root = roots[0]
    if inspect is not None:
        inspect(run, fx)
    scratch.remove(work)
    return run


def sandbox_entries(sds_root: str):
    """all files and directories created by the test case: everything below act/ and tmp/ (relative to the sandbox root)"""
    out = []
    for top in ('act', 'tmp'):
        for d, dirs, files in os.walk(os.path.join(sds_root, top)):
            dirs.sort()
            for n in sorted(dirs) + sorted(files):
                out.append(os.path.relpath(os.path.join(d, n), sds_root))
    return sorted(out)


# ----------------------------------------------------------------------------- whole-program cases

PHASES = ('setup', 'before-assert', 'assert', 'cleanup')
FORMS = ('file=', 'file', 'file+=', 'dir', 'copy')
FORM_CONF = {'file=': 'file-dst', 'file': 'file-dst', 'file+=': 'file-dst', 'dir': 'dir-dst', 'copy': 'copy-dst'}


def form_lines(form: str, dst: str) -> List[str]:
    if form == 'file=':
        return ["file %s = 'c'" % dst]
    if form == 'file':
        return ['file %s' % dst]
    if form == 'file+=':
        return ["file %s = 'c'" % dst, "file %s += 'd'" % dst]
    if form == 'dir':
        return ['dir %s' % dst]
    if form == 'copy':
        return ['copy -rel-home existing.txt %s' % dst]
    raise ValueError(form)


FORM_CONTENTS = {'file=': b'c', 'file': b'', 'file+=': b'cd', 'dir': None, 'copy': b'e\n'}


def case_text(sections: Dict[str, Sequence[str]]) -> str:
    out = ['[conf]', 'home = home', 'act-home = acthome', '']
    for ph in ('setup', 'act', 'before-assert', 'assert', 'cleanup'):
        lines = list(sections.get(ph, ()))
        if ph == 'act' and not lines:
            lines = ['$ true']
        out.append('[%s]' % ph)
        out.extend(lines)
        out.append('')
    return '\n'.join(out) + '\n'


def created_as_expected(fx: Fixture, target: str, form: str, extra_dirs: Sequence[str] = ()) -> bool:
    """the sandbox holds, below act/ and tmp/, exactly `target` (with the contents the instruction form gives it),
    its ancestors, and the directories the case itself made beforehand (`extra_dirs`, relative to the sandbox root)"""
    root = fx.sds_root
    t = norm(target)
    if not (t.startswith(root + '/act/') or t.startswith(root + '/tmp/')):
        return False
    rel = t[len(root) + 1:]
    parts = rel.split('/')
    want = set('/'.join(parts[:i]) for i in range(2, len(parts) + 1))
    for d in extra_dirs:
        ps = d.split('/')
        want |= set('/'.join(ps[:i]) for i in range(2, len(ps) + 1))
    if sandbox_entries(root) != sorted(want):
        return False
    return target_ok(t, form)


def target_ok(t: str, form: str) -> bool:
    """`t` is what the instruction form makes: an empty directory / a regular file with the contents of the form"""
    contents = FORM_CONTENTS[form]
    if contents is None:
        return os.path.isdir(t) and not os.listdir(t)
    if not os.path.isfile(t):
        return False
    with open(t, 'rb') as f:
        return f.read() == contents


def rejected_without_effects(run: CliRun, idents) -> bool:
    return (run.exc is None and run.rc == 65 and run.ident in idents and not run.sandboxes
            and run.process_starts == 0 and not run.case_dir_changed)
