"""Scenario language and REFERENCE DENOTATION of the C10 harness.

A scenario is structured data from which two things are derived independently:

  * the test-case / program TEXT that is handed to exactly_lib's real parsers, and
  * what the reference manual says that text denotes: the argument vector (or the one
    shell string), the stdin text, the cwd, the transformations, the processes started
    and their order.

The denotation is written from the manual's description of PROGRAM, PROGRAM-ARGUMENT,
STRING, LIST, symbol references, `-stdin`, `-transformed-by`, the actors and the `run`, `$`,
`%` instructions - not from exactly_lib's code.

Values are sequences of parts so that they can be evaluated with symbolic strings:
    ('c', text)   the literal text
    ('s', i)      the value of the string symbol S<i>  (symbolic)
    ('act',)      absolute path of the sandbox act/ directory
    ('hds',)      absolute path of the home directory
    ('py',)       sys.executable
"""
import sys
from typing import Callable, Dict, List, Optional, Sequence, Tuple


def C(text: str):
    return ('c', text)


def S(i: int):
    return ('s', i)


ACT = ('act',)
HDS = ('hds',)
PY = ('py',)


class Env:
    def __init__(self, s: Sequence[str], act: str = '/ACT', hds: str = '/HDS'):
        self.s, self.act, self.hds = list(s), act, hds


def ev(parts, env: Env) -> str:
    out = ''
    for p in parts:
        k = p[0]
        if k == 'c':
            out = out + p[1]
        elif k == 's':
            out = out + env.s[p[1]]
        elif k == 'act':
            out = out + env.act
        elif k == 'hds':
            out = out + env.hds
        elif k == 'py':
            out = out + sys.executable
        else:
            raise ValueError(p)
    return out


# ----------------------------------------------------------------------------- PROGRAM-ARGUMENT atoms
# (source text, [value, ...])   one source element may denote several arguments (list reference)

# the symbols every scenario may reference:  S0 S1 S2 S3 strings (S0, S1: symbolic values, used in arguments and
#   command lines; S2, S3: used in stdin texts - symbolic in K2, catalogue values where the text crosses the file layer),
#   L = list  [S0, 'l 2', S1]        defined by   def list L = @[S0]@ 'l 2' @[S1]@
#   P = path  act/pfile              defined by   def path P = -rel-act pfile
#   E = list  []                     defined by   def list E =
DEF_L = "def list L = @[S0]@ 'l 2' @[S1]@"
DEF_P = 'def path P = -rel-act pfile'
DEF_E = 'def list E ='
L_VALUE = [[S(0)], [C('l 2')], [S(1)]]

A = {
    'plain': ('a', [[C('a')]]),
    'plain2': ('b2', [[C('b2')]]),
    'empty-sq': ("''", [[C('')]]),
    'empty-dq': ('""', [[C('')]]),
    'spaces': ("'a  b '", [[C('a  b ')]]),
    'sq-in-dq': ('"it\'s"', [[C("it's")]]),
    'dq-in-sq': ('\'say "hi"\'', [[C('say "hi"')]]),
    'option': ('-opt', [[C('-opt')]]),
    'long-option': ('--long=v', [[C('--long=v')]]),
    'stdin-like': ("'-stdin'", [[C('-stdin')]]),
    'reserved-colon': ("':'", [[C(':')]]),
    'reserved-paren': ('"("', [[C('(')]]),
    'reserved-and': ("'&&'", [[C('&&')]]),
    'equals-sign': ("'='", [[C('=')]]),
    'glob': ("'*.txt'", [[C('*.txt')]]),
    'dollar': ("'$HOME'", [[C('$HOME')]]),
    'sym': ('@[S0]@', [[S(0)]]),
    'sym1': ('@[S1]@', [[S(1)]]),
    'sym2': ('@[S2]@', [[S(2)]]),
    'sym-in-dq': ('"@[S0]@ @[S1]@"', [[S(0), C(' '), S(1)]]),
    'sym-concat': ('x@[S0]@y', [[C('x'), S(0), C('y')]]),
    'sym-twice': ('@[S1]@@[S1]@', [[S(1), S(1)]]),
    'sym-hard-quoted': ("'@[S0]@'", [[C('@[S0]@')]]),
    'symbol-name-only': ('S0', [[C('S0')]]),
    'list': ('@[L]@', L_VALUE),
    'list-in-dq': ('"@[L]@"', [[S(0), C(' l 2 '), S(1)]]),
    'list-concat': ('<@[L]@>', [[C('<'), S(0), C(' l 2 '), S(1), C('>')]]),
    'empty-list': ('@[E]@', []),
    'path': ('@[P]@', [[ACT, C('/pfile')]]),
    'path-in-dq': ('"p=@[P]@"', [[C('p='), ACT, C('/pfile')]]),
    'existing-file': ('-existing-file -rel-home f.txt', [[HDS, C('/f.txt')]]),
    'existing-dir': ('-existing-dir -rel-act .', [[ACT]]),
    'existing-path': ('-existing-path -rel-home f.txt', [[HDS, C('/f.txt')]]),
    # must be the last element of its line:
    'rest': (":> rest  of 'the' \"line\" @[S1]@ -x", [[C('rest  of \'the\' "line" '), S(1), C(' -x')]]),
}


def atom(n):
    """an argument atom: a name in A, or the pair (source text, [value, ...]) itself"""
    return A[n] if isinstance(n, str) else n


def arg_text(names: Sequence) -> str:
    return ' '.join(atom(n)[0] for n in names)


def arg_values(names: Sequence) -> list:
    out = []
    for n in names:
        out += atom(n)[1]
    return out


# ----------------------------------------------------------------------------- quoted option-like and reserved words
# "Quoting is how a word that has a meaning in the syntax is given as a plain string": a token written inside soft
# ("...") or hard ('...') quotes denotes the characters between the quotes (none of the words below contains a quote
# character, a backslash or a symbol reference) - whatever the word would mean unquoted.
QUOTED_WORD_GROUPS = (
    ('options of PROGRAM-ARGUMENT', ('-existing-file', '-existing-dir', '-existing-path')),
    ('options of PROGRAM, TEXT-SOURCE and of the instructions that take a PROGRAM',
     ('-python', '-stdin', '-transformed-by', '-ignore-exit-code', '-contents-of', '-stdout-from', '-stderr-from',
      '-from', '-of')),
    ('relativity options of PATH',
     ('-rel-home', '-rel-act-home', '-rel-act', '-rel-tmp', '-rel-result', '-rel-cd', '-rel-here', '-rel')),
    ('markers and program tokens', (':>', '<<EOF', '<<', '%', '$', '@', '#')),
    ('reserved words', ('(', ')', '[', ']', '{', '}', '=', '|', ':', '!', '&&', '||')),
)
QUOTED_WORDS = tuple(w for _g, ws in QUOTED_WORD_GROUPS for w in ws)
QUOTES = ("'", '"')  # hard, soft


def quoted(word: str, quote: str) -> str:
    """the source text of `word` written inside quotes"""
    assert quote in QUOTES and not any(c in word for c in ('"', "'", '\\', '@[')), word
    return quote + word + quote


def quoted_atom(word: str, quote: str):
    """PROGRAM-ARGUMENT: the quoted word denotes ONE argument, the word"""
    return (quoted(word, quote), [[C(word)]])


def quoted_text_source(word: str, quote: str):
    """TEXT-SOURCE (as the -stdin of a PROGRAM, or of `stdin = `): the quoted word denotes the text that is the word"""
    return (quoted(word, quote), [C(word)], None)


def generator_with_args(channel: str, args: Sequence):
    """TEXT-SOURCE `-stdout-from % gen ARGS` / `-stderr-from % gen ARGS`: the output of a program (ends the line)"""
    assert channel in ('stdout', 'stderr')
    return ('-%s-from %% gen %s' % (channel, arg_text(args)), [C(GEN_OUT if channel == 'stdout' else GEN_ERR)],
            ([[C('gen')]] + arg_values(args), None))


# ----------------------------------------------------------------------------- text sources (stdin)
# name -> (source text (may span lines), value parts, None or (argv values, stdin value or None) of the program that
#          generates the text)
GEN_OUT = 'generated line 1\ngenerated 2'
FILE_TXT = 'contents of f.txt\nline 2\n'

def text_source(t):
    """a text source: a name in T, or the triple (source text, value, generator or None) itself"""
    return T[t] if isinstance(t, str) else t


T = {
    'string': ('"text of @[S2]@ stdin"', [C('text of '), S(2), C(' stdin')], None),
    'string-sq': ("'hard @[S2]@\\n'", [C('hard @[S2]@\\n')], None),
    'empty': ("''", [C('')], None),
    'sym': ('@[S2]@', [S(2)], None),
    'sym3': ('@[S3]@', [S(3)], None),
    'here-doc': ('<<EOF\nfirst line\n  second @[S3]@ line\nEOF', [C('first line\n  second '), S(3), C(' line\n')], None),
    'file': ('-contents-of -rel-home f.txt', [C(FILE_TXT)], None),
    'program': ('-stdout-from % gen g1 @[S0]@', [C(GEN_OUT)], ([[C('gen')], [C('g1')], [S(0)]], None)),
    # G is defined by DEF_G: a program with arguments and a stdin of its own
    'program-w-stdin': ('-stdout-from @ G @[S1]@', [C(GEN_OUT)],
                        ([[C('gen')], [C('g0')], [S(0)], [S(1)]], [C('stdin of the generator\n')])),
}
DEF_G = 'def program G = % gen g0 @[S0]@\n    -stdin <<EOF\nstdin of the generator\nEOF'
GEN_ERR = 'generated on stderr\n'

# programs used as text sources: {stdout, stderr} x {exit code relevant, ignored} x {-stdin given directly,
# accumulated through the program symbol G and the reference to it}.  These texts end with a -stdin line of the
# generator: they are used as the whole TEXT-SOURCE of an instruction (`stdin = ...`, `file F = ...`), not nested
# in the -stdin of another program.
PROGRAM_MATRIX = []
for _ch in ('stdout', 'stderr'):
    for _ign in (False, True):
        for _how in ('direct', 'symbol'):
            _name = 'pgm-%s%s-%s' % (_ch, '-ign' if _ign else '', _how)
            _opt = '-%s-from%s' % (_ch, ' -ignore-exit-code' if _ign else '')
            if _how == 'direct':
                _text = _opt + ' % gen d1 @[S0]@\n        -stdin "direct stdin of the generator"'
                _gen = ([[C('gen')], [C('d1')], [S(0)]], [C('direct stdin of the generator')])
            else:
                _text = _opt + ' @ G @[S1]@\n        -stdin " + more from the reference"'
                _gen = ([[C('gen')], [C('g0')], [S(0)], [S(1)]],
                        [C('stdin of the generator\n + more from the reference')])
            T[_name] = (_text, [C(GEN_OUT if _ch == 'stdout' else GEN_ERR)], _gen + ('gen-ign' if _ign else 'gen',))
            PROGRAM_MATRIX.append(_name)
# text sources that may also be nested as the -stdin of a program
NESTABLE_TEXT_SOURCES = tuple(n for n in T if n not in PROGRAM_MATRIX)
STANDARD_TEXT_SOURCES = tuple(T)  # what the "one scenario per kind of text source" loops iterate over

# the output of a program as ONE PART of a multi-part stdin (single-line, hence nestable): the four implementations
# that run the program of a program-output text source
GENERATOR_VARIANTS = ('program', 'program-stderr', 'program-stdout-ign', 'program-stderr-ign')
T['program-stderr'] = ('-stderr-from % gen g1 @[S0]@', [C(GEN_ERR)], ([[C('gen')], [C('g1')], [S(0)]], None))
T['program-stdout-ign'] = ('-stdout-from -ignore-exit-code % gen g1 @[S0]@', [C(GEN_OUT)],
                           ([[C('gen')], [C('g1')], [S(0)]], None, 'gen-ign'))
T['program-stderr-ign'] = ('-stderr-from -ignore-exit-code % gen g1 @[S0]@', [C(GEN_ERR)],
                           ([[C('gen')], [C('g1')], [S(0)]], None, 'gen-ign'))


# ----------------------------------------------------------------------------- what a child may write: BYTES
# A process writes bytes to its stdout / stderr; nothing obliges them to be the UTF-8 encoding of a text.
# (description, bytes).  The classes of byte sequences that are NOT valid UTF-8 (RFC 3629), and - as controls - valid
# ones that are not plain ASCII text.
RAW_OUTPUTS = (
    ('not UTF-8: a byte that cannot start a sequence (0xff 0xfe)', b'\xff\xfe bad\n'),
    ('not UTF-8: a continuation byte without a start byte', b'a\x80b\n'),
    ('not UTF-8: a sequence truncated by the end of the output', b'abc\xe2\x82'),
    ('not UTF-8: an overlong encoding', b'\xc0\xaf\n'),
    ('not UTF-8: an encoded surrogate', b'x\xed\xa0\x80\n'),
    ('not UTF-8: beyond U+10FFFF', b'\xf4\x90\x80\x80\n'),
    ('not UTF-8: latin-1 text', 'caf\xe9 au lait\n'.encode('latin-1')),
    ('valid UTF-8: multi-byte characters', 'caf\xe9 \u20ac \U0001f600\n'.encode('utf-8')),
    ('valid UTF-8: control characters', b'a\x00\x01\x1b[0m\r\n'),
    # ... and the outputs that are (nearly) NOTHING: a program that fails need not say anything on stderr (`exit 3`,
    # `test -f F`, `grep -q`, `false`); the exit code alone decides, what is written is only shown in the message
    ('nothing: the empty output', b''),
    ('white space only: one new-line', b'\n'),
    ('white space only: spaces, a tab, no new-line at the end', b'  \t '),
    ('white space only: blank lines', b' \n\r\n\n'),
)

# the outputs that say nothing: empty or white space only
QUIET_OUTPUTS = tuple(_b for _d, _b in RAW_OUTPUTS if not _b.strip())


def is_utf8(data: bytes) -> bool:
    try:
        data.decode('utf-8')
        return True
    except UnicodeDecodeError:
        return False


def here_doc(lines: Sequence[str]) -> Tuple[str, list]:
    """(source text, value) of a here-document with the given body lines: the value is the lines, each terminated
    by a new-line, exactly as written (symbol references substituted)"""
    return '<<EOF\n' + ''.join(l + '\n' for l in lines) + 'EOF', ''.join(l + '\n' for l in lines)
# sources whose value can be taken without a file system / a process (kernel K2)
PURE_TEXT_SOURCES = ('string', 'string-sq', 'empty', 'sym', 'sym3', 'here-doc')

# ----------------------------------------------------------------------------- transformers
# name -> (source text, python function)
X = {
    'upper': ('char-case -to-upper', lambda s: s.upper()),
    'replace': ('replace OUT x', lambda s: s.replace('OUT', 'x')),
    'strip': ('strip', lambda s: s.strip()),
    'identity': ('identity', lambda s: s),
}


# ----------------------------------------------------------------------------- PROGRAM

class Pgm:
    """One PROGRAM as written in a test case."""

    def __init__(self, kind: str, head: str = '', args: Sequence[str] = (), stdin: Optional[str] = None,
                 trans: Optional[str] = None, parens: bool = False, continuation: bool = False,
                 head_value=None):
        assert kind in ('sys', 'file', 'python', 'shell', 'ref')
        self.kind, self.head, self.args = kind, head, tuple(args)
        self.stdin, self.trans, self.parens, self.continuation = stdin, trans, parens, continuation
        self.head_value = head_value  # shell / sys: value parts of the command line / program name (default: literal head)

    def text(self) -> str:
        first = {'sys': '% ' + self.head, 'file': self.head, 'python': '-python',
                 'shell': '$ ' + self.head, 'ref': '@ ' + self.head}[self.kind]
        if self.args:
            assert self.kind != 'shell'
            if self.continuation and len(self.args) >= 2:
                first += ' ' + arg_text(self.args[:1]) + ' \\\n      ' + arg_text(self.args[1:])
            else:
                first += ' ' + arg_text(self.args)
        lines = [first]
        if self.stdin is not None:
            src = text_source(self.stdin)[0]
            if self.trans is not None:
                # TEXT-SOURCE itself may end with `-transformed-by`: an output transformation of the PROGRAM that
                # follows an unparenthesized -stdin would be read as part of the TEXT-SOURCE
                src = '( ' + src + ('\n    )' if src.endswith('EOF') else ' )')
            lines.append('    -stdin ' + src)
        if self.trans is not None:
            lines.append('    -transformed-by ' + X[self.trans][0])
        s = '\n'.join(lines)
        if self.parens:
            s = '( ' + s + ' )'
        return s


class Den:
    """What a PROGRAM denotes."""

    def __init__(self, shell: bool, argv: list, stdin: list, trans: list, gens: list):
        self.shell = shell
        self.argv = argv  # list of values (value = list of parts); argv[0] = program / shell command line
        self.stdin = stdin  # list of values, in order
        self.trans = trans  # list of names in X, in order of application
        self.gens = gens  # processes that must have run to produce stdin: [(argv values, stdin value or None)], in order


def denote(p: Pgm, defs: Dict[str, Pgm]) -> Den:
    if p.kind == 'ref':
        b = denote(defs[p.head], defs)
        d = Den(b.shell, list(b.argv), list(b.stdin), list(b.trans), list(b.gens))
    elif p.kind == 'sys':
        d = Den(False, [p.head_value if p.head_value is not None else [C(p.head)]], [], [], [])
    elif p.kind == 'file':
        d = Den(False, [[HDS, C('/' + p.head)]], [], [], [])
    elif p.kind == 'python':
        d = Den(False, [[PY]], [], [], [])
    else:
        d = Den(True, [p.head_value if p.head_value is not None else [C(p.head)]], [], [], [])
    d.argv += arg_values(p.args)
    if p.stdin is not None:
        d.stdin.append(text_source(p.stdin)[1])
        if text_source(p.stdin)[2] is not None:
            d.gens.append(text_source(p.stdin)[2])
    if p.trans is not None:
        d.trans.append(p.trans)
    return d


def argv_of(d: Den, env: Env):
    """What subprocess.call must be given as `args`: a list, or - for a shell command - ONE
    string: the command line followed by the accumulated arguments, separated by single spaces."""
    vals = [ev(v, env) for v in d.argv]
    if d.shell:
        return ' '.join(vals)
    return vals


def transformed(d: Den, out: str) -> str:
    for name in d.trans:
        out = X[name][1](out)
    return out


# ----------------------------------------------------------------------------- expected processes

class Proc:
    """A process that must be started: what it must be given; `role` tells the stand-in
    child how to behave."""

    def __init__(self, role: str, shell: bool, args, stdin: Optional[str], cwd: Optional[str]):
        self.role, self.shell, self.args, self.stdin, self.cwd = role, shell, args, stdin, cwd

    def __repr__(self):
        return 'Proc(%s, shell=%r, args=%r, stdin=%r, cwd=%r)' % (self.role, self.shell, self.args, self.stdin, self.cwd)


def gen_proc(g, env: Env, cwd) -> Proc:
    """the process of a program used as text source; g = (argv values, stdin value or None[, role])"""
    g_argv, g_stdin = g[0], g[1]
    role = g[2] if len(g) > 2 else 'gen'
    return Proc(role, False, [ev(v, env) for v in g_argv], None if g_stdin is None else ev(g_stdin, env), cwd)


def procs_of(d: Den, role: str, env: Env, extra_stdin: Sequence = (), extra_gens: Sequence = (), cwd=None,
             extra_first: bool = False) -> List[Proc]:
    """The processes started for one execution of a program with denotation d: first the
    programs that generate parts of its stdin (their output is needed before it starts), then
    the program itself.  stdin = the program's own parts in order, then `extra_stdin`
    (the [setup] stdin, for the action to check); None when there is no part at all."""
    out = []
    for g in list(d.gens) + list(extra_gens):
        out.append(gen_proc(g, env, cwd))
    parts = (list(extra_stdin) + list(d.stdin)) if extra_first else (list(d.stdin) + list(extra_stdin))
    stdin = None if not parts else ''.join(ev(v, env) for v in parts)
    out.append(Proc(role, d.shell, argv_of(d, env), stdin, cwd))
    return out
