"""Helpers of harness/C08.py: drivers of the REAL code and the reference model of def/reference programs.

Real side (nothing modelled): the real test-case parser (`test_case_parser.new_parser` with the default
instruction set and act-phase parser), the real default actor, the real
`partial_execution.impl.executor.parse_atc_and_validate_symbols` (the function the executor itself calls
first: `SymbolsValidator.validate` walking the phases over one growing symbol table), the builtin symbols
the main program predefines, the real executor (`vsym.exeharness`) and the real `MainProgram.execute`.

Reference side (`Model`, `check_ref`, ...): a def/reference interpreter written from the manual; it knows
nothing of exactly_lib's classes.
"""
import os
import pathlib
from typing import Dict, List, Optional, Sequence, Tuple

# ============================================================================ reference model

W_STR = ('string', 'list', 'path')

ALL_REL = frozenset(['act', 'cwd', 'hds-act', 'hds-case', 'result', 'tmp', 'abs'])
REL_WRITE = frozenset(['act', 'cwd', 'tmp'])  # destination of file / dir: inside the sandbox, never the result dir
REL_CD = frozenset(['act', 'cwd', 'tmp', 'abs'])
REL_READ = ALL_REL - frozenset(['result'])  # files read before the act phase has run: everything but the result dir

# restrictions of a reference context
ANY = ('any',)  # string | list | path
STR = ('str',)  # a string built from strings only
TEXT = ('type', ('text-source', 'string'))


def PATHSTR(rels):  # a path whose relativity is one of rels, or a string built from strings only
    return ('pathstr', rels)


def PATH(rels):  # a path whose relativity is one of rels
    return ('path', rels)


def TYPE(*types):
    return ('type', tuple(types))


BUILTINS = {
    # name: (type, relativity of a path, value of a string)
    'TAB': ('string', None, '\t'),
    'NEW_LINE': ('string', None, '\n'),
    'OS_LINE_SEP': ('string', None, os.linesep),
    'OS_PATH_SEP': ('string', None, os.pathsep),
    'EXACTLY_HOME': ('path', 'hds-case', None),
    'EXACTLY_ACT_HOME': ('path', 'hds-act', None),
    'EXACTLY_ACT': ('path', 'act', None),
    'EXACTLY_TMP': ('path', 'tmp', None),
    'EXACTLY_RESULT': ('path', 'result', None),
}


class Sym:
    """A defined symbol of the model."""

    def __init__(self, type_: str, refs: Sequence[str] = (), rel=None, value=None):
        self.type = type_
        self.refs = tuple(refs)  # names of the symbols the value is built from
        self.rel = rel  # path: a relativity name, or ('of', name) / ('of-or', name, default)
        self.value = value  # string: python str (when the harness tracks values), list: list of str


class Model:
    def __init__(self):
        self.table: Dict[str, Sym] = {n: Sym(t, (), rel, v) for n, (t, rel, v) in BUILTINS.items()}

    def rel_of(self, name: str) -> str:
        s = self.table[name]
        r = s.rel
        if isinstance(r, tuple):
            target = self.table[r[1]]
            if target.type == 'path':
                return self.rel_of(r[1])
            return r[2]  # a string used as a path: relative to the default of the context
        return r

    def all_strings(self, name: str) -> bool:
        for n in self.table[name].refs:
            if self.table[n].type != 'string' or not self.all_strings(n):
                return False
        return True

    def ref_ok(self, name: str, restriction) -> bool:
        """Is a reference to `name` in a context with `restriction` legal now?"""
        if name not in self.table:
            return False
        s = self.table[name]
        kind = restriction[0]
        if kind == 'any':
            return s.type in W_STR
        if kind == 'str':
            return s.type == 'string' and self.all_strings(name)
        if kind == 'pathstr':
            if s.type == 'path':
                return self.rel_of(name) in restriction[1]
            if s.type == 'string':
                return self.all_strings(name)
            return False
        if kind == 'path':
            return s.type == 'path' and self.rel_of(name) in restriction[1]
        if kind == 'type':
            return s.type in restriction[1]
        raise ValueError(restriction)

    def define(self, name: str, sym: Sym, refs_w_restrictions) -> bool:
        """A definition: the name must be new, every reference in the value legal; then the name exists."""
        if name in self.table:
            return False
        for n, r in refs_w_restrictions:
            if not self.ref_ok(n, r):
                return False
        self.table[name] = sym
        return True


def ref_split(s: str):
    """Reference reader of the documented reference syntax: `@[NAME]@` with NAME one or more alphanumerics or `_`;
    the text is read from the left, the leftmost complete reference first; everything else is literal.
    -> [(is_symbol, name or literal text)]"""
    out = []
    lit = ''
    i = 0
    n = len(s)
    while i < n:
        if s[i:i + 2] == '@[':
            j = i + 2
            while j < n and (s[j].isalnum() or s[j] == '_'):
                j += 1
            if j > i + 2 and s[j:j + 2] == ']@':
                if lit != '':
                    out.append((False, lit))
                    lit = ''
                out.append((True, s[i + 2:j]))
                i = j + 2
                continue
        lit = lit + s[i]
        i += 1
    if lit != '':
        out.append((False, lit))
    return out


EXE_ORDER = ('setup', 'act', 'before-assert', 'assert', 'cleanup')


def execution_order(phases: Sequence[str]) -> List[int]:
    """Indices of the statements in execution order: by phase; inside a phase by position in the sequence."""
    return sorted(range(len(phases)), key=lambda i: (EXE_ORDER.index(phases[i]), i))


# ============================================================================ real side

_P = {}


def parsing():
    """(test-case parser, file reference, actor name-and-value, predefined symbols) of the default main program."""
    if not _P:
        from exactly_lib.cli_default import default_main_program_setup as d
        from exactly_lib.processing.instruction_setup import TestCaseParsingSetup
        from exactly_lib.processing.parse import test_case_parser
        from exactly_lib.processing.test_case_processing import TestCaseFileReference
        from exactly_lib.util.symbol_table import SymbolTable
        ps = TestCaseParsingSetup(d.instruction_name_and_argument_splitter.splitter,
                                  d.default_instructions_setup.INSTRUCTIONS_SETUP, d.ActPhaseParser())
        _P['parser'] = test_case_parser.new_parser(ps)
        _P['ref'] = TestCaseFileReference(pathlib.Path('/vsym-c08/case/t.case'), pathlib.Path('/vsym-c08/case'))
        _P['actor'] = d.test_case_handling_setup.setup().act_phase_setup.actor_nav
        _P['builtins'] = lambda: SymbolTable({bs.name: bs.container for bs in d.builtin_symbols.ALL})
    return _P


_DOC_CACHE: Dict[str, object] = {}


def parse_case(text: str):
    """The REAL test-case parser on concrete text (cached per text: the document is immutable)."""
    if text not in _DOC_CACHE:
        from exactly_lib.section_document.parse_source import ParseSource
        p = parsing()
        _DOC_CACHE[text] = p['parser'].apply(p['ref'], ParseSource(text))
    return _DOC_CACHE[text]


_ELEM_CACHE: Dict[Tuple[str, str], tuple] = {}
_PHASE_ATTR = {'setup': 'setup_phase', 'act': 'act_phase', 'before-assert': 'before_assert_phase',
               'assert': 'assert_phase', 'cleanup': 'cleanup_phase'}


def elements_of(phase: str, line: str) -> tuple:
    """The section-content elements the REAL parser produces for `line` in `phase` (cached per (phase, line):
    instruction objects are immutable as far as symbol usages are concerned)."""
    key = (phase, line)
    if key not in _ELEM_CACHE:
        tc = parse_case('[%s]\n%s\n' % (phase, line))
        _ELEM_CACHE[key] = tuple(getattr(tc, _PHASE_ATTR[phase]).elements)
    return _ELEM_CACHE[key]


def assemble(statements: Sequence[Tuple[str, str]]):
    """A TestCase whose phases hold the really-parsed elements of the statements (phase, line), each phase in
    the order of the sequence.  Equals what the real parser gives for the whole text, except for line numbers
    (compared by selftest)."""
    from exactly_lib.section_document.model import SectionContents
    from exactly_lib.test_case import test_case_doc
    per = {ph: [] for ph in EXE_ORDER}
    for ph, line in statements:
        per[ph].extend(elements_of(ph, line))
    return test_case_doc.TestCase(SectionContents(()), *[SectionContents(tuple(per[ph])) for ph in EXE_ORDER])


_ATC_CACHE: Dict[tuple, object] = {}


def caching_actor():
    """The real default actor behind a cache keyed on the act-phase source lines (its parse is a pure function)."""
    if 'caching_actor' not in _P:
        from exactly_lib.test_case.phases.act.actor import Actor
        from exactly_lib.util.name_and_value import NameAndValue
        real = parsing()['actor']

        class CachingActor(Actor):
            def parse(self, instructions):
                key = tuple(tuple(i.source_code().lines) for i in instructions)
                if key not in _ATC_CACHE:
                    _ATC_CACHE[key] = real.value.parse(instructions)
                return _ATC_CACHE[key]

        _P['caching_actor'] = NameAndValue(real.name, CachingActor())
    return _P['caching_actor']


VALUE_TYPE_NAME = {
    'STRING': 'string', 'LIST': 'list', 'PATH': 'path', 'INTEGER_MATCHER': 'integer-matcher',
    'LINE_MATCHER': 'line-matcher', 'FILE_MATCHER': 'file-matcher', 'FILES_MATCHER': 'files-matcher',
    'FILES_CONDITION': 'files-condition', 'FILES_SOURCE': 'files-source', 'STRING_SOURCE': 'text-source',
    'STRING_MATCHER': 'text-matcher', 'STRING_TRANSFORMER': 'text-transformer', 'PROGRAM': 'program',
}


def validate(text_or_statements, predefined=None):
    """Parses the text (or assembles the statements) and runs the REAL symbol validation of the executor on it.
    -> ('OK', symbol table) | (status name, phase identifier of the failing step)"""
    from exactly_lib.execution.partial_execution.impl import executor as pex
    from exactly_lib.execution.result import PhaseStepFailureException
    p = parsing()
    if isinstance(text_or_statements, str):
        tc = parse_case(text_or_statements)
        actor = p['actor']
    else:
        tc = assemble(text_or_statements)
        actor = caching_actor()
    if predefined is None:
        predefined = p['builtins']()
    try:
        _atc, symbols = pex.parse_atc_and_validate_symbols(actor, predefined, tc)
    except PhaseStepFailureException as ex:
        f = ex.failure
        return f.status.name, f.failure_info.phase_step.phase.identifier
    return 'OK', symbols


def types_of(symbols) -> Dict[str, str]:
    return {n: VALUE_TYPE_NAME[symbols.lookup(n).value_type.name] for n in sorted(symbols.names_set)}


def string_value(symbols, name: str) -> str:
    return symbols.lookup(name).sdv.resolve(symbols).value_when_no_dir_dependencies()


# ---------------------------------------------------------------------------- whole program (copy of C03.run_cli, recording)

FAILING_PROGRAM = 'vsym-failing-program'  # the stub process with this name exits with code 1, every other with 0


class SubprocessStub:
    """Stands in for the `subprocess` module at exactly_lib's process-starting sites.
    Records every call (argv / command line, shell flag, cwd) and starts nothing; no output; exit code 0, except
    for the program named FAILING_PROGRAM: 1."""
    import subprocess as _sp
    TimeoutExpired = _sp.TimeoutExpired
    DEVNULL = _sp.DEVNULL
    PIPE = _sp.PIPE
    STDOUT = _sp.STDOUT
    calls: List = []

    @classmethod
    def call(cls, *a, **k):
        cmd = a[0] if a else k.get('args')
        cls.calls.append((cmd, bool(k.get('shell')), os.getcwd()))
        program = cmd if isinstance(cmd, str) else (cmd[0] if cmd else '')
        return 1 if FAILING_PROGRAM in program else 0


class Sink:
    def __init__(self):
        self.parts = []

    def write(self, s):
        self.parts.append(s)
        return len(s)

    def flush(self):
        pass

    def value(self) -> str:
        return ''.join(self.parts)


def run_cli(text: str, options: Sequence[str] = (), files: Optional[Dict[str, str]] = None, stub=None):
    """Runs the REAL main program in process on a test-case file holding `text` (command line: options + [FILE]).
    `files`: further files {name: contents} in the directory of the test-case file (= home and act-home directory);
    `stub`: the stand-in for the subprocess module (default: SubprocessStub)."""
    import io
    from vsym import scratch
    from exactly_lib.cli import main_program
    from exactly_lib.cli_default import default_main_program_setup as d
    from exactly_lib.util.file_utils.std import StdOutputFiles
    from exactly_lib.util.process_execution import process_executor
    from exactly_lib.processing import preprocessor
    stub = SubprocessStub if stub is None else stub
    process_executor.subprocess = stub
    preprocessor.subprocess = stub
    work = scratch.new_dir('c08')
    case_dir = os.path.join(work, 'case')
    os.mkdir(case_dir)
    path = os.path.join(case_dir, 't.case')
    with open(path, 'w') as f:
        f.write(text)
    for name in sorted(files or ()):
        with open(os.path.join(case_dir, name), 'w') as f:
            f.write(files[name])
        os.chmod(os.path.join(case_dir, name), 0o755)  # usable as an executable file too
    roots = []

    def resolver() -> str:
        p = os.path.join(work, 'sandbox-%d' % (len(roots) + 1))
        os.mkdir(p)
        roots.append(p)
        return p

    mp = main_program.MainProgram(
        d.test_case_handling_setup.setup(), resolver,
        d.TestCaseDefinitionForMainProgram(
            d.TestCaseParsingSetup(d.instruction_name_and_argument_splitter.splitter,
                                   d.default_instructions_setup.INSTRUCTIONS_SETUP, d.ActPhaseParser()),
            d.builtin_symbols.ALL),
        d.test_suite.test_suite_definition(), io.DEFAULT_BUFFER_SIZE)
    out, err = Sink(), Sink()
    stub.calls = []
    cwd = os.getcwd()
    exc = None
    try:
        rc = mp.execute(list(options) + [path], StdOutputFiles(out, err))
    except Exception as e:  # noqa
        rc, exc = None, e
    os.chdir(cwd)
    calls = list(stub.calls)
    scratch.remove(work)
    return dict(rc=rc, exc=exc, ident=out.value().split('\n')[0], stdout=out.value(), stderr=err.value(),
                calls=calls, sandboxes=list(roots), case_dir=case_dir)


def run_suite(case_texts: Sequence[str], conf: Sequence[str] = (), files: Optional[Dict[str, str]] = None, stub=None):
    """Runs the REAL main program in process on a suite file listing the case files c0.case, c1.case, ... (in this
    order) holding `case_texts`.  -> dict(rc, exc, statuses: the outcome printed for each case, in order)
    `conf`: lines of the [conf] section of the suite file; `files`: further files {name: contents} in the directory of the
    suite (and case) files; `stub`: the stand-in for the subprocess module (default: SubprocessStub)."""
    import io
    from vsym import scratch
    from exactly_lib.cli import main_program
    from exactly_lib.cli_default import default_main_program_setup as d
    from exactly_lib.execution import sandbox_dir_resolving
    from exactly_lib.util.file_utils.std import StdOutputFiles
    from exactly_lib.util.process_execution import process_executor
    from exactly_lib.processing import preprocessor
    stub = SubprocessStub if stub is None else stub
    process_executor.subprocess = stub
    preprocessor.subprocess = stub
    work = scratch.new_dir('c08s')
    names = []
    for i, text in enumerate(case_texts):
        names.append('c%d.case' % i)
        with open(os.path.join(work, names[-1]), 'w') as f:
            f.write(text)
    with open(os.path.join(work, 's.suite'), 'w') as f:
        f.write(('[conf]\n' + '\n'.join(conf) + '\n' if conf else '') + '[cases]\n' + '\n'.join(names) + '\n')
    for name in sorted(files or ()):
        with open(os.path.join(work, name), 'w') as f:
            f.write(files[name])
        os.chmod(os.path.join(work, name), 0o755)  # usable as an executable file too
    roots = []

    def resolver() -> str:
        p = os.path.join(work, 'sandbox-%d' % (len(roots) + 1))
        os.mkdir(p)
        roots.append(p)
        return p

    real_mk_tmp = sandbox_dir_resolving.mk_tmp_dir_with_prefix
    sandbox_dir_resolving.mk_tmp_dir_with_prefix = lambda prefix: resolver  # the suite makes its own resolver: tempfile.mkdtemp
    out, err = Sink(), Sink()
    stub.calls = []
    cwd = os.getcwd()
    exc = None
    try:
        mp = main_program.MainProgram(
            d.test_case_handling_setup.setup(), resolver,
            d.TestCaseDefinitionForMainProgram(
                d.TestCaseParsingSetup(d.instruction_name_and_argument_splitter.splitter,
                                       d.default_instructions_setup.INSTRUCTIONS_SETUP, d.ActPhaseParser()),
                d.builtin_symbols.ALL),
            d.test_suite.test_suite_definition(), io.DEFAULT_BUFFER_SIZE)
        try:
            rc = mp.execute(['suite', os.path.join(work, 's.suite')], StdOutputFiles(out, err))
        except Exception as e:  # noqa
            rc, exc = None, e
    finally:
        sandbox_dir_resolving.mk_tmp_dir_with_prefix = real_mk_tmp
        os.chdir(cwd)
    statuses = {}
    for line in out.value().split('\n'):
        parts = line.split()
        if len(parts) >= 3 and parts[0] == 'case' and parts[1].endswith('.case:'):
            statuses[parts[1][:-1]] = parts[-1]
    calls = list(stub.calls)
    scratch.remove(work)
    return dict(rc=rc, exc=exc, statuses=[statuses.get(n) for n in names], stdout=out.value(), stderr=err.value(),
                calls=calls, sandboxes=len(roots), sandbox_dirs=list(roots), case_dir=work)
