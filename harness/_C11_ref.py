"""Reference oracles of the C11 harness.  Written from the reference manual (`env`, `cd`,
`timeout`, concept "environment variable"), NOT from the implementation; no regular
expressions, no exactly_lib import.

    expand(value, environ)        "${name}" elements are replaced by the value of the variable
                                  `name` of `environ`, unknown names by the empty string; a name is a
                                  non-empty run of ASCII letters, digits and '_'; scanning continues
                                  AFTER the replacement (a substituted value is not expanded again).
    Machine                       (act set, non-act set, timeout, cwd) and the effect of every
                                  instruction form on it.
"""
import posixpath
from typing import Dict, List, Optional, Tuple

NAME_CHARS = 'abcdefghijklmnopqrstuvwxyzABCDEFGHIJKLMNOPQRSTUVWXYZ0123456789_'


def expand(value: str, environ: Dict[str, str], bug: int = 0) -> str:
    """bug: seeded oracle errors (0 = none).  1: unknown name kept verbatim; 2: the substituted text is
    scanned again (together with what follows it); 3: an empty name `${}` is a reference too."""
    out = ''
    i = 0
    n = len(value)
    rescans = 0
    while i < n:
        if value[i] == '$' and i + 1 < n and value[i + 1] == '{':
            j = i + 2
            while j < n and value[j] in NAME_CHARS:
                j += 1
            if j < n and value[j] == '}' and (j > i + 2 or bug == 3):
                name = value[i + 2:j]
                if name in environ:
                    if bug == 2 and rescans < 3:
                        rescans += 1
                        value = value[:i] + environ[name] + value[j + 1:]
                        n = len(value)
                        continue
                    out += environ[name]
                elif bug == 1:
                    out += value[i:j + 1]
                i = j + 1
                continue
        out += value[i]
        i += 1
    return out


# ----------------------------------------------------------------------------- the state machine

ACT, NON_ACT, BOTH = 'act', '!act', ''
TARGETS = (BOTH, ACT, NON_ACT)


class Machine:
    """The settings of one execution.  Environment sets are dicts (never None: `both sets start as the
    environment Exactly was started with`)."""

    def __init__(self, initial_environ: Dict[str, str], timeout: Optional[int], cwd: str, act_dir: str,
                 existing_dirs=None):
        self.act = dict(initial_environ)
        self.non_act = dict(initial_environ)
        self.timeout = timeout
        self.cwd = cwd
        self.act_dir = act_dir
        self.existing_dirs = existing_dirs  # None: every directory exists
        self.failed = False  # a cd to a directory that does not exist

    def sets_changed_by(self, target: str, in_setup: bool) -> List[Dict[str, str]]:
        """The manual: without -of (PHASE-SPEC is a [setup] option) the change affects all phases and the
        ATC; `-of act` only the ATC; `-of !act` everything except the ATC.  After the act phase the act set
        has no further reader, and instructions there change the non-act set only."""
        sets = []
        if target in (BOTH, ACT) and in_setup:
            sets.append(self.act)
        if target in (BOTH, NON_ACT):
            sets.append(self.non_act)
        return sets

    def env_set(self, target: str, in_setup: bool, name: str, value: str, bug: int = 0):
        for s in self.sets_changed_by(target, in_setup):
            s[name] = expand(value, s, bug)

    def env_unset(self, target: str, in_setup: bool, name: str):
        for s in self.sets_changed_by(target, in_setup):
            if name in s:
                del s[name]

    def set_timeout(self, t: Optional[int]):
        self.timeout = t

    def cd(self, relativity: str, arg: str):
        base = {'cwd': self.cwd, 'act': self.act_dir}[relativity]
        new = posixpath.normpath(posixpath.join(base, arg))
        if self.existing_dirs is not None and new not in self.existing_dirs:
            self.failed = True
            return
        self.cwd = new

    def seen_by_instruction(self) -> Tuple[Dict[str, str], Optional[int], str]:
        return dict(self.non_act), self.timeout, self.cwd

    def seen_by_atc(self) -> Tuple[Dict[str, str], Optional[int], str]:
        return dict(self.act), self.timeout, self.cwd
