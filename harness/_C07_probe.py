from harness import _C07_ref as ref
from vsym import ob
from vsym.ob import Ob
PROPERTY='C07'
A='a \n'
def _in(s):
    for ch in s:
        if ch not in A: return False
    return True
def _pre(s, n):
    c = ob.case()
    return len(s) == c['len'] and _in(s) and n >= 0

def _obs_real(ps, lvl):
    if not ps.has_current_line:
        return (False, ps.is_at_eof, ps.remaining_source)
    if lvl == 0:
        return (True, ps.current_line_number, ps.column_index)
    if lvl == 1:
        return (True, ps.current_line_number, ps.column_index, ps.remaining_source)
    if lvl == 2:
        return (True, ps.current_line_number, ps.column_index, ps.remaining_source, ps.current_line_text)
    return (True, ps.is_at_eof, ps.remaining_source, ps.current_line_number, ps.current_line_text, ps.column_index)

def _obs_model(m, lvl):
    if not m.alive:
        return (False, m.is_at_eof(), m.remaining_source())
    if lvl == 0:
        return (True, m.line_number(), m.column())
    if lvl == 1:
        return (True, m.line_number(), m.column(), m.remaining_source())
    if lvl == 2:
        return (True, m.line_number(), m.column(), m.remaining_source(), m.line_text())
    return (True, m.is_at_eof(), m.remaining_source(), m.line_number(), m.line_text(), m.column())

def f(s: str, n: int) -> bool:
    """
    pre: _pre(s, n)
    post: _
    """
    from exactly_lib.section_document.parse_source import ParseSource
    c = ob.case()
    ps = ParseSource(s)
    m = ref.PosModel(s)
    op = c['op']
    if op == 'consume':
        mok = m.consume(n)
        try:
            ps.consume(n); rok = True
        except ValueError:
            rok = False
    else:
        mok = m.consume_part_of_current_line(n)
        try:
            ps.consume_part_of_current_line(n); rok = True
        except ValueError:
            rok = False
    if mok != rok:
        return ob.post(False)
    if not rok:
        return ob.post(True)
    if c['lvl'] == -1:
        return ob.post(True)
    if c['lvl'] == -2:
        return ob.post(ps.current_line_number == 1 + s[:n].count('\n'))
    if c['lvl'] == -3:
        return ob.post(ps.remaining_source == s[n:])
    return ob.post(_obs_real(ps, c['lvl']) == _obs_model(m, c['lvl']))

def obligations(tier):
    out=[]
    for op in ('consume','part'):
        for L in (2,3,4):
            for lvl in (-3,-2,-1,0,1,2,3):
                out.append(Ob(name='%s:%d:%d'%(op,L,lvl), fn='f', case=dict(op=op,len=L,lvl=lvl), timeout=150))
    return out
