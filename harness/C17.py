"""C17  Cases are independent; suite contents apply alike standalone and in a suite run.

Kernels (DESIGN.md section 4, C17; K4 and K5 were added while writing the harness):
  K1  documents.  `_TestCaseInstructionsFromTestSuiteAdder.transform` (through `resolve_test_case_handling_setup`, i.e.
      composed with the default transformer) on documents of labelled elements: for each of the six phases the number
      of elements the suite supplies and the number the case holds are symbolic.  `_separate_configuration_elements`
      / `derive_conf_section_environment` on a [conf] section whose elements are symbolic selectors over
      {preprocessor instruction, case configuration instruction, comment, empty line}.
  K2  leakage, execution harness.  A sequence of stub cases on ONE real case executor
      (`processors.new_executor_that_should_not_pollute_current_processes`, what `exactly suite` uses for the cases of a
      suite).  One instruction of every case but the last misbehaves - symbolic choice out of everything an instruction
      can reach through what it is handed: the settings' environ (set / unset / change / replace), the timeout (symbolic
      integer / none), the symbol table (new / overwritten symbol), the cwd, files in act/ and tmp/, the settings of the
      act phase (environ, stdin), the configuration builder (actor, status, home) - and then ends with a symbolic fault
      kind.  Every step of every case probes, until the case's own misbehaviour, that all of it has the configured
      initial value (configured timeout: symbolic integer or none).
  K3  standalone vs in a suite, whole program.  Suite and case files on disk; the suite supplies contents for a subset
      of {conf (actor, status), setup, act, before-assert, assert, cleanup} and possibly a preprocessor, the case holds
      its own in a subset.  The REAL MainProgram.execute runs `suite SUITE`, `--suite SUITE CASE` and `CASE` (beside
      exactly.suite / no suite / another exactly.suite beside the case / case of a sub-suite).  A recording stand-in for
      `subprocess` shows the order in which the instructions run, the interpreter / source the actor uses and what the
      preprocessor did.  Oracle: absolute (suite contents first, after in cleanup, the case's [conf] wins, nothing of a
      suite in the cases of its sub-suites), hence identical in all three ways.
      K3:hier - hierarchies of 2-3 suite files (root + one sub-suite / two sibling sub-suites / a sub-suite with a
      sub-suite of its own), every suite with contents of its OWN (mask over the six phases, actor and preprocessor: none /
      its own / the same as the other suites), 0-2 cases per suite, the four ways of listing ([suites] / [cases] first,
      lists reversed): `suite ROOT` must run every case with the contents of the suite that lists it and of no other
      one - the absolute oracle - and exactly as `--suite ITS-OWN-SUITE CASE` does.
  K4  histories, whole program.  A suite of 2-3 REAL cases out of a catalogue of cases that change settings (env, cd,
      timeout, def, files, env -of act, stdin, actor / status; early, late, before a hard error / failure) and cases
      that observe; every case of the suite run must be observed (identifier; argv, cwd, environment, timeout, stdin,
      sandbox listing of every process it starts) exactly as when it is run alone with `--suite`, its first instruction
      must see the pristine state, and it must end as documented.
  K5  instructions of a suite that use symbols of the case.  The instruction objects of a suite file are parsed once
      and executed in every case: a suite instruction that refers to symbols which each of the two cases of the suite
      defines differently (catalogue of forms: one per type of value and per kind of use) must behave in each case as
      when the case is run alone with `--suite`.

Found by K5 on the pinned tree and fixed since (/repo db925b1, `fixed:` record in known_findings.json):
`filter -line-nums RANGE` with RANGE given by a symbol, written in a suite file, kept the ranges computed for the first
case that ran for the later cases of the suite run (a.case N=1 PASS, b.case N=2 FAIL in the suite, PASS with `--suite`).
The region predicate `suite-instruction-line-nums-memo` is kept in _pre_k5; nothing switches it on.
"""
from typing import List

from vsym import ob
from vsym.ob import Ob

from harness import _C17_lib as L

PROPERTY = 'C17'

# --------------------------------------------------------------------------- K1

REAL_K1 = (
    'exactly_lib.test_suite.file_reading.suite_file_reading._TestCaseInstructionsFromTestSuiteAdder',
    'exactly_lib.test_suite.file_reading.suite_file_reading.resolve_test_case_handling_setup',
    'exactly_lib.test_suite.file_reading.suite_file_reading.derive_conf_section_environment',
    'exactly_lib.processing.test_case_handling_setup.ComposedTestCaseTransformer',
    'exactly_lib.processing.test_case_handling_setup.TestCaseHandlingSetup',
    'exactly_lib.test_suite.test_suite_doc.TestSuiteDocument',
    'exactly_lib.test_case.test_case_doc.TestCase',
)


def _counts_pre(vals, kmax) -> bool:
    for v in vals:
        if not (0 <= v <= kmax):
            return False
    return True


def _pre_k1(s0, s1, s2, s3, s4, s5, c0, c1, c2, c3, c4, c5) -> bool:
    c = ob.case()
    if not _counts_pre((s0, s1, s2, s3, s4, s5, c0, c1, c2, c3, c4, c5), c['kmax']):
        return False
    fixed = c.get('fixed', {})
    vals = dict(s0=s0, s1=s1, s2=s2, s3=s3, s4=s4, s5=s5, c0=c0, c1=c1, c2=c2, c3=c3, c4=c4, c5=c5)
    for k in fixed:
        if vals[k] != fixed[k]:
            return False
    for group in c.get('tie', ()):
        for k in group[1:]:
            if vals[k] != vals[group[0]]:
                return False
    return True


def k1_transform(s0: int, s1: int, s2: int, s3: int, s4: int, s5: int,
                 c0: int, c1: int, c2: int, c3: int, c4: int, c5: int) -> bool:
    """
    pre: _pre_k1(s0, s1, s2, s3, s4, s5, c0, c1, c2, c3, c4, c5)
    post: _
    """
    c = ob.case()
    kmax = c['kmax']
    sc = [ob.concrete_int(v, 0, kmax) for v in (s0, s1, s2, s3, s4, s5)]
    cc = [ob.concrete_int(v, 0, kmax) for v in (c0, c1, c2, c3, c4, c5)]
    got = L.transform_labelled(sc, cc, default_marks=bool(c.get('default_marks')))
    exp = L.expected_labels(sc, cc, bool(c.get('oracle_bug')), default_marks=bool(c.get('default_marks')))
    return ob.post(got == exp)


def _pre_k1c(e0: int, e1: int, e2: int, e3: int) -> bool:
    n = ob.case()['n']
    es = (e0, e1, e2, e3)
    for i in range(4):
        if i < n:
            if not (0 <= es[i] < len(L.CONF_KINDS)):
                return False
        elif es[i] != 0:
            return False
    return True


def k1_conf_section(e0: int, e1: int, e2: int, e3: int) -> bool:
    """
    pre: _pre_k1c(e0, e1, e2, e3)
    post: _
    """
    c = ob.case()
    n = c['n']
    kinds = [ob.concrete_int(e, 0, len(L.CONF_KINDS) - 1) for e in (e0, e1, e2, e3)[:n]]
    got = L.conf_section_observed(kinds)
    exp = L.conf_section_expected(kinds, bool(c.get('oracle_bug')))
    return ob.post(got == exp)


def _k1_obligations(tier: str) -> List[Ob]:
    obs = []
    names = 's0..s5 = number of elements the suite supplies for conf, setup, act, before-assert, assert, cleanup; ' \
            'c0..c5 = number of elements the case holds'
    S_ALL = ('s0', 's1', 's2', 's3', 's4', 's5')
    C_ALL = ('c0', 'c1', 'c2', 'c3', 'c4', 'c5')
    entry = 'resolve_test_case_handling_setup(suite document, default).transformer.transform(case)'
    kq = 1
    obs.append(Ob(name='K1:transform:suite-subsets', fn='k1_transform', selector=True, case=dict(kmax=kq, tie=(C_ALL,)), kernel='K1',
                  timeout=400, real=REAL_K1, entry=entry,
                  bound='every subset of the six phases in which the suite supplies an element x the case holds an element '
                        'in every phase / in no phase; ' + names))
    obs.append(Ob(name='K1:transform:case-subsets', fn='k1_transform', selector=True, case=dict(kmax=kq, tie=(S_ALL,)), kernel='K1',
                  timeout=400, real=REAL_K1, entry=entry,
                  bound='every subset of the six phases in which the case holds an element x the suite supplies an element '
                        'in every phase / in no phase; ' + names))
    if tier == 'thorough':
        # all 4096 pairs of subsets, split by the suite's conf / setup bits
        for a in (0, 1):
            for b in (0, 1):
                obs.append(Ob(name='K1:transform:s0=%d,s1=%d' % (a, b), fn='k1_transform', selector=True,
                              case=dict(kmax=1, fixed=dict(s0=a, s1=b)), kernel='K1', timeout=900,
                              bound='every subset of the six phases in which the suite supplies one element (conf: %d, '
                                    'setup: %d) x every subset in which the case holds one; %s' % (a, b, names),
                              real=REAL_K1, entry=entry))
        obs.append(Ob(name='K1:transform:suite-counts', fn='k1_transform', selector=True, case=dict(kmax=2, tie=(C_ALL,)), kernel='K1',
                      timeout=2000, real=REAL_K1, entry=entry,
                      bound='0..2 elements per phase from the suite, independently per phase x the case holds 0 / 1 / 2 '
                            'elements in every phase; ' + names))
        obs.append(Ob(name='K1:transform:case-counts', fn='k1_transform', selector=True, case=dict(kmax=2, tie=(S_ALL,)), kernel='K1',
                      timeout=2000, real=REAL_K1, entry=entry,
                      bound='0..2 elements per phase in the case, independently per phase x the suite supplies 0 / 1 / 2 '
                            'elements for every phase; ' + names))
    obs.append(Ob(name='K1:transform:default-transformer', fn='k1_transform', selector=True,
                  case=dict(kmax=1, default_marks=True, fixed=dict(s0=1, c0=1, s2=0, c2=1, s3=1, c3=0)), kernel='K1', timeout=600,
                  bound='a default transformer that marks the case (appends one element to every phase) is applied before '
                        'the contents of the suite are added; subsets of setup, assert, cleanup (suite x case)',
                  real=REAL_K1))
    obs.append(Ob(name='K1:transform:seeded-oracle-error', fn='k1_transform', selector=True,
                  case=dict(kmax=1, oracle_bug=True, fixed=dict(s0=0, s1=0, s2=0, c0=0, c1=0, c2=0)), kernel='K1',
                  timeout=300, expect=ob.REFUTE, bound='seeded oracle error: suite contents expected after the case\'s in assert',
                  real=REAL_K1))
    real_c = REAL_K1 + ('exactly_lib.test_suite.file_reading.suite_file_reading._separate_configuration_elements',
                        'exactly_lib.test_suite.instruction_set.sections.configuration.preprocessor.Instruction',
                        'exactly_lib.test_suite.instruction_set.sections.configuration.instruction_definition.ConfigurationSectionEnvironment')
    for n in ((0, 1, 2, 3) if tier == 'quick' else (0, 1, 2, 3, 4)):
        obs.append(Ob(name='K1:conf-section:n%d' % n, fn='k1_conf_section', case=dict(n=n), kernel='K1', timeout=600,
                      selector=True,
                      bound='[conf] section of a suite with %d elements, each one of %s' % (n, list(L.CONF_KINDS)),
                      real=real_c, entry='_separate_configuration_elements -> TestSuiteDocument -> resolve_test_case_handling_setup'))
    obs.append(Ob(name='K1:conf-section:seeded-oracle-error', fn='k1_conf_section', case=dict(n=2, oracle_bug=True),
                  kernel='K1', timeout=300, selector=True, expect=ob.REFUTE,
                  bound='seeded oracle error: the first preprocessor instruction expected to win', real=real_c))
    return obs


# --------------------------------------------------------------------------- K2

REAL_K2 = (
    'exactly_lib.processing.processors._Executor.apply',
    'exactly_lib.processing.processors._Executor._exe_conf_that_may_be_updated',
    'exactly_lib.processing.processors.Configuration.execution_configuration',
    'exactly_lib.processing.processors.new_executor_that_should_not_pollute_current_processes',
    'exactly_lib.processing.processors.default_conf_phase_configuration__of_file',
    'exactly_lib.execution.full_execution.execution.execute',
    'exactly_lib.execution.partial_execution.execution.execute',
    'exactly_lib.execution.partial_execution.impl.executor._PartialExecutor.__init__',
    'exactly_lib.execution.partial_execution.impl.executor._PartialExecutor._setup_pre_sds_environment',
    'exactly_lib.execution.partial_execution.impl.executor._PartialExecutor._setup_post_sds_environment',
    'exactly_lib.execution.partial_execution.impl.executor._PartialExecutor._construct_and_set_sds',
    'exactly_lib.execution.partial_execution.impl.executor._PartialExecutor._set_cwd_to_act_dir',
    'exactly_lib.execution.partial_execution.impl.executor._PartialExecutor._post_sds_environment',
    'exactly_lib.execution.partial_execution.impl.executor._PartialExecutor._env_vars__read_only',
    'exactly_lib.execution.partial_execution.impl.symbol_validation.SymbolsValidator',
    'exactly_lib.execution.partial_execution.setup_settings_handler.StandardSetupSettingsHandler',
    'exactly_lib.test_case.phases.instruction_settings.InstructionSettings',
    'exactly_lib.test_case.phases.configuration.ConfigurationBuilder',
    'exactly_lib.util.file_utils.misc_utils.preserved_cwd',
    'exactly_lib.util.symbol_table.SymbolTable.copy',
    'exactly_lib.execution.predefined_properties.os_environ_getter',
)

STUB_INSTRUCTIONS = ('stub instructions / actor of the public base classes (vsym.exeharness); one of them misbehaves in a '
                     'symbolically chosen way, all of them probe what they are handed')
STUB_RESOLVER = 'deterministic sandbox directory resolver (a new, counter-named directory per call)'


def _k2_specs(c, m0, f0, t0, m1, f1, t1):
    cells = c['cells']
    ms, fs, ts = (m0, m1), (f0, f1), (t0, t1)
    specs = []
    for i, ci in enumerate(cells):
        specs.append(L.CaseSpec(ob.concrete_int(ms[i], 0, L.N_MUT - 1), L.MUT_CELLS[ci], ob.concrete_int(fs[i], 0, 5), ts[i]))
    return specs


def _pre_k2(m0: int, f0: int, t0: int, m1: int, f1: int, t1: int, tcfg: int, tcfg_none: bool) -> bool:
    c = ob.case()
    cells = c['cells']
    ms, fs, ts = (m0, m1), (f0, f1), (t0, t1)
    for i in range(2):
        if i >= len(cells):
            if ms[i] != 0 or fs[i] != 0 or ts[i] != 0:
                return False
            continue
        if not (0 <= ms[i] < L.N_MUT and 0 <= fs[i] <= 5):
            return False
        m, f = ob.concrete_int(ms[i], 0, L.N_MUT - 1), ob.concrete_int(fs[i], 0, 5)
        cell = L.MUT_CELLS[cells[i]]
        if not L.mutation_applicable(m, cell) or not L.fault_applicable(f, cell):
            return False
        if 'faults' in c and f not in c['faults']:
            return False
        if 'faults_by_pos' in c and f not in c['faults_by_pos'][i]:
            return False
        if 'mutations' in c and m not in c['mutations']:
            return False
        if L.MUTATIONS[m] != 'timeout-set' and ts[i] != 0:
            return False
    if tcfg_none and tcfg != 0:
        return False
    if 'tcfg_none' in c and tcfg_none != c['tcfg_none']:
        return False
    return True


def k2_sequence(m0: int, f0: int, t0: int, m1: int, f1: int, t1: int, tcfg: int, tcfg_none: bool) -> bool:
    """
    pre: _pre_k2(m0, f0, t0, m1, f1, t1, tcfg, tcfg_none)
    post: _
    """
    c = ob.case()
    specs = _k2_specs(c, m0, f0, t0, m1, f1, t1)
    # the last case is a pure observer
    specs.append(L.CaseSpec(0, L.MUT_CELLS[0], 0))
    timeout_cfg = None if ob.concrete_bool(tcfg_none) else tcfg
    seq = L.run_sequence(specs, bool(c['environ_is_dict']), timeout_cfg, bool(c.get('oracle_bug')))
    ok = not seq.problems
    for spec, co in zip(specs, seq.cases):
        ok = ok and not co.problems and co.status == L.expected_status(spec)
    ok = ok and seq.cases[-1].trace == L.full_trace() and seq.cases[-1].n_probes == len(L.full_trace())
    return ob.post(ok)


def _cell_name(ci: int) -> str:
    return '%s-%s' % L.MUT_CELLS[ci][:2]


def _k2_obligations(tier: str) -> List[Ob]:
    from vsym import exeharness as xh
    obs = []
    what = ('the misbehaving instruction does each applicable one of %s and then ends with each applicable one of %s; '
            'the timeout it sets, the configured timeout: every integer (or none)')
    all_faults = 'OK / validation error / hard error / HardErrorException / other exception / FAIL'
    fault_names = {xh.OK: 'OK', xh.VAL: 'validation error', xh.HARD: 'hard error', xh.HARD_EXC: 'HardErrorException',
                   xh.EXC: 'other exception', xh.FAIL: 'FAIL'}
    plans = []  # (cells, environ_is_dict, extra case params)
    if tier == 'quick':
        for ci in range(len(L.MUT_CELLS)):
            cell = L.MUT_CELLS[ci]
            if cell[:2] == ('setup', 'main'):
                extra = dict(faults=(xh.OK, xh.EXC))
            elif cell[:2] == ('cleanup', 'main'):
                extra = dict(faults=(xh.OK, xh.HARD_EXC))
            elif cell[:2] == ('setup', 'pre'):
                extra = dict(faults=(xh.OK, xh.VAL))
            else:
                extra = dict(faults=(xh.OK,))
            extra['tcfg_none'] = (ci % 3 == 1)
            plans.append(((ci,), ci % 2 == 0, extra))
    else:
        for ci in range(len(L.MUT_CELLS)):
            for envd in (False, True):
                plans.append(((ci,), envd, {}))
        # two misbehaving cases before the observer
        sm = [i for i, cl in enumerate(L.MUT_CELLS) if cl[:2] == ('setup', 'main')][0]
        for ci in range(1, len(L.MUT_CELLS)):
            plans.append(((sm, ci), ci % 2 == 0, dict(faults_by_pos=((xh.OK,), (xh.OK,) if ci % 2 == 0 else (xh.HARD_EXC,)), tcfg_none=False)))
    for cells, envd, extra in plans:
        c = dict(cells=cells, environ_is_dict=envd)
        c.update(extra)
        steps = ' and then '.join('a case that misbehaves at step %s' % _cell_name(ci) for ci in cells)
        obs.append(Ob(name='K2:%s:%s' % ('+'.join(_cell_name(ci) for ci in cells), 'environ-dict' if envd else 'environ-none'),
                      fn='k2_sequence', case=c, kernel='K2', timeout=1200 if len(cells) == 1 else 3000,
                      bound='%d cases on one executor: %s, then a case that observes at every step; ' % (len(cells) + 1, steps)
                            + what % (list(L.MUTATIONS), 'the fault kinds %s' % (
                                [fault_names[f] for f in c['faults']] if 'faults' in c else
                                ' then '.join(str([fault_names[f] for f in fs]) for fs in c['faults_by_pos'])
                                if 'faults_by_pos' in c else all_faults,))
                            + '; configured environ: %s' % ('a dict' if envd else 'None (default getter)')
                            + ('; configured timeout: %s' % ('none' if c['tcfg_none'] else 'an integer') if 'tcfg_none' in c else ''),
                      real=REAL_K2, stubs=(STUB_INSTRUCTIONS, STUB_RESOLVER),
                      outside=('misbehaviour through channels the executor does not hand out: os.environ of the process, '
                               'chdir in [conf] (no instruction of that phase is handed a directory)',),
                      entry='processors.new_executor_that_should_not_pollute_current_processes(conf).apply, once per case'))
    obs.append(Ob(name='K2:seeded-oracle-error', fn='k2_sequence',
                  case=dict(cells=(2,), environ_is_dict=False, oracle_bug=True, faults=(0,), tcfg_none=False), kernel='K2', timeout=600,
                  expect=ob.REFUTE, bound='seeded oracle error: the observer is expected to see the timeout set by the case before it',
                  real=REAL_K2, stubs=(STUB_INSTRUCTIONS, STUB_RESOLVER)))
    return obs


# --------------------------------------------------------------------------- K3

REAL_K3 = (
    'exactly_lib.cli.main_program.MainProgram.execute',
    'exactly_lib.cli.main_program.MainProgram.execute_test_case',
    'exactly_lib.cli.main_program.MainProgram.execute_test_suite',
    'exactly_lib.cli.program_modes.test_case.argument_parsing.parse',
    'exactly_lib.processing.standalone.processor.Processor',
    'exactly_lib.processing.standalone.accessor_resolver.AccessorResolver',
    'exactly_lib.processing.processors.new_accessor',
    'exactly_lib.processing.processors.new_processor_that_should_not_pollute_current_process',
    'exactly_lib.processing.processors.new_accessor_from_conf',
    'exactly_lib.processing.processors._Executor',
    'exactly_lib.processing.processors.Configuration',
    'exactly_lib.processing.processing_utils.AccessorFromParts',
    'exactly_lib.processing.processing_utils.ProcessorFromAccessorAndExecutor',
    'exactly_lib.processing.preprocessor.PreprocessorViaExternalProgram',
    'exactly_lib.processing.test_case_handling_setup.ComposedTestCaseTransformer',
    'exactly_lib.test_suite.file_reading.suite_file_reading.read_suite_document',
    'exactly_lib.test_suite.file_reading.suite_file_reading.resolve_test_case_handling_setup',
    'exactly_lib.test_suite.file_reading.suite_file_reading.resolve_handling_setup_from_suite_file',
    'exactly_lib.test_suite.file_reading.suite_file_reading.derive_conf_section_environment',
    'exactly_lib.test_suite.file_reading.suite_file_reading._Parser',
    'exactly_lib.test_suite.file_reading.suite_file_reading._separate_configuration_elements',
    'exactly_lib.test_suite.file_reading.suite_file_reading._TestCaseInstructionsFromTestSuiteAdder',
    'exactly_lib.test_suite.file_reading.suite_hierarchy_reading._SingleFileReader',
    'exactly_lib.test_suite.instruction_set.sections.configuration.preprocessor.Parser',
    'exactly_lib.test_suite.instruction_set.sections.configuration.preprocessor.Instruction',
    'exactly_lib.test_suite.processing.Processor',
    'exactly_lib.test_suite.processing.SuitesExecutor._case_processor_for',
    'exactly_lib.test_suite.processing.SuitesExecutor._configuration_for_cases_in_suite',
    'exactly_lib.test_suite.processing.SuitesExecutor._process_single_sub_suite',
    'exactly_lib.impls.instructions.configuration.actor',
    'exactly_lib.impls.instructions.configuration.test_case_status',
    'exactly_lib.execution.full_execution.execution.execute',
    'exactly_lib.execution.partial_execution.execution.execute',
)

STUB_SUBPROCESS = ('subprocess module at process_executor and at processing.preprocessor -> recorder that starts nothing: '
                   'records argv, cwd, the VSYM_C17_* environment variables, timeout, the listing of act/ and tmp/, the '
                   'source file handed to an interpreter; exit code 0; as a preprocessor `pp-X` it writes the case file '
                   'with PPTOKEN replaced by ppX to stdout (contract of a preprocessor program)')
STUB_CLI_ENV = ('sandbox directory resolver -> counter-named directories (MainProgram argument; sandbox_dir_resolving.'
                'mk_tmp_dir_with_prefix for suites); preprocessor.tempfile -> counter-named files; deterministic clock in '
                'the suite reporters; PurePath.__hash__ work-around (see harness/_C16_lib.install_clock); in-memory stdout / stderr')

OUTSIDE_K3 = ('preprocessing by real external programs', 'how a case file is presented in the progress output (names are '
                                                        'compared after normalisation)',
              'phase contents other than one process-starting line per phase, [conf] contents other than actor / status / '
              'preprocessor')


def _mask_ok(v, spec) -> bool:
    """spec: 'free' | an int | a tuple of allowed ints"""
    if spec == 'free':
        return 0 <= v <= L.ALL_BITS
    if isinstance(spec, tuple):
        for x in spec:
            if v == x:
                return True
        return False
    return v == spec


def _pre_k3(smask: int, spp: bool, cmask: int, bmask: int, bpp: bool) -> bool:
    c = ob.case()
    if not (_mask_ok(smask, c['s']) and _mask_ok(cmask, c['c']) and _mask_ok(bmask, c.get('b', 0))):
        return False
    pp = c.get('pp', 'free')
    if pp == 'conf-bit':
        if spp != (smask % 2 == 1):
            return False
    elif pp != 'free' and spp != pp:
        return False
    bp = c.get('bpp', False)
    if bp != 'free' and bpp != bp:
        return False
    return True


def k3_modes(smask: int, spp: bool, cmask: int, bmask: int, bpp: bool) -> bool:
    """
    pre: _pre_k3(smask, spp, cmask, bmask, bpp)
    post: _
    """
    c = ob.case()
    S = L.Contents('s', ob.concrete_int(smask, 0, 63), ob.concrete_bool(spp))
    C = L.Contents('c', ob.concrete_int(cmask, 0, 63))
    B = L.Contents('b', ob.concrete_int(bmask, 0, 63), ob.concrete_bool(bpp))
    obs = L.k3_observe(c['layout'], S, C, B, bool(c.get('suite_as_dir')), bool(c.get('oracle_bug')))
    return ob.post(L.k3_ok(obs))


def _k3_ob(name, layout, bound, timeout, **case):
    c = dict(layout=layout)
    c.update(case)
    return Ob(name='K3:' + name, fn='k3_modes', case=c, kernel='K3', timeout=timeout, selector=True, bound=bound,
              real=REAL_K3, stubs=(STUB_SUBPROCESS, STUB_CLI_ENV), outside=OUTSIDE_K3,
              entry="MainProgram.execute(['suite', SUITE]) / (['--suite', SUITE, CASE]) / ([CASE])")


_LAYOUT_TEXT = {
    'beside': 'top/exactly.suite lists top/c1.case; run as `suite top/exactly.suite`, `--suite top/exactly.suite top/c1.case` '
              'and `top/c1.case`',
    'named': 'suites/x.suite lists ../top/c1.case, no exactly.suite beside the case; run as `suite suites/x.suite`, '
             '`--suite suites/x.suite top/c1.case` and `top/c1.case` (no suite applies)',
    'both': 'suites/x.suite (contents S) lists ../top/c1.case, top/exactly.suite (contents B) lists c1.case; run as '
            '`--suite suites/x.suite top/c1.case` (S applies), `top/c1.case` (B applies), `suite suites/x.suite`',
    'sub': 'top/exactly.suite (contents S) lists c1.case and the sub-suite top/sub/exactly.suite (contents B) which lists '
           'c2.case; run as `suite top/exactly.suite` (c2 gets B only, c1 gets S), `--suite top/sub/exactly.suite '
           'top/sub/c2.case` and `top/sub/c2.case`',
}
_MASK_TEXT = ('a contents mask is a subset of {conf (actor = source % X-interp, status), setup, act, before-assert, assert, '
              'cleanup}; each phase holds one process-starting line')


def _masks_text(ms) -> str:
    if ms == 'free':
        return 'every mask'
    if isinstance(ms, int):
        ms = (ms,)
    names = ('conf', 'setup', 'act', 'before-assert', 'assert', 'cleanup')

    def one(m):
        if m == 0:
            return 'nothing'
        if m == 63:
            return 'every phase'
        return '+'.join(n for i, n in enumerate(names) if m & (1 << i))

    return ' / '.join(one(m) for m in ms)


def _k3_obligations(tier: str) -> List[Ob]:
    obs = []
    T = 1500
    singles = (1, 2, 4, 8, 16, 32)

    def add(name, layout, **case):
        pp = case.get('pp', 'free')
        bound = '%s; contents of the suite S: %s (preprocessor: %s); of the case: %s' % (
            _LAYOUT_TEXT[layout], _masks_text(case['s']),
            {'conf-bit': 'set iff S has [conf] contents', 'free': 'set / not set', True: 'set', False: 'not set'}[pp],
            _masks_text(case['c']))
        if layout in ('both', 'sub'):
            bound += '; of the other suite B: %s (preprocessor: %s)' % (
                _masks_text(case.get('b', 0)), {'free': 'set / not set', True: 'set', False: 'not set'}[case.get('bpp', False)])
        if case.get('suite_as_dir'):
            bound += '; the suite is given as the directory `top`'
        obs.append(_k3_ob(name, layout, bound + '; ' + _MASK_TEXT, case.pop('timeout', T), **case))

    if tier == 'quick':
        add('beside:suite-single-phase', 'beside', s=(0,) + singles + (63,), c=63, pp='conf-bit')
        add('beside:case-single-phase', 'beside', s=63, c=(0, 1, 4, 32), pp=True)
        add('named', 'named', s=63, c=63, pp='free')
        add('both', 'both', s=63, pp=True, c=63, b=42, bpp='free', timeout=2000)
        add('sub', 'sub', s=63, pp=True, c=63, b=(0, 63), bpp=True, timeout=2000)
        add('beside:dir-arg', 'beside', s=63, pp=True, c=42, suite_as_dir=True)
    else:
        for lo in range(0, 64, 16):
            rng = tuple(range(lo, lo + 16))
            add('beside:suite-subsets:%d-%d' % (lo, lo + 15), 'beside', s=rng, c=63, pp='conf-bit', timeout=3000)
            add('beside:suite-subsets:%d-%d:empty-case' % (lo, lo + 15), 'beside', s=rng, c=0, pp='conf-bit', timeout=3000)
            add('beside:case-subsets:%d-%d' % (lo, lo + 15), 'beside', s=63, c=rng, pp=True, timeout=3000)
            add('beside:case-subsets:%d-%d:suite-pp-only' % (lo, lo + 15), 'beside', s=0, c=rng, pp=True, timeout=3000)
        for m in (21, 42):
            for lo in range(0, 64, 16):
                add('beside:suite-subsets:%d-%d:case-%d' % (lo, lo + 15, m), 'beside', s=tuple(range(lo, lo + 16)), c=m,
                    pp='conf-bit', timeout=3000)
        for sm in (0, 21, 42, 63):
            add('named:s%d' % sm, 'named', s=sm, c=(0, 21, 42, 63), pp='free', timeout=3000)
        for sm in (21, 42, 63):
            add('both:s%d' % sm, 'both', s=sm, pp='free', c=63, b=(0, 21, 42, 63), bpp='free', timeout=3000)
            add('sub:s%d' % sm, 'sub', s=sm, pp='free', c=63, b=(0, 21, 42, 63), bpp='free', timeout=3000)
        add('sub:s0', 'sub', s=0, pp=True, c=(21, 63), b=(0, 21, 42, 63), bpp='free', timeout=3000)
        add('beside:dir-arg', 'beside', s=(0, 21, 42, 63), pp='free', c=42, suite_as_dir=True, timeout=3000)
        add('sub:dir-arg', 'sub', s=63, pp=True, c=21, b=(0, 42), bpp='free', suite_as_dir=True, timeout=3000)
    obs.append(_k3_ob('seeded-oracle-error', 'beside', 'seeded oracle error: suite contents expected after the case\'s in setup',
                      600, s=(2, 3), c=63, pp=False, oracle_bug=True))
    obs[-1].expect = ob.REFUTE
    return obs


# --------------------------------------------------------------------------- K3: hierarchies of suites

STUB_UNTRACED = ('K3:hier: CrossHair tracing is suspended (crosshair.tracers.NoTracing) once every selector has been made '
                 'concrete: the real main program runs on the concrete files natively')
REAL_K3H = REAL_K3 + (
    'exactly_lib.test_suite.processing._SuiteExecutionReporter.report',
    'exactly_lib.test_suite.processing.SuitesExecutor.execute_and_report',
    'exactly_lib.test_suite.enumeration.DepthFirstEnumerator',
    'exactly_lib.test_suite.file_reading.suite_hierarchy_reading._SingleFileReader.__call__',
    'exactly_lib.test_suite.structure.TestSuiteHierarchy',
)
_H_SUITES = ('r', 'a', 'b')


def _pre_k3h(rm: int, am: int, bm: int, rp: int, ap: int, bp: int, sa: bool, nr: int, na: int, nb: int, cm: int,
             order: int) -> bool:
    c = ob.case()
    n_suites = len(L.hier_suite_tags(c['shape']))
    vals = dict(r=(rm, rp, nr), a=(am, ap, na), b=(bm, bp, nb))
    for i, t in enumerate(_H_SUITES):
        m, p, n = vals[t]
        if i >= n_suites:
            if m != 0 or p != 0 or n != 0:
                return False
            continue
        if not (_in(m, c['masks'][t]) and _in(p, c['pps'][t]) and _in(n, c['n'][t])):
            return False
    if c['sa'] != 'free' and sa != c['sa']:
        return False
    return _in(cm, c['cm']) and _in(order, c['order'])


def _concrete_in(v, allowed) -> int:
    """v (one of `allowed` by the pre-condition) as a concrete int - ob.concrete_int over the allowed values only"""
    for x in allowed:
        if v == x:
            return x
    raise ValueError('%r not in %r' % (v, allowed))


def k3_hierarchy(rm: int, am: int, bm: int, rp: int, ap: int, bp: int, sa: bool, nr: int, na: int, nb: int, cm: int,
                 order: int) -> bool:
    """
    pre: _pre_k3h(rm, am, bm, rp, ap, bp, sa, nr, na, nb, cm, order)
    post: _
    """
    c = ob.case()
    tags = L.hier_suite_tags(c['shape'])
    shared_actor = ob.concrete_bool(sa)
    vals = dict(r=(rm, rp, nr), a=(am, ap, na), b=(bm, bp, nb))
    suites, n_cases = {}, {}
    for t in tags:
        m, p, n = vals[t]
        suites[t] = L.hier_contents(t, _concrete_in(m, c['masks'][t]), _concrete_in(p, c['pps'][t]), shared_actor)
        n_cases[t] = _concrete_in(n, c['n'][t])
    cmask, order_c = _concrete_in(cm, c['cm']), _concrete_in(order, c['order'])
    with ob.untraced():  # every selector is concrete by now
        obs = L.hier_observe(c['shape'], suites, n_cases, cmask, order_c, bool(c.get('exactly_names')),
                             bool(c.get('oracle_bug')))
        ok = L.k3_ok(obs)
    return ob.post(ok)


_SHAPE_TEXT = {
    'one-sub': 'h/r.suite lists the sub-suite a/a.suite',
    'siblings': 'h/r.suite lists the sub-suites a/a.suite and b/b.suite',
    'chain': 'h/r.suite lists the sub-suite a/a.suite which lists the sub-suite b/b.suite',
}


def _k3h_ob(name, shape, timeout, masks, pps=(0,), n=(1,), sa=False, cm=(42,), order=(0,), **case):
    tags = L.hier_suite_tags(shape)

    def per_suite(x):
        if isinstance(x, dict):
            return {t: tuple(x[t]) for t in tags}
        return {t: tuple(x) for t in tags}

    c = dict(shape=shape, masks=per_suite(masks), pps=per_suite(pps), n=per_suite(n), sa=sa, cm=tuple(cm), order=tuple(order))
    c.update(case)
    if case.get('oracle_bug'):
        bound = 'seeded oracle error: the cases of a sub-suite are expected to get the contents of the root suite'
    else:
        bound = ('hierarchy of %d suite files: %s; every suite <t> lists its own cases <t>1.case .. beside it; run as `suite '
                 'h/r.suite`; every case must be observed (identifier, processes started, preprocessor) with the contents '
                 'of the suite that lists it and of no other suite - exactly as when run alone with `--suite ITS-SUITE`%s; '
                 % (len(tags), _SHAPE_TEXT[shape], ' and alone beside it (the suites are named exactly.suite and listed by '
                                                   'directory)' if case.get('exactly_names') else ''))
        bound += '; '.join('suite %s: contents %s, %s, %s cases' % (
            t, _masks_text(c['masks'][t]), ' / '.join(L.PP_KINDS[p] for p in c['pps'][t]),
            ' / '.join(str(k) for k in c['n'][t])) for t in tags)
        bound += ('; the actor of the suites with [conf] contents: %s; the first case of a suite holds %s, the second one the '
                  'complement; %s; %s' % (
                      {'free': 'the same interpreter / one per suite', True: 'the same interpreter', False: 'one per suite'}[sa],
                      _masks_text(c['cm']),
                      'listing: ' + ' / '.join(('[cases] before [suites]' if o & 1 else '[suites] before [cases]')
                                               + (', lists reversed' if o & 2 else '') for o in c['order']),
                      _MASK_TEXT))
    return Ob(name='K3:hier:' + name, fn='k3_hierarchy', case=c, kernel='K3', timeout=timeout, selector=True, bound=bound,
              real=REAL_K3H, stubs=(STUB_SUBPROCESS, STUB_CLI_ENV, STUB_UNTRACED), outside=OUTSIDE_K3 + (
                  'hierarchies deeper than root - sub-suite - sub-sub-suite, more than two sub-suites, more than two cases per suite',
                  'the order in which the cases of different suites are processed'),
              entry="MainProgram.execute(['suite', ROOT-SUITE]) vs MainProgram.execute(['--suite', SUITE-OF-THE-CASE, CASE]) per case")


def _k3h_obligations(tier: str) -> List[Ob]:
    obs = []
    singles = (0, 1, 2, 4, 8, 16, 32, 63)
    few = (0, 18, 63)
    if tier == 'quick':
        obs.append(_k3h_ob('one-sub:phases', 'one-sub', 600, masks=singles, sa='free', cm=(0, 21, 42, 63)))
        obs.append(_k3h_ob('one-sub:cases+listing', 'one-sub', 600, masks=few, n=(0, 1, 2), order=(0, 1, 2, 3)))
        obs.append(_k3h_ob('one-sub:actor+preprocessor', 'one-sub', 600, masks=(0, 1, 63), pps=(0, 1, 2), sa='free'))
        obs.append(_k3h_ob('one-sub:exactly.suite', 'one-sub', 300, masks=(0, 63), pps=(0, 2), order=(0, 1),
                           exactly_names=True))
        for shape in ('siblings', 'chain'):
            obs.append(_k3h_ob(shape + ':contents+listing', shape, 600, masks=(0, 5, 58, 63), order=(0, 1, 2, 3)))
            obs.append(_k3h_ob(shape + ':actor+preprocessor', shape, 600, masks=dict(r=(63,), a=(1, 18), b=(37,)),
                               pps=(0, 1, 2), sa='free'))
            obs.append(_k3h_ob(shape + ':cases', shape, 600, masks=dict(r=(0, 63), a=(18,), b=(0, 63)), n=(0, 1, 2)))
    else:
        for lo in range(0, 64, 8):
            obs.append(_k3h_ob('one-sub:contents:r%d-%d' % (lo, lo + 7), 'one-sub', 3000,
                               masks=dict(r=tuple(range(lo, lo + 8)), a=tuple(range(64))), sa='free', cm=(21, 42)))
        for o in (0, 1, 2, 3):
            obs.append(_k3h_ob('one-sub:cases+listing:%d' % o, 'one-sub', 3000, masks=(0, 5, 18, 40, 63), pps=(0, 2),
                               n=(0, 1, 2), order=(o,)))
        obs.append(_k3h_ob('one-sub:actor+preprocessor', 'one-sub', 3000, masks=(0, 1, 21, 42, 63), pps=(0, 1, 2), sa='free',
                           cm=(0, 42)))
        for en_order in (0, 1, 2, 3):
            obs.append(_k3h_ob('one-sub:exactly.suite:%d' % en_order, 'one-sub', 3000, masks=(0, 21, 42, 63), pps=(0, 1, 2),
                               n=(1, 2), order=(en_order,), exactly_names=True))
        for shape in ('siblings', 'chain'):
            for o in (0, 1, 2, 3):
                obs.append(_k3h_ob('%s:contents+listing:%d' % (shape, o), shape, 3000, masks=(0, 1, 18, 36, 63), order=(o,),
                                   sa='free', cm=(21, 42)))
            obs.append(_k3h_ob(shape + ':actor+preprocessor', shape, 3000, masks=dict(r=(0, 63), a=(1, 18), b=(0, 37)),
                               pps=(0, 1, 2), sa='free', order=(0, 3)))
            obs.append(_k3h_ob(shape + ':cases', shape, 3000, masks=dict(r=(0, 63), a=(18,), b=(0, 63)), pps=(0, 2),
                               n=(0, 1, 2)))
            obs.append(_k3h_ob(shape + ':exactly.suite', shape, 3000, masks=(0, 63), pps=(0, 2), order=(0, 3),
                               exactly_names=True))
    obs.append(_k3h_ob('seeded-oracle-error', 'one-sub', 300, masks=dict(r=(2, 63), a=(0, 16)), oracle_bug=True))
    obs[-1].expect = ob.REFUTE
    return obs


# --------------------------------------------------------------------------- K4

REAL_K4 = (
    'exactly_lib.cli.main_program.MainProgram.execute_test_suite',
    'exactly_lib.test_suite.processing.SuitesExecutor._process_single_sub_suite',
    'exactly_lib.test_suite.processing._process_and_time',
    'exactly_lib.processing.processors.new_processor_that_should_not_pollute_current_process',
    'exactly_lib.processing.processors._Executor.apply',
    'exactly_lib.processing.processors._Executor._exe_conf_that_may_be_updated',
    'exactly_lib.execution.partial_execution.execution.execute',
    'exactly_lib.execution.partial_execution.impl.executor._PartialExecutor.__init__',
    'exactly_lib.execution.partial_execution.impl.executor._PartialExecutor._setup_post_sds_environment',
    'exactly_lib.execution.partial_execution.impl.executor._PartialExecutor._post_sds_environment',
    'exactly_lib.util.file_utils.misc_utils.preserved_cwd',
    'exactly_lib.impls.instructions.multi_phase.environ.impl',
    'exactly_lib.impls.instructions.multi_phase.change_dir',
    'exactly_lib.impls.instructions.multi_phase.timeout.parse',
    'exactly_lib.impls.instructions.multi_phase.define_symbol.parser',
    'exactly_lib.impls.instructions.multi_phase.new_file',
    'exactly_lib.impls.instructions.multi_phase.sys_cmd',
    'exactly_lib.impls.instructions.multi_phase.timeout.impl',
    'exactly_lib.impls.instructions.multi_phase.new_dir',
    'exactly_lib.impls.instructions.setup.stdin',
    'exactly_lib.impls.instructions.configuration.actor',
)


def _pre_k4(a: int, b: int, c: int) -> bool:
    cs = ob.case()
    pos = cs['positions']
    vals = (a, b, c)
    for i in range(3):
        if i < len(pos):
            if not _in(vals[i], pos[i]):
                return False
        elif vals[i] != 0:
            return False
    return True


def _in(v, allowed) -> bool:
    for x in allowed:
        if v == x:
            return True
    return False


def k4_history(a: int, b: int, c: int) -> bool:
    """
    pre: _pre_k4(a, b, c)
    post: _
    """
    cs = ob.case()
    n = len(cs['positions'])
    kinds = [L.HISTORY_KINDS[ob.concrete_int(v, 0, len(L.HISTORY_KINDS) - 1)] for v in (a, b, c)[:n]]
    obs = L.history_observe(kinds, bool(cs.get('oracle_bug')))
    return ob.post(L.history_ok(kinds, obs))


def _kind_idx(*names):
    return tuple(L.HISTORY_KINDS.index(n) for n in names)


def _k4_ob(name, positions, bound, timeout, **case):
    c = dict(positions=positions)
    c.update(case)
    return Ob(name='K4:' + name, fn='k4_history', case=c, kernel='K4', timeout=timeout, selector=True, bound=bound,
              real=REAL_K4, stubs=(STUB_SUBPROCESS, STUB_CLI_ENV),
              outside=('cases other than the %d of the catalogue %s' % (len(L.HISTORY_KINDS), list(L.HISTORY_KINDS)),
                       'what the child processes themselves would do (nothing is started)'),
              entry="MainProgram.execute(['suite', SUITE]) vs MainProgram.execute(['--suite', SUITE, CASE]) per case")


def _k4_obligations(tier: str) -> List[Ob]:
    obs = []
    allk = tuple(range(len(L.HISTORY_KINDS)))
    what = ('every case of a suite run must be observed (identifier; argv, cwd, environment, timeout, sandbox listing, stdin '
            'of every process it starts) exactly as when it is run alone with `--suite`; its first instruction sees the '
            'pristine state')
    if tier == 'quick':
        half = len(allk) // 2
        for h, ks in enumerate((allk[:half], allk[half:])):
            obs.append(_k4_ob('then-observers:%d' % h, (ks, _kind_idx('observer'), _kind_idx('reference-to-undefined-symbol')),
                              'suite of 3 cases: one of %s, then `observer`, then `reference-to-undefined-symbol`; %s' % (
                                  [L.HISTORY_KINDS[k] for k in ks], what), 900))
    else:
        for k in allk:
            obs.append(_k4_ob('pairs:%s' % L.HISTORY_KINDS[k], ((k,), allk),
                              'suite of 2 cases: `%s`, then each case of the catalogue; %s' % (L.HISTORY_KINDS[k], what), 1500))
        for k in _kind_idx('env', 'cd', 'timeout', 'def', 'files', 'conf', 'hard-error-after-changes'):
            obs.append(_k4_ob('triples:%s' % L.HISTORY_KINDS[k],
                              ((k,), _kind_idx('env-late', 'cd-late', 'timeout-none-late', 'def-late', 'env-of-act+stdin',
                                               'fail-after-changes'),
                               _kind_idx('observer', 'reference-to-undefined-symbol')),
                              'suite of 3 cases: `%s`, then one of the late-changing cases, then an observer; %s' % (
                                  L.HISTORY_KINDS[k], what), 1500))
    obs.append(_k4_ob('seeded-oracle-error', (_kind_idx('timeout'), _kind_idx('observer')),
                      'seeded oracle error: the observer is expected to see the timeout set by the case before it', 600,
                      oracle_bug=True))
    obs[-1].expect = ob.REFUTE
    return obs


# --------------------------------------------------------------------------- K5

REAL_K5 = (
    'exactly_lib.cli.main_program.MainProgram.execute_test_suite',
    'exactly_lib.test_suite.file_reading.suite_file_reading._TestCaseInstructionsFromTestSuiteAdder',
    'exactly_lib.test_suite.processing.SuitesExecutor._process_single_sub_suite',
    'exactly_lib.processing.processors._Executor.apply',
    'exactly_lib.execution.partial_execution.impl.symbol_validation.SymbolsValidator',
    'exactly_lib.impls.types.string_transformer.impl.filter.line_nums.resolvers.sdv',
    'exactly_lib.impls.types.string_transformer.impl.filter.line_nums.resolvers._RangeExprHandler',
    'exactly_lib.impls.types.string_transformer.impl.filter.line_matcher',
    'exactly_lib.impls.types.string_transformer.impl.replace.setup',
    'exactly_lib.impls.types.regex.parse_regex',
    'exactly_lib.impls.types.integer.integer_sdv',
    'exactly_lib.impls.types.matcher.impls.symbol_reference',
    'exactly_lib.impls.types.string_transformer.sdvs',
    'exactly_lib.impls.types.program.parse.parse_program',
    'exactly_lib.type_val_deps.types.string_.string_sdv.StringSdv',
    'exactly_lib.type_val_deps.types.list_.list_sdv.ListSdv',
    'exactly_lib.type_val_deps.types.path.path_sdv_impls.path_rel_symbol',
)


def _pre_k5(form: int, b_first: bool) -> bool:
    c = ob.case()
    if not _in(form, c['forms']):
        return False
    if 'b_first' in c and b_first != c['b_first']:
        return False
    if ob.excluded(L.REGION_LINE_NUMS_MEMO) and form == L.SYMBOL_FORM_NAMES.index(L.FORM_IN_REGION_LINE_NUMS_MEMO):
        # known finding: `filter -line-nums` keeps the ranges it computed from the symbols of the first case that
        # executes the (shared) instruction object of the suite
        return False
    return True


def k5_suite_symbols(form: int, b_first: bool) -> bool:
    """
    pre: _pre_k5(form, b_first)
    post: _
    """
    c = ob.case()
    name = L.SYMBOL_FORM_NAMES[ob.concrete_int(form, 0, len(L.SYMBOL_FORM_NAMES) - 1)]
    obs = L.symbol_form_observe(name, ob.concrete_bool(b_first), bool(c.get('oracle_bug')))
    return ob.post(L.symbol_form_ok(obs))


FORM_GROUPS = (
    ('program-arguments+settings', ('string in a program argument', 'list in program arguments', 'program symbol',
                                    'env value from symbol', 'timeout from symbol', 'cd to directory from symbol',
                                    'text from a here document with a symbol', 'text-source symbol')),
    ('filter+replace', ('filter -line-nums RANGE-FROM-SYMBOL', 'filter line-num == INTEGER-FROM-SYMBOL',
                        'filter contents matches REGEX-FROM-SYMBOL', 'replace REGEX-FROM-SYMBOL', 'text-transformer symbol',
                        'line-matcher symbol', 'filter -line-nums TWO-RANGES-FROM-SYMBOLS')),
    ('matchers+paths', ('text-matcher symbol', 'integer-matcher symbol', 'file-matcher symbol', 'files-matcher symbol',
                        'files-condition symbol', 'path symbol', 'exit-code == INTEGER-FROM-SYMBOL',
                        'file relative to the home directory of the case')),
    ('more-uses', ('num-lines == INTEGER-FROM-SYMBOL', 'text-matcher matches REGEX-FROM-SYMBOL',
                   'files selected by GLOB-FROM-SYMBOL', 'file contents from PATH-FROM-SYMBOL', 'path relative to PATH-SYMBOL',
                   'symbol defined by the suite from a symbol of the case', 'program of an assertion with argument from symbol',
                   'existing-file program argument from PATH-SYMBOL')),
    ('suite-defined-symbols', ('suite text-source from a file of the sandbox', 'suite path symbol in the sandbox',
                               'suite text-transformer symbol using a symbol of the case',
                               'suite program symbol with argument from the case',
                               'suite line-matcher symbol using a regex of the case')),
)


# the quick tier leaves out the second, third ... use of the same kind of value
THOROUGH_ONLY_FORMS = (
    'list in program arguments', 'env value from symbol', 'cd to directory from symbol',
    'text from a here document with a symbol', 'text-source symbol', 'filter contents matches REGEX-FROM-SYMBOL',
    'line-matcher symbol', 'filter -line-nums TWO-RANGES-FROM-SYMBOLS', 'integer-matcher symbol', 'files-condition symbol',
    'exit-code == INTEGER-FROM-SYMBOL', 'files selected by GLOB-FROM-SYMBOL', 'path relative to PATH-SYMBOL',
    'program of an assertion with argument from symbol', 'existing-file program argument from PATH-SYMBOL',
    'suite path symbol in the sandbox', 'suite program symbol with argument from the case',
    'suite line-matcher symbol using a regex of the case')


def _k5_obligations(tier: str) -> List[Ob]:
    obs = []
    what = ('a suite supplies an instruction that refers to symbols which each of its two cases defines differently; each '
            'case must be observed in the suite run (identifier, processes started, probe files) exactly as when it is run '
            'alone with `--suite`, and must PASS')
    idx = L.SYMBOL_FORM_NAMES.index
    grouped = [f for _n, fs in FORM_GROUPS for f in fs]
    if sorted(grouped) != sorted(L.SYMBOL_FORM_NAMES):
        raise RuntimeError('harness error: FORM_GROUPS does not partition the catalogue of forms')
    for gname, forms in FORM_GROUPS:
        if tier == 'quick':
            forms = tuple(f for f in forms if f not in THOROUGH_ONLY_FORMS)
        c = dict(forms=tuple(idx(f) for f in forms))
        if tier == 'quick':
            c['b_first'] = False
        obs.append(Ob(name='K5:suite-symbols:%s' % gname, fn='k5_suite_symbols', case=c, kernel='K5',
                      timeout=1500, selector=True,
                      bound='instruction forms %s; %s; %s' % (list(forms), 'case a listed first' if tier == 'quick' else
                      'both orders of the two cases', what),
                      real=REAL_K5, stubs=(STUB_SUBPROCESS, STUB_CLI_ENV),
                      outside=('instruction forms outside the catalogue of %d' % len(L.SYMBOL_FORM_NAMES),),
                      entry="MainProgram.execute(['suite', SUITE]) vs MainProgram.execute(['--suite', SUITE, CASE]) per case"))
    obs.append(Ob(name='K5:seeded-oracle-error', fn='k5_suite_symbols',
                  case=dict(forms=(idx('string in a program argument'),), b_first=False, oracle_bug=True), kernel='K5',
                  timeout=600, selector=True, expect=ob.REFUTE, real=REAL_K5,
                  bound='seeded oracle error: the second case is expected to be observed like the first one'))
    return obs


def obligations(tier: str) -> List[Ob]:
    return (_k1_obligations(tier) + _k2_obligations(tier) + _k3_obligations(tier) + _k3h_obligations(tier)
            + _k4_obligations(tier) + _k5_obligations(tier))


# --------------------------------------------------------------------------- self-test (stubs and reference oracles)

def selftest(tier) -> int:
    """Concrete comparison of the stand-ins and the reference oracles with the real things (not part of the deciding
    step): the subprocess recorder against a real child process (what it inherits), the preprocessor stand-in against a
    real preprocessor program run by the real PreprocessorViaExternalProgram, the reference oracles of K1 / K3 against
    the real code on a spread of concrete arguments, the documented outcomes of the K4 / K5 reference cases."""
    import itertools
    import json
    import os
    import subprocess
    import sys
    from vsym import scratch
    n = 0
    # ---- recorder vs a real child: cwd and environment are inherited / replaced as recorded
    work = os.path.realpath(scratch.new_dir('c17self'))
    script = 'import os, json; print(json.dumps([os.getcwd(), sorted((k, v) for k, v in os.environ.items() if k.startswith("VSYM_C17_"))]))'
    w = L.World({'x/placeholder': ''})
    cwd = os.getcwd()
    os.environ['VSYM_C17_SELFTEST'] = 'inherited'
    try:
        for env in (None, {'VSYM_C17_SELFTEST': 'explicit', 'PATH': os.environ.get('PATH', '')}):
            os.chdir(work)
            with open(os.path.join(work, 'out.txt'), 'w') as f:
                subprocess.call([sys.executable, '-c', script], env=env, stdout=f)
            w.log.clear()
            w.call(['child'], env=env)
            os.chdir(cwd)
            real_cwd, real_env = json.load(open(os.path.join(work, 'out.txt')))
            ev = w.log[0]
            if ev.where != real_cwd or [list(x) for x in ev.env_view] != real_env:
                raise AssertionError('recorder differs from a real child: %r vs %r' % (ev, (real_cwd, real_env)))
            n += 1
    finally:
        os.chdir(cwd)
        del os.environ['VSYM_C17_SELFTEST']
    # ---- preprocessor stand-in vs a real preprocessor program through the real PreprocessorViaExternalProgram
    import pathlib
    from exactly_lib.processing import preprocessor
    pp_src = 'import sys\nprint(open(sys.argv[2]).read().replace("%s", "pp" + sys.argv[1]), end="")\n' % L.PP_TOKEN
    with open(os.path.join(work, 'pp.py'), 'w') as f:
        f.write(pp_src)
    case_text = L.case_file_text(L.Contents('c', 63))
    with open(os.path.join(work, 'c.case'), 'w') as f:
        f.write(case_text)
    real = preprocessor.PreprocessorViaExternalProgram([sys.executable, os.path.join(work, 'pp.py'), 'X']).apply(
        pathlib.Path(work) / 'c.case', case_text)
    saved = (preprocessor.subprocess, preprocessor.tempfile)
    preprocessor.subprocess = w
    try:
        stub = preprocessor.PreprocessorViaExternalProgram(['pp-X']).apply(pathlib.Path(work) / 'c.case', case_text)
    finally:
        preprocessor.subprocess, preprocessor.tempfile = saved
    if real != stub or 'ppX' not in stub:
        raise AssertionError('preprocessor stand-in differs from a real preprocessor program')
    n += 1
    w.close()
    scratch.remove(work)
    # ---- K1 reference oracle vs the real transformer
    for sc in itertools.product((0, 1, 2), repeat=6):
        cc = tuple(reversed(sc))
        for dm in (False, True):
            if L.transform_labelled(sc, cc, dm) != L.expected_labels(sc, cc, False, dm):
                raise AssertionError('K1 oracle: %r %r' % (sc, cc))
            n += 1
    for k in range(4):
        for kinds in itertools.product(range(len(L.CONF_KINDS)), repeat=k):
            if L.conf_section_observed(kinds) != L.conf_section_expected(kinds):
                raise AssertionError('K1 conf oracle: %r' % (kinds,))
            n += 1
    # ---- K2: a clean pair of cases has nothing to report; the stub world reports what is planted
    seq = L.run_sequence([L.CaseSpec(0, L.MUT_CELLS[0], 0), L.CaseSpec(0, L.MUT_CELLS[0], 0)], True, 60)
    if seq.problems or any(co.problems or co.status != 'PASS' or co.trace != L.full_trace() for co in seq.cases):
        raise AssertionError('K2: clean sequence reports %r' % ([co.problems for co in seq.cases],))
    n += 1
    # ---- K3 reference oracle vs the real program
    combos = [('beside', 63, True, 63, 0, False), ('beside', 0, False, 0, 0, False), ('beside', 5, True, 58, 0, False),
              ('named', 42, True, 21, 0, False), ('both', 21, True, 63, 42, True), ('sub', 63, True, 42, 21, True),
              ('sub', 36, False, 5, 0, False), ('beside', 4, False, 4, 0, False)]
    for lay, s, pp, c, b, bpp in combos:
        if not L.k3_ok(L.k3_observe(lay, L.Contents('s', s, pp), L.Contents('c', c), L.Contents('b', b, bpp))):
            raise AssertionError('K3 oracle: %r' % ((lay, s, pp, c, b, bpp),))
        n += 1
    # ---- K3:hier reference oracle vs the real program
    for i, (shape, masks, pps, sa, ns, cm, order, en) in enumerate([
            ('one-sub', (2, 16), (0, 0), False, (1, 1), 42, 0, False), ('one-sub', (63, 0), (0, 0), True, (2, 2), 21, 3, False),
            ('one-sub', (1, 63), (2, 2), True, (1, 2), 42, 1, True), ('one-sub', (63, 63), (1, 0), False, (0, 1), 0, 2, False),
            ('siblings', (63, 18, 37), (0, 0, 0), False, (1, 1, 1), 42, 0, False),
            ('siblings', (0, 63, 63), (2, 1, 2), True, (2, 0, 2), 21, 3, True),
            ('chain', (18, 63, 0), (0, 0, 0), False, (1, 1, 1), 42, 1, False),
            ('chain', (63, 5, 40), (0, 2, 2), True, (1, 2, 1), 63, 2, True)]):
        tags = L.hier_suite_tags(shape)
        suites = {t: L.hier_contents(t, m, p, sa) for t, m, p in zip(tags, masks, pps)}
        o = L.hier_observe(shape, suites, dict(zip(tags, ns)), cm, order, en)
        if not o and sum(ns) or not L.k3_ok(o):
            raise AssertionError('K3:hier oracle: %r' % ((shape, masks, pps, sa, ns, cm, order, en),))
        if L.k3_ok(L.hier_observe(shape, suites, dict(zip(tags, ns)), cm, order, en, oracle_bug=True)) and sum(ns[1:]):
            raise AssertionError('K3:hier seeded oracle error not noticed: %r' % ((shape, masks, pps, sa, ns, cm, order, en),))
        n += 1
    # ---- K4 / K5: the reference cases end as the manual says when run alone
    for k in L.HISTORY_KINDS:
        if L.history_reference(k)[0] != L.HISTORY_IDENTIFIER[k]:
            raise AssertionError('K4 reference case %s ends with %s' % (k, L.history_reference(k)[0]))
        n += 1
    for f in L.SYMBOL_FORM_NAMES:
        for c in 'ab':
            if L.symbol_form_reference(f, c)[0] != 'PASS':
                raise AssertionError('K5 reference case %s / %s ends with %s' % (f, c, L.symbol_form_reference(f, c)[0]))
            n += 1
    return n


ASSUMPTIONS = [
    'subprocess.call is the only way exactly_lib starts processes (process_executor.py, processing/preprocessor.py); it is '
    'replaced by a recorder that starts nothing.  Contract assumed: the child gets exactly the argv, inherits the cwd of '
    'the calling process at the time of the call and os.environ unless env= is given; a preprocessor program gets the name '
    'of the case file, runs in its directory and writes the preprocessed case to stdout',
    'sandbox directories come from the resolver handed to MainProgram / sandbox_dir_resolving.mk_tmp_dir_with_prefix '
    '(counter-named directories instead of mkdtemp: CrossHair makes random symbolic); the preprocessor\'s temporary files '
    'get counter-based names; a deterministic clock replaces datetime.now in the suite reporters; PurePath.__hash__ '
    'work-around of harness/_C16_lib',
    'K2: the stub instructions / actor use only the public base classes; they stand for every instruction an instruction '
    'set could hold - they may do more than the instructions of the default set do (e.g. overwrite a predefined symbol)',
    'K3:hier: once every selector is concrete the real main program runs with CrossHair\'s tracing suspended (ob.untraced)',
    'K3, K4, K5: all symbolic variables are selectors over finite catalogues: the verdict is the exhaustion certificate of '
    'the path tree; K1: element counts per phase (0..2); K2: the timeouts are unbounded integers',
    'the outcome of a case = its exit identifier + everything it hands to the OS when starting processes (argv, cwd, '
    'environment, timeout, stdin, the files in act/ and tmp/ at that moment)',
]

OUTSIDE = [
    'what real child processes would do (nothing is started); preprocessing by real external programs (self-test only)',
    'leakage through channels the executor does not hand to instructions: os.environ of the Exactly process itself, '
    'chdir by a [conf] instruction, files outside the sandbox (home directory)',
    'whether a sandbox directory is a new one (a directory that is removed and created again carries nothing over)',
    'suites deeper than two levels of sub-suites, more than two sub-suites; more than 3 cases per suite run; contents '
    'other than the catalogues',
    'the reporters (C16), the presentation of file names, timing',
]
