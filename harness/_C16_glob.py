"""The glob family of harness/C16.py (kernel K2): reference lines of [cases] / [suites] built from every construct of the
documented pattern syntax.

Documentation used (exactly help: syntax element GLOB-PATTERN, and the description of the sections [cases] / [suites]):
  `?` any single character, `*` any number of any characters, `[CHARACTERS]`, `[CHARACTER-CHARACTER]`, `[!CHARACTERS]`,
  `[?]` a literal meta-character, `/` directory separator, `**/` (examples `**/the.case`, `**/test-cases/*.case`);
  file names are relative to the location of the suite file; a quoted name is a plain name.

A reference line is  [ABSOLUTE-PREFIX/] DIR-PART LETTER DIGIT EXT  - one construct per position, each position also as a
literal - optionally quoted.  Nothing of exactly_lib is modelled here: the line is written into a suite file that the
real program reads, and the oracle is _C16_lib.expected_run (fnmatch per path component on the abstract tree).
"""
from harness import _C16_lib as L

# the constructs; index 0 (DIRP: 0 and 1) is the literal form
LETTER = ('t', '?', '*', '[tu]', '[!t]', '[t-u]')
DIGIT = ('1', '?', '*', '[13]', '[!1]', '[1-2]', '[?]')
DIRP = ('', 'da/', 'd?/', 'd*/', 'd[ab]/', 'd[!a]/', 'd[a-b]/', '*/', '**/', '**/d[ab]/', 'da/**/')
N_LITERAL_DIRP = 2
QUOTE = ('', "'", '"')
# where the line stands: (suite file that holds it, section)
WHERE = (('r.st', 'cases'), ('r.st', 'suites'), ('sub/exactly.suite', 'cases'), ('sub/exactly.suite', 'suites'))
WHERE_TEXT = ('[cases] of the root suite', '[suites] of the root suite',
              '[cases] of a suite in a sub directory (sub/exactly.suite, listed by the root as `sub`)',
              '[suites] of a suite in a sub directory (sub/exactly.suite, listed by the root as `sub`)')

# the fixture: for every stem there is STEM.case (a case) and STEM.suite (a suite that lists the case beside it).
# `t?` is a file whose NAME holds a meta-character: `t[?].case` and the quoted 't?.case' denote it, `t?.case` denotes
# it and t1, t2, t3.  The directory sub holds a different set than the top directory (a pattern resolved against the wrong
# directory gives different files).
TOP_STEMS = ('t1', 't2', 't3', 'u1', 't?', 'da/t1', 'da/t2', 'db/t1', 'dc/u1', 'da/in/t1', 'da/in/u1')
SUB_STEMS = ('t1', 't3', 'u1', 'u2', 'da/t2', 'db/t1', 'db/t3')
FAILING_CASE = 't3.case'  # every case of this base name ends FAIL, every other one PASS


def pattern(d: int, a: int, b: int, ext: str) -> str:
    return DIRP[d] + LETTER[a] + DIGIT[b] + ext


def n_wild(d: int, a: int, b: int) -> int:
    """number of positions that hold a wildcard construct"""
    return (1 if d >= N_LITERAL_DIRP else 0) + (1 if a > 0 else 0) + (1 if b > 0 else 0)


def line(d: int, a: int, b: int, w: int, q: int, absolute: bool) -> str:
    ext = '.case' if WHERE[w][1] == 'cases' else '.suite'
    text = pattern(d, a, b, ext)
    if absolute:
        text = L.ABS_MARK + '/' + text
    return QUOTE[q] + text + QUOTE[q]


def _stem_files(base: str, stems) -> dict:
    specs, files = {}, {}
    for st in stems:
        p = base + st
        files[p + '.case'] = ''
        name = st.rsplit('/', 1)[-1] + '.case'
        # quoted: a plain name, whatever characters it holds
        specs[p + '.suite'] = L.SuiteSpec([], ["'%s'" % name])
    return specs, files


def scenario(w: int, the_line: str):
    """-> (specs, tree, root): the root r.st lists a.st (one case) and the directory sub (default suite file);
    `the_line` stands where WHERE[w] says."""
    holder, section = WHERE[w]
    specs, files = _stem_files('', TOP_STEMS)
    s2, f2 = _stem_files('sub/', SUB_STEMS)
    specs.update(s2)
    files.update(f2)
    files['1.case'] = ''
    files['2.case'] = ''

    def lines(of: str, sec: str, fixed):
        return list(fixed) + ([the_line] if (of, sec) == (holder, section) else [])

    # the line under test stands FIRST in [suites] (the suites it denotes are read before a.st and sub) and LAST in [cases]
    specs['r.st'] = L.SuiteSpec(lines('r.st', 'suites', []) + ['a.st'] + (['sub'] if holder != 'r.st' else []),
                                lines('r.st', 'cases', ['1.case']))
    specs['a.st'] = L.SuiteSpec([], ['2.case'])
    specs['sub/exactly.suite'] = L.SuiteSpec(lines('sub/exactly.suite', 'suites', []),
                                             lines('sub/exactly.suite', 'cases', ['t1.case']))
    entries = dict(files)
    entries.update({p: s.text() for p, s in specs.items()})
    return specs, L.Tree(entries), 'r.st'


def kind_of(rel: str) -> int:
    return 1 if rel.rsplit('/', 1)[-1] == FAILING_CASE else 0
