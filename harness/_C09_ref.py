"""Reference oracles for C09 (string syntax).  Independent of exactly_lib and of shlex: plain
character scanners written from the documented syntax (help entities `string`, `rich-string`,
`symbol-reference`, `list`).  No `re`, no exactly_lib import.

Documented syntax (help/entities/syntax_elements/objects/type_string.py, rich_string.py):

  STRING  = fragment+            fragments side by side, without intervening whitespace
  fragment = naked               CHARACTER...  ("CHARACTER may not be whitespace")
           | "CHARACTER..."      soft quotes: symbol references are substituted
           | 'CHARACTER...'      hard quotes: symbol references are NOT substituted
  symbol reference = @[NAME]@    NAME: one or more alphanumeric characters or `_`
  there is no escape character (a backslash is an ordinary character);
  comments exist only as whole lines of a phase (so `#` is an ordinary character inside an
  instruction's arguments).

  tokenize        tokens of a source text: (string, start, end, parts) or an unterminated quote
  split_refs      constant / symbol fragments of a text (leftmost complete reference first)
  denotation      the string a token denotes given symbol values
  heredoc         here-document body / rest / missing marker
"""

WS = ' \t\r\n'  # the separators of the argument syntax
QUOTES = '"\''
SOFT = '"'
HARD = "'"
NAKED = ''

RESERVED = ('(', ')', '[', ']', '{', '}', '=', '|', ':', '!', '&&', '||')


# --------------------------------------------------------------------------- tokens

class RefToken:
    def __init__(self, start: int, end: int, parts):
        self.start = start  # offset of the first character of the token
        self.end = end  # offset after the last character of the token
        self.parts = parts  # [(quote form, contents)], form in NAKED / SOFT / HARD

    @property
    def string(self) -> str:
        r = ''
        for _, c in self.parts:
            r = r + c
        return r


def tokenize(src: str, seeded_error: bool = False):
    """-> (tokens, err) ; err is None, or the start offset of a token that contains an
    unterminated quote (tokens then holds the tokens before it).
    seeded_error (vacuity guard only): any quote character closes a quotation."""
    n = len(src)
    i = 0
    toks = []
    while True:
        while i < n and src[i] in WS:
            i += 1
        if i >= n:
            return toks, None
        start = i
        parts = []
        while i < n and src[i] not in WS:
            c = src[i]
            if c == SOFT or c == HARD:
                j = src.find(c, i + 1)
                if seeded_error:
                    j2 = src.find(SOFT if c == HARD else HARD, i + 1)
                    if j2 != -1 and (j == -1 or j2 < j):
                        j = j2
                if j == -1:
                    return toks, start
                parts.append((c, src[i + 1:j]))
                i = j + 1
            else:
                j = i + 1
                while j < n and src[j] not in WS and src[j] != SOFT and src[j] != HARD:
                    j += 1
                parts.append((NAKED, src[i:j]))
                i = j
        toks.append(RefToken(start, i, parts))


def first_token_span(src: str, p: int):
    """-> (start, end) of the first token at or after offset p; end is -1 if the token contains an
    unterminated quote; None if only separators follow p."""
    n = len(src)
    i = p
    while i < n and src[i] in WS:
        i += 1
    if i >= n:
        return None
    start = i
    while i < n and src[i] not in WS:
        c = src[i]
        if c == SOFT or c == HARD:
            j = src.find(c, i + 1)
            if j == -1:
                return (start, -1)
            i = j + 1
        else:
            i += 1
    return (start, i)


def has_unquoted(src: str, ch: str) -> bool:
    """`ch` occurs in `src` outside quotes (an unterminated quote extends to the end)."""
    q = ''
    for c in src:
        if q:
            if c == q:
                q = ''
        elif c == SOFT or c == HARD:
            q = c
        elif c == ch:
            return True
    return False


# --------------------------------------------------------------------------- symbol references

# "alphanumeric or `_`", spelled out for the characters the harness alphabets contain (str.isalnum on a
# symbolic character drags the Unicode tables into every later solver query); the harness self-test checks
# that this set and str.isalnum agree on every character of every alphabet used.
NAME_CHARS = 'abcdefghijklmnopqrstuvwxyzABCDEFGHIJKLMNOPQRSTUVWXYZ0123456789_\xe9'


def is_name_char(c: str) -> bool:
    return c in NAME_CHARS


def split_refs(s: str):
    """-> [(is_symbol, text)]: maximal constants and symbol names, leftmost complete reference
    `@[NAME]@` first; no empty constant."""
    out = []
    n = len(s)
    i = 0  # scan position
    c0 = 0  # start of pending constant
    while True:
        p = s.find('@[', i)
        if p == -1:
            break
        j = p + 2
        while j < n and is_name_char(s[j]):
            j += 1
        if j > p + 2 and s[j:j + 2] == ']@':
            if p > c0:
                out.append((False, s[c0:p]))
            out.append((True, s[p + 2:j]))
            i = j + 2
            c0 = i
        else:
            i = p + 1
    if n > c0:
        out.append((False, s[c0:]))
    return out


def render_refs(frags) -> str:
    r = ''
    for is_sym, t in frags:
        r = r + (('@[' + t + ']@') if is_sym else t)
    return r


def substitute(s: str, values) -> str:
    """`s` with every symbol reference replaced by values[NAME] (KeyError if undefined)."""
    r = ''
    for is_sym, t in split_refs(s):
        r = r + (values[t] if is_sym else t)
    return r


def denotation(parts, values) -> str:
    """The string denoted by a token: hard-quoted contents literally, naked and soft-quoted
    contents with symbol references substituted (per fragment)."""
    r = ''
    for form, c in parts:
        r = r + (c if form == HARD else substitute(c, values))
    return r


def n_refs(s: str) -> int:
    k = 0
    for is_sym, _ in split_refs(s):
        if is_sym:
            k += 1
    return k


def reference_straddles(parts) -> bool:
    """A complete reference syntax appears in the concatenation of the fragment contents that
    is not inside a single fragment (undocumented territory)."""
    whole = ''
    per = 0
    for _, c in parts:
        whole = whole + c
        per += n_refs(c)
    return n_refs(whole) != per


def is_mixed_hard(parts) -> bool:
    """The token has a hard-quoted fragment and a fragment of another form."""
    h = False
    o = False
    for form, _ in parts:
        if form == HARD:
            h = True
        else:
            o = True
    return h and o


def first_fragment_decides_wrongly(parts) -> bool:
    """The extent of the known finding C09-concat-quote-type ("the quote type of a concatenated token is that
    of its first character"), stated on the written token alone: treating the WHOLE token the way its first
    fragment is treated differs from the documented per-fragment treatment, i.e.
      - the first fragment is hard-quoted and a later fragment that is NOT hard-quoted contains a reference
        (documented: substituted), or
      - the first fragment is not hard-quoted and a later hard-quoted fragment contains a reference
        (documented: not substituted).
    Every other token - in particular a hard-quoted fragment with reference-like text followed by fragments
    without references, as in `'@[X]@'.txt` - is outside the finding."""
    if len(parts) < 2:
        return False
    first_hard = parts[0][0] == HARD
    for form, c in parts[1:]:
        if (form == HARD) != first_hard and n_refs(c) > 0:
            return True
    return False


# --------------------------------------------------------------------------- here-document

def heredoc(lines, marker: str):
    """lines: the source lines after the `<<MARKER` line.
    -> index of the first line equal to the marker, or -1 (missing end marker)."""
    for i in range(len(lines)):
        if lines[i] == marker:
            return i
    return -1


def lines_text(lines) -> str:
    r = ''
    for ln in lines:
        r = r + ln + '\n'
    return r
