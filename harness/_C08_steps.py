"""Helpers of harness/C08.py, kernel K5: a symbol is visible to EVERY step of every later instruction.

`using stubs`: instructions (and an action to check) of the stub world of `vsym.exeharness` that DECLARE a reference to
one symbol (a real `SymbolReference` with a real restriction class) and, in every step they are given an environment
(validate-pre-sds, validate-post-setup, main; act: prepare, execute), look the name up in `environment.symbols` and
resolve the symbol against that table - the way real instructions do - and write what they found into a log.
Nothing here knows what the executor is supposed to hand them.
"""
from vsym import exeharness as xh

from harness import _C08_lib as lib

# (type, value syntax of a constant, value syntax built from the symbol {x}, what resolving the constant gives,
#  what resolving the built value gives)  - one row per value type of the language
TYPES = (
    ('string', 'sv', 'p@[{x}]@q', 'sv', 'psvq'),
    ('list', 'e1 e2', 'a @[{x}]@', ('e1', 'e2'), ('a', 'e1', 'e2')),
    ('path', '-rel-act f', '-rel {x} g', 'f', 'f/g'),
    ('integer-matcher', '== 1', '{x}', None, None),
    ('line-matcher', 'contents matches x', '! {x}', None, None),
    ('file-matcher', 'type file', '{x}', None, None),
    ('files-matcher', 'is-empty', '{x}', None, None),
    ('files-condition', '{ f }', '{x}', None, None),
    ('files-source', '{ file f }', '{x}', None, None),
    ('text-source', "'x'", '@[{x}]@', None, None),
    ('text-matcher', 'is-empty', '{x}', None, None),
    ('text-transformer', 'char-case -to-upper', '{x}', None, None),
    ('program', '% echo', '@ {x}', None, None),
)

MISSING = ('missing',)


def look(symbols, name: str) -> tuple:
    """What an instruction finds when it evaluates its reference `name` in the table it has been given."""
    if not symbols.contains(name):
        return MISSING
    container = symbols.lookup(name)
    type_ = lib.VALUE_TYPE_NAME[container.value_type.name]
    try:
        value = container.sdv.resolve(symbols)
    except KeyError:
        return (type_, 'unresolvable')  # a symbol the value is built from is not in the table
    if type_ == 'string':
        return (type_, value.value_when_no_dir_dependencies())
    if type_ == 'list':
        return (type_, tuple(value.value_when_no_dir_dependencies()))
    if type_ == 'path':
        return (type_, value.path_suffix().value())
    return (type_, None)


def reference(name: str, type_: str):
    from exactly_lib.symbol.sdv_structure import SymbolReference
    from exactly_lib.symbol.value_type import ValueType
    from exactly_lib.type_val_deps.sym_ref.restrictions import ValueTypeRestriction
    from exactly_lib.type_val_deps.sym_ref.w_str_rend_restrictions import reference_restrictions
    if type_ in lib.W_STR:
        return SymbolReference(name, reference_restrictions.is_any_type_w_str_rendering())
    vt = [v for v in ValueType if lib.VALUE_TYPE_NAME[v.name] == type_][0]
    return SymbolReference(name, ValueTypeRestriction.of_single(vt))


class _Using:
    """Mixin: `uses` = (name, type) of the referenced symbol or None; `log` = {(phase, position, step): look(...)}."""

    def _init_using(self, log: dict, phase: str, key: int, uses):
        self._log, self._phase, self._key, self._uses = log, phase, key, uses

    def symbol_usages(self):
        return () if self._uses is None else (reference(*self._uses),)

    def _look(self, step: str, environment):
        if self._uses is not None:
            self._log[(self._phase, self._key, step)] = look(environment.symbols, self._uses[0])


class SetupUser(_Using, xh.SetupStub):
    def __init__(self, plan, pos, log, uses):
        xh.SetupStub.__init__(self, plan, pos)
        self._init_using(log, 'setup', pos, uses)

    def validate_pre_sds(self, environment):
        self._look('pre', environment)
        return xh.SetupStub.validate_pre_sds(self, environment)

    def main(self, environment, settings, os_services, settings_builder):
        self._look('main', environment)
        return xh.SetupStub.main(self, environment, settings, os_services, settings_builder)

    def validate_post_setup(self, environment):
        self._look('post', environment)
        return xh.SetupStub.validate_post_setup(self, environment)


class BeforeAssertUser(_Using, xh.BeforeAssertStub):
    def __init__(self, plan, pos, log, uses):
        xh.BeforeAssertStub.__init__(self, plan, pos)
        self._init_using(log, 'before-assert', pos, uses)

    def validate_pre_sds(self, environment):
        self._look('pre', environment)
        return xh.BeforeAssertStub.validate_pre_sds(self, environment)

    def validate_post_setup(self, environment):
        self._look('post', environment)
        return xh.BeforeAssertStub.validate_post_setup(self, environment)

    def main(self, environment, settings, os_services):
        self._look('main', environment)
        return xh.BeforeAssertStub.main(self, environment, settings, os_services)


class AssertUser(_Using, xh.AssertStub):
    def __init__(self, plan, pos, log, uses):
        xh.AssertStub.__init__(self, plan, pos)
        self._init_using(log, 'assert', pos, uses)

    def validate_pre_sds(self, environment):
        self._look('pre', environment)
        return xh.AssertStub.validate_pre_sds(self, environment)

    def validate_post_setup(self, environment):
        self._look('post', environment)
        return xh.AssertStub.validate_post_setup(self, environment)

    def main(self, environment, settings, os_services):
        self._look('main', environment)
        return xh.AssertStub.main(self, environment, settings, os_services)


class CleanupUser(_Using, xh.CleanupStub):
    def __init__(self, plan, pos, log, uses):
        xh.CleanupStub.__init__(self, plan, pos)
        self._init_using(log, 'cleanup', pos, uses)

    def validate_pre_sds(self, environment):
        self._look('pre', environment)
        return xh.CleanupStub.validate_pre_sds(self, environment)

    def main(self, environment, settings, os_services, previous_phase):
        self._look('main', environment)
        return xh.CleanupStub.main(self, environment, settings, os_services, previous_phase)


USER_OF_PHASE = {'setup': SetupUser, 'before-assert': BeforeAssertUser, 'assert': AssertUser, 'cleanup': CleanupUser}


class AtcUser(_Using, xh.AtcStub):
    def __init__(self, plan, log, uses):
        xh.AtcStub.__init__(self, plan)
        self._init_using(log, 'act', 0, uses)

    def validate_pre_sds(self, environment):
        self._look('pre', environment)
        return xh.AtcStub.validate_pre_sds(self, environment)

    def validate_post_setup(self, environment):
        self._look('post', environment)
        return xh.AtcStub.validate_post_setup(self, environment)

    def prepare(self, environment, os_services):
        self._look('prepare', environment)
        return xh.AtcStub.prepare(self, environment, os_services)

    def execute(self, environment, os_services, atc_input, output_files):
        self._look('execute', environment)
        return xh.AtcStub.execute(self, environment, os_services, atc_input, output_files)


def actor_of(atc):
    from exactly_lib.test_case.phases.act.actor import Actor

    class TheActor(Actor):
        def parse(self, instructions):
            return atc

    return TheActor()


def run(sections: dict, atc_uses, log: dict):
    """Runs the REAL executor.  sections: phase -> list of ('def', line) | ('use', (name, type)), in file order."""
    from exactly_lib.section_document.model import SectionContents
    from exactly_lib.test_case import test_case_doc
    plan = xh.Plan(lambda cell: 0)
    contents = {}
    for ph in ('setup', 'before-assert', 'assert', 'cleanup'):
        elements = []
        for i, (kind, x) in enumerate(sections.get(ph, ())):
            if kind == 'def':
                elements.extend(lib.elements_of(ph, x))
            else:
                # position in the section, counted from 1 (the stub at position 0 of [setup] would store a stdin object)
                elements.append(xh.element(USER_OF_PHASE[ph](plan, i + 1, log, x), i + 1, 'use'))
        contents[ph] = SectionContents(tuple(elements))
    tc = test_case_doc.TestCase(SectionContents(()), contents['setup'], xh.section([xh.ActSourceStub()], 'act'),
                                contents['before-assert'], contents['assert'], contents['cleanup'])
    return xh.execute(plan, tc, predefined_symbols=lib.parsing()['builtins'](),
                      actor=actor_of(AtcUser(plan, log, atc_uses)))


# ---------------------------------------------------------------------------- real instructions (whole program)

# The files of the sandbox the instructions below look at: [setup] of every case.
CLI_SETUP = ("file f.txt = 'hello'", 'dir d', 'dir d2', "file d2/g.txt = 'x'")

# (label, type of X, value that makes the assertion hold, value that makes it FAIL (None: the value is observed in the argv
#  of the started process instead), phase of the using instruction, the using instruction, step in which it resolves X)
CLI_USES = (
    ('exists:string-as-path', 'string', 'f.txt', 'missing.txt', 'assert', 'exists @[X]@', 'post'),
    ('exists:string-in-name', 'string', 'f.txt', 'g.txt', 'assert', 'exists f.txt : name @[X]@', 'post'),
    ('exists:list-in-arguments', 'list', 'a b', None, 'assert', 'exists f.txt : run % prog @[X]@', 'post'),
    ('exists:path', 'path', '-rel-act f.txt', '-rel-act missing.txt', 'assert', 'exists @[X]@', 'post'),
    ('exists:path-rel', 'path', '-rel-act d2', '-rel-tmp d2', 'assert', 'exists -rel X g.txt', 'post'),
    ('exists:file-matcher', 'file-matcher', 'type file', 'type dir', 'assert', 'exists f.txt : X', 'post'),
    ('exists:text-matcher', 'text-matcher', '! is-empty', 'is-empty', 'assert', 'exists f.txt : contents X', 'post'),
    ('exists:line-matcher', 'line-matcher', 'contents matches hel', 'contents matches zzz', 'assert',
     'exists f.txt : contents any line : X', 'post'),
    ('exists:integer-matcher', 'integer-matcher', '== 1', '== 7', 'assert', 'exists f.txt : contents num-lines X', 'post'),
    ('exists:text-transformer', 'text-transformer', 'char-case -to-upper', 'char-case -to-lower', 'assert',
     "exists f.txt : contents -transformed-by X equals 'HELLO'", 'post'),
    ('exists:files-matcher', 'files-matcher', 'is-empty', '! is-empty', 'assert', 'exists d : dir-contents X', 'post'),
    ('exists:files-condition', 'files-condition', '{ g.txt }', '{ h.txt }', 'assert', 'exists d2 : dir-contents matches X', 'post'),
    ('exists:program', 'program', '% prog', '% ' + lib.FAILING_PROGRAM, 'assert', 'exists f.txt : run @ X', 'post'),
    ('exists:text-source', 'text-source', "'hello'", "'bye'", 'assert', 'exists f.txt : contents equals @[X]@', 'post'),
    # instructions that resolve the symbol in other steps
    ('exit-code:integer', 'string', '0', '1', 'assert', 'exit-code == @[X]@', 'pre'),
    ('contents:text-matcher', 'text-matcher', '! is-empty', 'is-empty', 'assert', 'contents f.txt : X', 'main'),
    ('dir-contents:files-matcher', 'files-matcher', 'is-empty', '! is-empty', 'assert', 'dir-contents d : X', 'main'),
)
CLI_DEF_PHASES = ('setup', 'before-assert', 'assert')


def cli_text(use: int, dp: int, holds: bool) -> str:
    label, type_, v_true, v_false, uphase, uline, _step = CLI_USES[use]
    secs = {'setup': list(CLI_SETUP), 'act': ['$ true'], 'before-assert': [], 'assert': [], 'cleanup': []}
    secs[CLI_DEF_PHASES[dp]].append('def %s X = %s' % (type_, v_true if holds else v_false))
    secs[uphase].append(uline)
    return ''.join('[%s]\n%s\n' % (ph, '\n'.join(secs[ph])) for ph in lib.EXE_ORDER if secs[ph])
