"""K4 of C07: the real test-case parser on files made of line kinds, with inclusion, on a real directory.

Real code driven: processors._Parser.apply (the glue the program itself uses: test_case_parser.new_parser(...)
.apply + translation of ParseError into ProcessError / AccessorError), hence the real document parser, the real
element parsers of every phase (comment/empty, `including`, optional description, dictionary of instructions),
the real ActPhaseParser and the real file access.

Stand-ins: the instructions `i` (one line) and `m` (lines up to a line EOF) of the five instruction phases:
subclasses of the public InstructionParser / phase instruction classes - the "programs" the property
quantifies over.
"""
import os
import pathlib

from harness import _C07_ref as ref

ROOT = 'main.case'
F1 = 'f1.xly'
F2 = 'sub/f2.xly'
FILE_ORDER = (ROOT, F1, F2)

LINE = {
    'conf': '[conf]', 'setup': '[setup]', 'act': '[act]', 'before-assert': '[before-assert]',
    'assert': '[assert]', 'cleanup': '[cleanup]',
    'unknown': '[nope]', 'malformed': '[setup',
    'comment': '# c', 'blank': '',
    'i': 'i x', 'i-ind': '  i y',
    'm': 'm <<EOF', 'eof': 'EOF',
    'di': '` d ` i z', 'd': '`d`', 'dopen': '` d1', 'dclose': 'd2 ` i w',
    'src': 'act-src', 'esc': '\\[x]', 'esc-ind': ' \\\\y',
    'inc-noarg': 'including', 'inc-2args': 'including f1.xly x',
    'inc:f1': 'including f1.xly', 'inc:f2': 'including sub/f2.xly', 'inc:main': 'including main.case',
    'inc:missing': 'including missing.xly',
    # as written inside sub/f2.xly (paths are relative to the including file)
    'inc:up-f1': 'including ../f1.xly', 'inc:up-main': 'including ../main.case', 'inc:f2-self': 'including f2.xly',
}

HEADERS = ('conf', 'setup', 'act', 'before-assert', 'assert', 'cleanup')

STUB_INSTRUCTIONS = ('instructions `i` (takes the rest of its line) and `m` (takes all lines up to a line EOF, invalid-argument '
                     'error at end of file) in the phases conf, setup, before-assert, assert, cleanup: subclasses of the public '
                     'InstructionParser and phase-instruction classes, each tagged with the phase whose parser created it')

_STATE = {}


# --------------------------------------------------------------------------- slots -> texts

def slots_of(case):
    """-> list of (file, index in file, alternatives) for the symbolic slots, in FILE_ORDER"""
    out = []
    for f in FILE_ORDER:
        for i, spec in enumerate(case['files'].get(f, ())):
            if not isinstance(spec, str):
                out.append((f, i, tuple(spec)))
    return out


def pre(case, ks) -> bool:
    sl = slots_of(case)
    n_perm = len(case['perms']) if case.get('perms') else 0
    for i, k in enumerate(ks):
        if i < len(sl):
            if not (0 <= k < len(sl[i][2])):
                return False
        elif i == len(sl) and n_perm:
            if not (0 <= k < n_perm):
                return False
        elif k != 0:
            return False
    return True


def kinds_of(case, ks):
    """-> dict file -> list of line kinds (concrete after the selectors are applied)"""
    out = {}
    j = 0
    for f in FILE_ORDER:
        if f not in case['files']:
            continue
        kinds = []
        for spec in case['files'][f]:
            if isinstance(spec, str):
                kinds.append(spec)
            else:
                kinds.append(tuple(spec)[int(ks[j])])
                j += 1
        out[f] = kinds
    return out


def text_of(kinds, final_newline: bool) -> str:
    if not kinds:
        return ''
    s = '\n'.join(LINE[k] for k in kinds)
    return s + '\n' if final_newline else s


# --------------------------------------------------------------------------- real parser

def _real_parser():
    if 'parser' not in _STATE:
        from exactly_lib.common import instruction_name_and_argument_splitter
        from exactly_lib.common.instruction_setup import SingleInstructionSetup
        from exactly_lib.processing import processors
        from exactly_lib.processing.instruction_setup import TestCaseParsingSetup, InstructionsSetup
        from exactly_lib.processing.parse.act_phase_source_parser import ActPhaseParser
        from exactly_lib.section_document.element_parsers.instruction_parser_exceptions import \
            SingleInstructionInvalidArgumentException
        from exactly_lib.section_document.element_parsers.section_element_parsers import \
            InstructionParserWithoutSourceFileLocationInfo
        from exactly_lib.test_case.phases.assert_ import AssertPhaseInstruction
        from exactly_lib.test_case.phases.before_assert import BeforeAssertPhaseInstruction
        from exactly_lib.test_case.phases.cleanup import CleanupPhaseInstruction
        from exactly_lib.test_case.phases.configuration import ConfigurationPhaseInstruction
        from exactly_lib.test_case.phases.setup.instruction import SetupPhaseInstruction

        bases = {'conf': ConfigurationPhaseInstruction, 'setup': SetupPhaseInstruction,
                 'before-assert': BeforeAssertPhaseInstruction, 'assert': AssertPhaseInstruction,
                 'cleanup': CleanupPhaseInstruction}

        def instruction_set(phase):
            class StubInstruction(bases[phase]):
                def __init__(self, name, payload):
                    self.stub_phase = phase
                    self.stub_name = name
                    self.stub_payload = payload

            class OneLine(InstructionParserWithoutSourceFileLocationInfo):
                def parse_from_source(self, source):
                    arg = source.remaining_part_of_current_line
                    source.consume_current_line()
                    return StubInstruction('i', arg)

            class MultiLine(InstructionParserWithoutSourceFileLocationInfo):
                def parse_from_source(self, source):
                    source.consume_current_line()
                    body = []
                    while not source.is_at_eof:
                        line = source.current_line_text
                        source.consume_current_line()
                        if line == ref.MULTI_LINE_END:
                            return StubInstruction('m', tuple(body))
                        body.append(line)
                    raise SingleInstructionInvalidArgumentException('missing EOF')

            return {'i': SingleInstructionSetup(OneLine(), None), 'm': SingleInstructionSetup(MultiLine(), None)}

        setup = TestCaseParsingSetup(
            instruction_name_and_argument_splitter.splitter,
            InstructionsSetup(instruction_set('conf'), instruction_set('setup'), instruction_set('before-assert'),
                              instruction_set('assert'), instruction_set('cleanup')),
            ActPhaseParser())
        _STATE['parser'] = processors._Parser(setup)
    return _STATE['parser']


def _dir() -> str:
    if 'dir' not in _STATE:
        from vsym import scratch
        d = scratch.new_dir('c07k4-')
        os.makedirs(os.path.join(d, 'sub'))
        _STATE['dir'] = d
        _STATE['written'] = {}
    return _STATE['dir']


def write_files(texts):
    """every file of FILE_ORDER is (re)written on every call (absent from `texts` = removed)"""
    d = _dir()
    written = _STATE['written']
    for f in FILE_ORDER:
        p = os.path.join(d, f)
        t = texts.get(f)
        if written.get(f) == t:
            continue
        if t is None:
            if os.path.exists(p):
                os.remove(p)
        else:
            with open(p, 'w') as fo:
                fo.write(t)
        written[f] = t
    return d


# --------------------------------------------------------------------------- real outcome, normalised

def _path_of(referred, d):
    return pathlib.Path(d) / ROOT if referred == 'ROOT' else pathlib.Path(referred)


def _chain_of(locations):
    return tuple((loc.file_path_rel_referrer, loc.source.first_line_number, tuple(loc.source.lines)) for loc in locations)


def real_outcome(d: str, root_text: str, parser=None):
    """-> ('ok', dict phase -> list of normalised elements) | ('syntax' | 'file-access', normalised error)"""
    from exactly_lib.processing.test_case_processing import TestCaseFileReference, ProcessError, AccessorError, \
        AccessErrorType
    from exactly_lib.section_document.model import ElementType
    root = pathlib.Path(d) / ROOT
    try:
        tc = (parser or _real_parser()).apply(TestCaseFileReference(root, root.parent), root_text)
    except ProcessError as ex:
        ei = ex.error_info
        slp = ei.source_location_path
        return ('syntax', (slp.location.source.first_line_number, tuple(slp.location.source.lines),
                           slp.location.file_path_rel_referrer, _chain_of(slp.file_inclusion_chain),
                           ei.maybe_section_name))
    except AccessorError as ex:
        if ex.error is not AccessErrorType.FILE_ACCESS_ERROR:
            raise
        ei = ex.error_info
        slp = ei.source_location_path
        return ('file-access', (slp.location.source.first_line_number, tuple(slp.location.source.lines),
                                slp.location.file_path_rel_referrer, _chain_of(slp.file_inclusion_chain),
                                ei.maybe_section_name))
    type_name = {ElementType.EMPTY: ref.EMPTY, ElementType.COMMENT: ref.COMMENT, ElementType.INSTRUCTION: ref.INSTRUCTION}
    out = {}
    for phase, contents in zip(ref.PHASES, tc):
        elems = []
        for el in contents.elements:
            slp = el.source_location_info.source_location_path
            kind = type_name[el.element_type]
            descr = payload = name = tag = None
            if kind == ref.INSTRUCTION:
                ins = el.instruction_info.instruction
                descr = el.instruction_info.description
                if phase == 'act':
                    name, tag = 'act', 'act'
                    payload = tuple(ins.source_code().lines)
                elif hasattr(ins, 'stub_name'):
                    name, tag, payload = ins.stub_name, ins.stub_phase, ins.stub_payload
                else:
                    name = type(ins).__name__
            elif el.instruction_info is not None:
                tag = 'non-instruction element with instruction info'
            elems.append((kind, el.source.first_line_number, tuple(el.source.lines),
                          slp.location.file_path_rel_referrer, _chain_of(slp.file_inclusion_chain),
                          descr, payload, name, tag,
                          # the short-cut `source` and the location record agree
                          slp.location.source is el.source))
        out[phase] = elems
    return ('ok', out)


def expected_outcome(texts, d: str, bug=None):
    def chain(c):
        return tuple((_path_of(f, d), n, (t,)) for (f, n, t) in c)

    try:
        res = ref.read_test_case(texts, ROOT, 'ROOT')
    except ref.DocError as e:
        return (e.kind, (e.first, e.lines, _path_of(e.file, d), chain(e.chain), e.section), e.what, e.alt_lines)
    out = {}
    for phase in ref.PHASES:
        elems = []
        for el in res.get(phase, []):
            tag = None
            if el.type == ref.INSTRUCTION:
                tag = phase
            elems.append((el.type, el.first, el.lines, _path_of(el.file, d), chain(el.chain),
                          el.description, el.payload, el.name, tag, True))
        out[phase] = elems
    if bug == 'include-at-end':
        # seeded oracle error: what an included file contributes comes after everything of the including file
        for phase in ref.PHASES:
            own = [e for e in out[phase] if len(e[4]) == 0]
            inc = [e for e in out[phase] if len(e[4]) != 0]
            out[phase] = own + inc
    if bug == 'act-comment-dropped':
        # seeded oracle error: comment lines are not part of the act phase source
        for i, e in enumerate(out['act']):
            lines = tuple(x for x in e[2] if not ref.is_comment_line(x))
            out['act'][i] = (e[0], e[1], lines, e[3], e[4], e[5], lines, e[7], e[8], e[9])
    return ('ok', out, None, None)


def outcomes_agree(real, exp) -> bool:
    """real = real_outcome(..), exp = expected_outcome(..)"""
    if real[0] != exp[0]:
        return False
    if real[0] == 'ok':
        return real[1] == exp[1]
    r, e, alt = real[1], exp[1], exp[3]
    if r == e:
        return True
    # an instruction that fails on its arguments: the report starts on the instruction's line and carries the
    # text the instruction consumed, from the instruction name on, or just the whole first line
    return alt is not None and r[0] == e[0] and r[2:] == e[2:] and r[1] == alt


def contents_by_phase(real_ok):
    """per phase, what the elements say without where they stand (no line numbers): for the permutation relation"""
    return {phase: [(e[0], e[2], e[3], e[4], e[5], e[6], e[7], e[8]) for e in elems if e[0] == ref.INSTRUCTION]
            for phase, elems in real_ok.items()}


# --------------------------------------------------------------------------- K7: the instructions of exactly_lib itself

LINE7 = {
    'conf': '[conf]', 'setup': '[setup]', 'act': '[act]', 'before-assert': '[before-assert]',
    'assert': '[assert]', 'cleanup': '[cleanup]',
    'blank': '', 'comment': '# c',
    'dir-ok': 'dir d', 'env-ok': 'env X = v', 'shell': '$ echo a', 'nosuch': 'nosuch x',
    # instructions whose last, mandatory argument is missing on the line
    'file': 'file', 'dir': 'dir', 'cd': 'cd', 'file=': 'file a.txt =', 'env=': 'env X =', 'def=': 'def string S =',
    'timeout': 'timeout', 'exit-code==': 'exit-code ==', 'run': 'run', 'copy': 'copy',
}
OPEN_ENDED = ('file', 'dir', 'cd', 'file=', 'env=', 'def=', 'timeout', 'exit-code==', 'run', 'copy')


def default_parser():
    """processors._Parser with the instruction set of the program itself"""
    if 'default-parser' not in _STATE:
        from exactly_lib.cli_default.program_modes.test_case import default_instructions_setup
        from exactly_lib.common import instruction_name_and_argument_splitter
        from exactly_lib.processing import processors
        from exactly_lib.processing.instruction_setup import TestCaseParsingSetup
        from exactly_lib.processing.parse.act_phase_source_parser import ActPhaseParser
        _STATE['default-parser'] = processors._Parser(TestCaseParsingSetup(
            instruction_name_and_argument_splitter.splitter, default_instructions_setup.INSTRUCTIONS_SETUP, ActPhaseParser()))
    return _STATE['default-parser']


def instructions_of(outcome):
    """the outcome restricted to what the property speaks about: per phase the instruction elements
    (type, first line, lines, file, chain, description, class of the instruction)"""
    if outcome[0] != 'ok':
        return outcome
    return ('ok', {ph: [e[:6] + (e[7],) for e in els if e[0] == ref.INSTRUCTION] for ph, els in outcome[1].items()})


def shift(outcome, offset: int):
    """the outcome of a block that stands `offset` lines further down in the file"""
    if outcome[0] != 'ok':
        e = outcome[1]
        return (outcome[0], (e[0] + offset,) + e[1:])
    return ('ok', {ph: [(e[0], e[1] + offset) + e[2:] for e in els] for ph, els in outcome[1].items()})


def compose(block_outcomes):
    """Reference reading of a file made of blocks, each beginning with a phase header: a header line always
    begins a new block, so the file reads as its blocks read one by one (the first erroneous block gives the error)."""
    total = {ph: [] for ph in ref.PHASES}
    for o in block_outcomes:
        if o[0] != 'ok':
            return o
        for ph in ref.PHASES:
            total[ph] += o[1][ph]
    return ('ok', total)


def in_region_header_swallowed(blocks) -> bool:
    """known finding C07-header-swallowed-by-instruction: in a phase other than act and conf, an instruction whose last
    mandatory argument is missing on its line is followed - after any number of blank and comment lines - by the
    header line of the next block"""
    for b in blocks[:-1]:
        if b[0] in ('act', 'conf'):
            continue  # (none of the instructions of LINE7 exists in conf)
        body = list(b[1:])
        while body and body[-1] in ('blank', 'comment'):
            body.pop()
        if body and body[-1] in OPEN_ENDED:
            return True
    return False
