from vsym import ob
from vsym.ob import Ob
PROPERTY='C07'
A='a \n'
def _in(s):
    for ch in s:
        if ch not in A: return False
    return True
def _pre(s, n):
    c = ob.case()
    if c.get('allpre'):
        return len(s) == c['len'] and all(ch in A for ch in s) and 0 <= n
    if c.get('bounded'):
        return len(s) == c['len'] and _in(s) and 0 <= n <= c['len'] + 1
    return len(s) == c['len'] and _in(s) and n >= 0

def f(s: str, n: int) -> bool:
    """
    pre: _pre(s, n)
    post: _
    """
    from exactly_lib.section_document.parse_source import ParseSource
    c = ob.case()
    v = c['v']
    if v == 'init':
        ps = ParseSource(s)
        return ob.post(ps.current_line_number == 1)
    if v == 'count':
        k = s.count('\n', 0, n)
        return ob.post(k >= 0)
    if v == 'rindex':
        try:
            k = s.rindex('\n', 0, n)
        except ValueError:
            k = 0
        return ob.post(k >= 0)
    if v == 'consume':
        ps = ParseSource(s)
        try:
            ps.consume(n)
        except ValueError:
            pass
        return ob.post(True)
    if v == 'consume-col':
        ps = ParseSource(s)
        try:
            ps.consume(n)
        except ValueError:
            return ob.post(n > len(s))
        return ob.post(ps.column_index >= 0)

def obligations(tier):
    out=[]
    for v in ('init','count','rindex','consume','consume-col'):
        for L in (2,3,4):
            for mode in ('plain','bounded','allpre'):
                out.append(Ob(name='%s:%d:%s'%(v,L,mode), fn='f', case={'v':v,'len':L,mode:True}, timeout=100))
    return out
