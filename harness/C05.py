"""C05  Text assertions and text transformers mean what the reference manual says.

DRAFT (being developed)
"""
from typing import List

from vsym import ob
from vsym.ob import Ob
from harness import _C05_lib as L

PROPERTY = 'C05'


def _us(u0, u1, u2, u3, u4):
    return (u0, u1, u2, u3, u4)


def _pre_common(s, e, k0, k1, u0, u1, u2, u3, u4) -> bool:
    c = ob.case()
    tree = c['tree']
    if len(s) > c['maxlen']:
        return False
    if not L.in_alphabet(s, c.get('alphabet', L.ALPHABET)):
        return False
    if L.uses(tree, 'E'):
        if len(e) > c.get('maxlen_e', c['maxlen']):
            return False
        if not L.in_alphabet(e, c.get('alphabet_e', c.get('alphabet', L.ALPHABET))):
            return False
    elif e != '':
        return False
    if not L.uses(tree, 'numlines') and k0 != 0:
        return False
    if not L.uses(tree, 'linenum') and k1 != 0:
        return False
    us = _us(u0, u1, u2, u3, u4)
    nu = c['maxlen'] if L.uses(tree, 'U') else 0
    for i in range(5):
        if i >= nu and us[i]:
            return False
    return True


def km_matcher(s: str, e: str, k0: int, k1: int, u0: bool, u1: bool, u2: bool, u3: bool, u4: bool) -> bool:
    """
    pre: _pre_common(s, e, k0, k1, u0, u1, u2, u3, u4)
    post: _
    """
    c = ob.case()
    tree = c['tree']
    env = L.Env(e, k0, k1, _us(u0, u1, u2, u3, u4))
    matcher = L.real_matcher(tree, env)
    real = matcher.matches_w_trace(L.text_model(s)).value
    expected = L.ref_matcher(c.get('ref_tree', tree), s, env)
    return ob.post(real == expected)


def kt_transformer(s: str, e: str, k0: int, k1: int, u0: bool, u1: bool, u2: bool, u3: bool, u4: bool) -> bool:
    """
    pre: _pre_common(s, e, k0, k1, u0, u1, u2, u3, u4)
    post: _
    """
    c = ob.case()
    tree = c['tree']
    env = L.Env(e, k0, k1, _us(u0, u1, u2, u3, u4))
    transformer = L.real_transformer(tree, env)
    out = transformer.transform(L.text_model(s))
    with out.contents().as_lines as lines:
        real_lines = list(lines)
    real_str = out.contents().as_str
    expected = L.ref_transformer(c.get('ref_tree', tree), s, env)
    return ob.post(real_str == expected and real_lines == L.ref_lines(expected))


def obligations(tier: str) -> List[Ob]:
    n = 4 if tier == 'quick' else 5
    obs = []

    def m(name, tree, **kw):
        case = dict(tree=tree, maxlen=kw.pop('maxlen', n))
        case.update(kw.pop('case', {}))
        obs.append(Ob(name=name, fn='km_matcher', case=case, kernel=name.split(':')[0],
                      bound='|s| <= %d' % case['maxlen'], timeout=kw.pop('timeout', 300), **kw))

    def t(name, tree, **kw):
        case = dict(tree=tree, maxlen=kw.pop('maxlen', n))
        case.update(kw.pop('case', {}))
        obs.append(Ob(name=name, fn='kt_transformer', case=case, kernel=name.split(':')[0],
                      bound='|s| <= %d' % case['maxlen'], timeout=kw.pop('timeout', 300), **kw))

    A = ''.join(chr(i) for i in range(32, 127)) + '\t\n'
    m('K1:is-empty', ('empty',))
    m('K1:is-empty-ascii', ('empty',), case=dict(alphabet=A))
    m('K1:num-lines==', ('numlines', '=='))
    m('K1:num-lines==ascii', ('numlines', '=='), case=dict(alphabet=A))
    t('K5:strip', ('strip',))
    t('K5:strip-ascii', ('strip',), case=dict(alphabet=A))
    t('K5:grep-a', ('grep', 'a'))
    t('K5:grep-a-ascii', ('grep', 'a'), case=dict(alphabet=A))
    t('K5:replace-[ab]+-X-3', ('replace', False, None, '[ab]+', 'X'), maxlen=3)
    t('K5:replace-[ab]+-X-3-ascii', ('replace', False, None, '[ab]+', 'X'), maxlen=3, case=dict(alphabet=A))
    m('K1:equals-3x3', ('equals',), maxlen=3)
    m('K1:equals-3x3-ascii', ('equals',), maxlen=3, case=dict(alphabet=A))
    return obs
