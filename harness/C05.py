"""C05  Text assertions and text transformers mean what the reference manual says.

All texts are in-memory texts (the `ContentsOfStr`-backed StringSource exactly_lib makes for a
string literal) holding a SYMBOLIC str.  Matchers and transformers are obtained from the REAL
parsers on concrete syntax; operands are symbol references / integer placeholders bound to
symbolic values, so the production object graph sdv -> ddv -> adv -> primitive is what runs.

Kernels
  K1  primitive matchers and the logical operators: is-empty, equals, matches [-full] (regex
      family), num-lines OP K0, !, &&, ||                     real verdict == documented predicate
  K2  every / any line : LINE-MATCHER (line matcher of unknown class with a symbolic verdict per
      line, line-num OP K1, contents STRING-MATCHER, combinations)
  K3  `equals`: the three comparison strategies of _ApplierWExtDepsCases that do not need a file
      system (no / only-actual / only-expected external dependencies, symbolic flags), incl. the
      read-ahead short cut of read_lines_as_str__w_minimum_num_chars
  K4  `replace` with an UNINTERPRETED regex substitution: (a) _lines_iterator_from_replacements
      re-divides arbitrary per-line results exactly at new-line, (b) through the real parser with a
      stub compiled pattern: which lines are substituted (-at), with which arguments
      (-preserve-new-lines), and how the output is assembled
  K5  transformers through the real parser, output text and its division into lines:
      identity, strip (3 variants), char-case, replace (real `re`, literal replacement),
      filter, grep
  K6  composition: T | T (= left to right), -transformed-by T M, nested
  K8  every resolving of a parsed object is independent of earlier ones, and a resolved object
      keeps no state between applications: ONE parsed matcher / transformer (as the instructions
      of a suite file are parsed once and run by every case) is resolved twice with different
      symbol values (regex, replacement, expected text, integers, line matcher), and each
      resolved object is applied to two texts, interleaved
  K9  compositions nested in compositions: a `|` sequence as a member of another one - inside
      parentheses, behind a `text-transformer` symbol, or as one of the transformers attached to a
      program one `-transformed-by` after the other - with a SYMBOLIC choice of every member from a
      catalogue that contains `identity` (so `identity` stands at every position of the inner and
      of the outer sequence, alone and together with non-identity members): output == the members
      applied one after the other, left to right; and the derived attribute
      `is_identity_transformer` (consulted by enclosing sequences and by the sites that attach a
      transformer to a program to skip work) is true only if the documented meaning is the
      identity, and is true if every member is `identity`
  K7  the assertion part shared by the instructions `contents`, `stdout`, `stderr`
      (StringMatcherAssertionPart): PASS exactly when the documented predicate holds, FAIL otherwise
"""
from typing import List

from vsym import ob
from vsym.ob import Ob
from harness import _C05_lib as L

PROPERTY = 'C05'

_P = 'exactly_lib.impls.types.'
REAL_PARSE_M = (
    _P + 'string_matcher.parse_string_matcher.parsers',
    _P + 'expression.parser._Parser',
    _P + 'string_source.constant_str.string_source',
    _P + 'string_source.contents.contents_of_str.ContentsOfStr',
)
REAL_PARSE_T = (
    _P + 'string_transformer.parse_string_transformer.parsers',
    _P + 'expression.parser._Parser',
    _P + 'string_source.constant_str.string_source',
    _P + 'string_source.contents.contents_of_str.ContentsOfStr',
    'exactly_lib.type_val_prims.string_source.impls.transformed_string_sources.TransformedStringSourceFromLines',
    'exactly_lib.type_val_prims.string_source.impls.transformed_string_sources._TransformedStringSourceContentsFromLines',
)
REAL_OF = {
    'empty': (_P + 'string_matcher.impl.emptiness.EmptinessStringMatcher',),
    'equals': (_P + 'string_matcher.impl.equality._EqualityStringMatcher',
               _P + 'string_matcher.impl.equality._ApplierWExtDepsCases',
               _P + 'string_matcher.parse.equality.EqualsParser',
               _P + 'string_source.parse._ReferenceOrStringParser'),
    'matches': (_P + 'string_matcher.impl.matches.sdv',
                _P + 'string_matcher.impl.matches._PropertyGetter',
                _P + 'string_matcher.parse.matches.parse',
                _P + 'matcher.impls.matches_regex.MatchesRegex',
                _P + 'regex.parse_regex.ParserOfRegex',
                _P + 'regex.parse_regex._ValidatorWhichCreatesRegex'),
    'numlines': (_P + 'string_matcher.impl.num_lines._PropertyGetter',
                 _P + 'string_matcher.impl.num_lines.sdv',
                 _P + 'matcher.property_matcher.PropertyMatcher',
                 _P + 'matcher.impls.comparison_matcher.ComparisonMatcher.matches_w_trace'),
    'every': (_P + 'string_matcher.impl.line_matchers._get_line_elements',
              _P + 'matcher.impls.quantifier_matchers.ForAll',
              _P + 'matcher.impls.quantifier_matchers._QuantifierBase.matches_w_trace',
              _P + 'line_matcher.model_construction.model_iter_from_file_line_iter'),
    'any': (_P + 'string_matcher.impl.line_matchers._get_line_elements',
            _P + 'matcher.impls.quantifier_matchers.Exists',
            _P + 'matcher.impls.quantifier_matchers._QuantifierBase.matches_w_trace',
            _P + 'line_matcher.model_construction.model_iter_from_file_line_iter'),
    'contents': (_P + 'line_matcher.impl.contents.parse._LineContentsMatcher',
                 _P + 'line_matcher.impl.contents.parse._Parser'),
    'linenum': (_P + 'line_matcher.impl.line_number.parse_line_number',),
    'not': (_P + 'matcher.impls.combinator_matchers.Negation',),
    'and': (_P + 'matcher.impls.combinator_matchers.Conjunction',),
    'or': (_P + 'matcher.impls.combinator_matchers.Disjunction',),
    'on': (_P + 'string_matcher.impl.on_transformed.StringMatcherWithTransformation',
           _P + 'string_matcher.parse_string_matcher._parse_on_transformed'),
    'identity': (_P + 'string_transformer.impl.identity.IdentityStringTransformer',),
    'strip': (_P + 'string_transformer.impl.strip_space._strip_space',
              _P + 'string_transformer.impl.strip_space.Parser'),
    'strip-ts': (_P + 'string_transformer.impl.strip_space._strip_trailing_space',
                 _P + 'string_transformer.impl.strip_space.Parser'),
    'strip-tnl': (_P + 'string_transformer.impl.strip_space._strip_trailing_new_lines',
                  _P + 'string_transformer.impl.strip_space.Parser'),
    'upper': (_P + 'string_transformer.impl.case_converters._CaseConverter',
              _P + 'string_transformer.impl.case_converters.Parser'),
    'lower': (_P + 'string_transformer.impl.case_converters._CaseConverter',
              _P + 'string_transformer.impl.case_converters.Parser'),
    'replace': (_P + 'string_transformer.impl.replace.impl._ReplaceStringTransformer',
                _P + 'string_transformer.impl.replace.impl._lines_iterator_from_replacements',
                _P + 'string_transformer.impl.replace.impl._StrReplacerIncludingNewLines',
                _P + 'string_transformer.impl.replace.impl._StrReplacerExcludingNewLines',
                _P + 'string_transformer.impl.replace.impl._ReplacerWLineMatcherSelector',
                _P + 'string_transformer.impl.replace.impl._ReplacerApplierWLineMatcherSelector',
                _P + 'string_transformer.impl.replace.impl._ReplacerApplierWoLineMatcherSelector',
                _P + 'string_transformer.impl.replace.setup.ParserOfReplace',
                _P + 'line_matcher.model_construction.original_and_model_iter_from_file_line_iter',
                _P + 'regex.parse_regex._ValidatorWhichCreatesRegex'),
    'filter': (_P + 'string_transformer.impl.filter.line_matcher._FilterByLineMatcher',
               _P + 'string_transformer.impl.filter.line_matcher._ContentsViaAsLines',
               _P + 'string_transformer.impl.filter.parse.Parser',
               _P + 'line_matcher.line_nums_interval.interval_of_matcher',
               _P + 'line_matcher.model_construction.original_and_model_iter_from_file_line_iter__interval',
               _P + 'line_matcher.model_construction._lines_interval'),
    'grep': (_P + 'string_transformer.impl.filter.line_matcher._FilterByLineMatcher',
             _P + 'string_transformer.impl.filter.parse.GrepShortcutParser',
             _P + 'line_matcher.impl.contents.parse._LineContentsMatcher',
             _P + 'matcher.impls.matches_regex.MatchesRegex'),
    'seq': (_P + 'string_transformer.impl.sequence.SequenceStringTransformer',
            _P + 'string_transformer.impl.sequence_sdv.StringTransformerSequenceSdv'),
    'ref': (_P + 'string_transformer.sdvs.StringTransformerSdvReference',
            'exactly_lib.type_val_deps.sym_ref.symbol_lookup.lookup_string_transformer'),
    'attach': (_P + 'string_transformer.sequence_resolving.resolve',
               _P + 'string_transformer.impl.sequence.SequenceStringTransformer'),
    'attach-ddv': (_P + 'string_transformer.sequence_resolving_ddv.resolve',
                   _P + 'string_transformer.impl.sequence.StringTransformerSequenceDdv',
                   _P + 'string_transformer.impl.sequence.SequenceStringTransformer'),
}

REAL_K7 = (
    'exactly_lib.impls.instructions.assert_.utils.file_contents.parts.string_matcher_assertion_part.StringMatcherAssertionPart',
    'exactly_lib.impls.instructions.assert_.utils.assertion_part.AssertionPart.check_and_return_pfh',
    'exactly_lib.impls.instructions.assert_.utils.file_contents.parse_file_contents_assertion_part.parse',
    'exactly_lib.impls.instructions.utils.logic_type_resolving_helper.resolving_helper_for_instruction_env',
)

REAL_K8 = (
    'exactly_lib.impls.types.regex.parse_regex._RegexSdv',
    'exactly_lib.impls.types.regex.parse_regex._RegexDdv',
    'exactly_lib.type_val_deps.types.string_.string_sdv.StringSdv',
    'exactly_lib.impls.types.matcher.impls.sdv_components.MatcherSdvFromParts',
)

STUB_INT = 'python_evaluate -> placeholder table (integer literal K_i denotes the symbolic integer k_i)'
STUB_U = 'line matcher of a class unknown to exactly_lib, bound to the symbol U; its verdict on line n is the symbolic bool u[n-1]'
STUB_X = ('text transformers of a class unknown to exactly_lib (public base class only, is_identity_transformer not '
          'overridden) bound to the symbols X<i>: the output of X<i> is its input followed by the i:th of the characters '
          'W, X, Y, Z (one distinct mark per position, so that the order, the omission and the repetition of a member '
          'are all visible in the output)')
STUB_UNTRACED = ('the real objects are parsed, resolved and constructed with CrossHair\'s tracing suspended after the '
                 'member selectors have been made concrete (no symbolic value takes part); the transformation of '
                 'the symbolic text runs traced')
STUB_TMP = 'tmp-file space that refuses to be used (in-memory texts must not touch the file system)'
STUB_SRC = ('texts of a StringSource class unknown to exactly_lib (public base classes only) with a symbolic '
            'may_depend_on_external_resources flag; as_file is an object whose open() iterates the lines')
STUB_RE = ('parse_regex.re.compile -> stub compiled pattern whose sub(repl, string) is uninterpreted: the i:th call '
           'returns the symbolic string r_i and records its arguments')

OUT_SRC = 'texts that are files or program output (C boundary; their division into lines is the subject of C14)'
OUT_RE = ('the semantics of `re` itself: the regex family has a hand-written meaning that is compared with `re` '
          'concretely by the self-test; under analysis CrossHair\'s model of `re` is trusted')
OUT_UNI = ('characters outside the stated alphabet, in particular the line separators other than new-line that '
           'str.splitlines honours (C14) and non-ASCII case mappings')


def _reals(tree, acc=None):
    acc = acc if acc is not None else []
    if isinstance(tree, tuple):
        for q in REAL_OF.get(tree[0], ()):
            if q not in acc:
                acc.append(q)
        for x in tree[1:]:
            _reals(x, acc)
    return acc


# --------------------------------------------------------------------------- K1 K2 K5 K6

def _us(u0, u1, u2, u3, u4):
    return (u0, u1, u2, u3, u4)


def _pre_common(s, e, k0, k1, u0, u1, u2, u3, u4) -> bool:
    c = ob.case()
    tree = c['tree']
    if len(s) > c['maxlen']:
        return False
    if not L.in_alphabet(s, c['alphabet']):
        return False
    if L.uses(tree, 'E'):
        if len(e) > c['maxlen_e']:
            return False
        if not L.in_alphabet(e, c['alphabet_e']):
            return False
    elif e != '':
        return False
    if not L.uses(tree, 'numlines') and k0 != 0:
        return False
    if not L.uses(tree, 'linenum') and k1 != 0:
        return False
    us = _us(u0, u1, u2, u3, u4)
    nu = c['maxlen'] if L.uses(tree, 'U') else 0
    for i in range(5):
        if i >= nu and us[i]:
            return False
    return True


def km_matcher(s: str, e: str, k0: int, k1: int, u0: bool, u1: bool, u2: bool, u3: bool, u4: bool) -> bool:
    """
    pre: _pre_common(s, e, k0, k1, u0, u1, u2, u3, u4)
    post: _
    """
    c = ob.case()
    tree = c['tree']
    env = L.Env(e, k0, k1, _us(u0, u1, u2, u3, u4))
    matcher = L.real_matcher(tree, env)
    real = matcher.matches_w_trace(L.text_model(s)).value
    expected = L.ref_matcher(c.get('ref_tree', tree), s, env)
    return ob.post(real == expected)


def kt_transformer(s: str, e: str, k0: int, k1: int, u0: bool, u1: bool, u2: bool, u3: bool, u4: bool) -> bool:
    """
    pre: _pre_common(s, e, k0, k1, u0, u1, u2, u3, u4)
    post: _
    """
    c = ob.case()
    tree = c['tree']
    env = L.Env(e, k0, k1, _us(u0, u1, u2, u3, u4))
    transformer = L.real_transformer(tree, env)
    out = transformer.transform(L.text_model(s))
    with out.contents().as_lines as lines:
        real_lines = list(lines)
    real_str = out.contents().as_str
    expected = L.ref_transformer(c.get('ref_tree', tree), s, env)
    return ob.post(L.same_str(real_str, expected) and L.same_lines(real_lines, L.ref_lines(expected)))


# --------------------------------------------------------------------------- K7

def k7_assertion(s: str, e: str, k0: int, k1: int, u0: bool, u1: bool, u2: bool, u3: bool, u4: bool) -> bool:
    """
    pre: _pre_common(s, e, k0, k1, u0, u1, u2, u3, u4)
    post: _
    """
    import pathlib
    from vsym import xly
    from exactly_lib.impls.instructions.assert_.utils.file_contents.parts.string_matcher_assertion_part import \
        StringMatcherAssertionPart
    from exactly_lib.impls.types.string_matcher import parse_string_matcher
    from exactly_lib.test_case.phases.instruction_environment import InstructionEnvironmentForPostSdsStep, \
        TmpFileStorage
    from exactly_lib.test_case.result.pfh import PassOrFailOrHardErrorEnum
    c = ob.case()
    tree = c['tree']
    env = L.Env(e, k0, k1, _us(u0, u1, u2, u3, u4))
    xly.install_int_placeholders([env.k0, env.k1])
    sdv = xly.parse_cached('string-matcher', parse_string_matcher.parsers(False).full, L.render_matcher(tree))
    instruction_env = InstructionEnvironmentForPostSdsStep(
        None, None, None,
        TmpFileStorage(pathlib.Path('/nonexistent-vsym-c05'), lambda p: L.app_env().tmp_files_space),
        L.symbols(env), 2 ** 10)
    result = StringMatcherAssertionPart(sdv).check_and_return_pfh(instruction_env, None, L.text_model(s))
    holds = L.ref_matcher(c.get('ref_tree', tree), s, env)
    expected = PassOrFailOrHardErrorEnum.PASS if holds else PassOrFailOrHardErrorEnum.FAIL
    return ob.post(result.status is expected)


# --------------------------------------------------------------------------- K9

def _pre_k9(s, by_ref, m0, m1, m2, m3) -> bool:
    c = ob.case()
    if len(s) > c['maxlen'] or not L.in_alphabet(s, c['alphabet']):
        return False
    ms = (m0, m1, m2, m3)
    for i in range(4):
        if i < c['n']:
            if ms[i] < 0 or ms[i] >= len(c['members']):
                return False
        elif ms[i] != 0:
            return False
    if by_ref and not c['leaf_symbols']:
        return False
    return True


def k9_nested_composition(s: str, by_ref: bool, m0: int, m1: int, m2: int, m3: int) -> bool:
    """
    pre: _pre_k9(s, by_ref, m0, m1, m2, m3)
    post: _
    """
    c = ob.case()
    n = c['n']
    # which transformer stands at each position: symbolic selectors, made concrete (the syntax must be concrete)
    members = [ob.pick(c['members'], m) for m in (m0, m1, m2, m3)[:n]]
    # ('X',) = the transformer of unknown class of this position: appends the character marks[i] (all different)
    members = [('X', i) if members[i] == ('X',) else members[i] for i in range(n)]
    if ob.concrete_bool(by_ref):
        # every member is written as a reference to a text-transformer symbol M<i> defined as the member
        leaves = [('ref', 'M%d' % i, members[i]) for i in range(n)]
    else:
        leaves = members
    tree = L.instantiate(c['shape'], leaves)
    env = L.Env(marks=c['marks'])
    if c['untraced_build']:
        # every selector is concrete by now and the members have no symbolic operand: parsing, resolving and
        # constructing the REAL objects involves no symbolic value - done with CrossHair's tracing suspended
        with L.untraced():
            transformer = L.real_transformer(tree, env)
            says_identity = transformer.is_identity_transformer
    else:
        transformer = L.real_transformer(tree, env)
        says_identity = transformer.is_identity_transformer
    out = transformer.transform(L.text_model(s))
    with out.contents().as_lines as lines:
        real_lines = list(lines)
    real_str = out.contents().as_str
    # the documented meaning of `|`: the output of the transformer to the left is the input of the one to the
    # right - however the members are grouped by parentheses / symbols / attachment
    bug = c.get('oracle_bug')
    expected = s
    for member in (reversed(members) if bug == 'order' else members):
        expected = L.ref_transformer(member, expected, env)
    output_ok = L.same_str(real_str, expected) and L.same_lines(real_lines, L.ref_lines(expected))
    # the derived attribute: who consults it leaves the text as it is
    every_member_is_identity = True
    some_member_is_identity = False
    for member in members:
        if L.ref_is_identity(member):
            some_member_is_identity = True
        else:
            every_member_is_identity = False
    if bug == 'attribute':
        attribute_ok = bool(says_identity) == some_member_is_identity
    else:
        # only the sound direction: a transformer that SAYS it is the identity must denote the identity.  (The converse -
        # every member is `identity` => the attribute is set - is an optimisation, not behaviour a user can observe; demanding
        # it would be more than the property states.)
        attribute_ok = (not says_identity or L.same_str(expected, s))
    return ob.post(output_ok and attribute_ok)


# --------------------------------------------------------------------------- K8

def _pre_k8(s1, s2, e1, e2, ka, kb, ua, ub) -> bool:
    c = ob.case()
    tree = c['tree']
    for s in (s1, s2):
        if len(s) > c['maxlen'] or not L.in_alphabet(s, c['alphabet']):
            return False
    if L.uses(tree, 'E'):
        for e in (e1, e2):
            if len(e) > c['maxlen_e'] or len(e) < c['minlen_e'] or not L.in_alphabet(e, c['alphabet_e']):
                return False
    elif e1 != '' or e2 != '':
        return False
    if not (L.uses(tree, 'numlines') or L.uses(tree, 'linenum')) and (ka != 0 or kb != 0):
        return False
    if not L.uses(tree, 'U') and (ua or ub):
        return False
    return True


def _k8_agrees(is_m, primitive, tree, s, env) -> bool:
    if is_m:
        return primitive.matches_w_trace(L.text_model(s)).value == L.ref_matcher(tree, s, env)
    out = primitive.transform(L.text_model(s))
    with out.contents().as_lines as lines:
        real_lines = list(lines)
    expected = L.ref_transformer(tree, s, env)
    return L.same_str(out.contents().as_str, expected) and L.same_lines(real_lines, L.ref_lines(expected))


def k8_independent_resolvings(s1: str, s2: str, e1: str, e2: str, ka: int, kb: int, ua: bool, ub: bool) -> bool:
    """
    pre: _pre_k8(s1, s2, e1, e2, ka, kb, ua, ub)
    post: _
    """
    # ONE parsed object (as an instruction of a suite file is parsed once), resolved for two "test cases"
    # with different symbol tables, each resolved primitive applied to two texts, interleaved
    c = ob.case()
    tree = c['tree']
    is_m = c['is_matcher']
    env1 = L.Env(e1, ka, ka, (ua,) * 5)
    env2 = L.Env(e2, kb, kb, (ub,) * 5)
    sdv = L.parse_fresh(tree, is_m)
    p1 = L.resolve(sdv, env1)
    ok = _k8_agrees(is_m, p1, tree, s1, env1)
    p2 = L.resolve(sdv, env2)
    ok2 = _k8_agrees(is_m, p2, tree, s2, env1 if c.get('oracle_bug') else env2)
    ok3 = _k8_agrees(is_m, p2, tree, s1, env2)  # the same primitive on a second text
    ok4 = _k8_agrees(is_m, p1, tree, s2, env1)  # the first resolving still denotes the first case's values
    return ob.post(ok and ok2 and ok3 and ok4)


# --------------------------------------------------------------------------- K3

def _pre_k3(e, s, dep_e, dep_a) -> bool:
    c = ob.case()
    if len(e) > c['maxlen_e'] or len(s) > c['maxlen']:
        return False
    if not (L.in_alphabet(e, c['alphabet']) and L.in_alphabet(s, c['alphabet'])):
        return False
    if dep_e and dep_a:
        # file-file comparison (filecmp on two real files): C14-K3
        return False
    return True


def k3_equality(e: str, s: str, dep_e: bool, dep_a: bool) -> bool:
    """
    pre: _pre_k3(e, s, dep_e, dep_a)
    post: _
    """
    from exactly_lib.impls.types.string_matcher.impl import equality
    from exactly_lib.type_val_deps.dep_variants.ddv import ddv_validators, ddv_validation
    c = ob.case()
    pad = c.get('pad', '')
    expected_text = e
    actual_text = s[:1] + pad + s[1:] if pad else s
    log_e, log_a = [], []
    expected = L.stub_string_source(expected_text, dep_e, log_e)
    actual = L.stub_string_source(actual_text, dep_a, log_a)
    validator = ddv_validators.FixedPreOrPostSdsValidator(None, ddv_validation.ConstantDdvValidator.new_success())
    matcher = equality._EqualityStringMatcher(expected, validator)
    real = matcher.matches_w_trace(actual).value
    if c.get('oracle_bug'):
        # seeded oracle error: a text that merely starts with the expected text is accepted
        return ob.post(real == L.same_str(actual_text[:len(expected_text)], expected_text))
    return ob.post(real == L.same_str(expected_text, actual_text))


# --------------------------------------------------------------------------- K4

def _pre_k4a(r0, r1, r2) -> bool:
    c = ob.case()
    rs = (r0, r1, r2)
    for i in range(3):
        if i < c['n']:
            if len(rs[i]) > c['maxlen_r'] or not L.in_alphabet(rs[i], 'a\n'):
                return False
        elif rs[i] != '':
            return False
    return True


def k4a_redivide(r0: str, r1: str, r2: str) -> bool:
    """
    pre: _pre_k4a(r0, r1, r2)
    post: _
    """
    from exactly_lib.impls.types.string_transformer.impl.replace import impl
    c = ob.case()
    n = c['n']
    rs = [r0, r1, r2][:n]
    out = list(impl._lines_iterator_from_replacements(lambda i: rs[i], iter(range(n))))
    whole = ''.join(rs)
    if c.get('oracle_bug'):
        # seeded oracle error: a final line without new-line is dropped
        return ob.post(L.same_lines(out, [x for x in L.ref_lines(whole) if x.endswith('\n')]))
    return ob.post(L.same_lines(out, L.ref_lines(whole)))


def _pre_k4b(s, e, r0, r1, r2, u0, u1, u2) -> bool:
    c = ob.case()
    if len(s) > c['maxlen'] or not L.in_alphabet(s, c['alphabet']):
        return False
    if len(e) > 1 or not L.in_alphabet(e, 'a\n'):
        return False
    rs = (r0, r1, r2)
    us = (u0, u1, u2)
    for i in range(3):
        if i >= c['maxlen']:
            # a text of <= maxlen characters has <= maxlen lines: later results / verdicts are never asked for
            if rs[i] != '' or us[i]:
                return False
        elif len(rs[i]) > c['maxlen_r'] or not L.in_alphabet(rs[i], 'a\n'):
            return False
    if c['at'] is None and (u0 or u1 or u2):
        return False
    return True


def _same_calls(xs, ys) -> bool:
    if len(xs) != len(ys):
        return False
    for i in range(len(xs)):
        if not (L.same_str(xs[i][0], ys[i][0]) and L.same_str(xs[i][1], ys[i][1])):
            return False
    return True


def k4b_replace_uninterpreted(s: str, e: str, r0: str, r1: str, r2: str, u0: bool, u1: bool, u2: bool) -> bool:
    """
    pre: _pre_k4b(s, e, r0, r1, r2, u0, u1, u2)
    post: _
    """
    c = ob.case()
    preserve = c['preserve']
    at = c['at']
    env = L.Env(e, 0, 0, (u0, u1, u2, False, False))
    rs = [r0, r1, r2, '', '']
    calls = []
    L.install_stub_regex(rs, calls)
    try:
        tree = ('replace', preserve, at, 'RX', 'E')
        transformer = L.real_transformer(tree, env)
        out = transformer.transform(L.text_model(s))
        with out.contents().as_lines as lines:
            real_lines = list(lines)
    finally:
        L.uninstall_stub_regex()
    # reference: the documented behaviour, with the same uninterpreted substitution
    exp_calls = []
    exp_out = []
    n = 0
    for line in L.ref_lines(s):
        n += 1
        if at is not None and not L.ref_line_matcher(at, n, L.ref_line_contents(line), env):
            exp_out.append(line)
            continue
        r = rs[len(exp_calls)]
        if preserve and line.endswith('\n') and not c.get('oracle_bug'):
            exp_calls.append((e, line[:len(line) - 1]))
            exp_out.append(r + '\n')
        else:
            exp_calls.append((e, line))
            exp_out.append(r)
    whole = ''.join(exp_out)
    return ob.post(_same_calls(calls, exp_calls) and L.same_lines(real_lines, L.ref_lines(whole)))


# --------------------------------------------------------------------------- obligations

_ALL_RX = ['a', 'dot', '^a', 'a|b', '[ab]+', '.*', 'a.', '\\.', 'ab']


_RX_NAME = {'a': 'a', 'dot': 'dot', '^a': 'caret-a', 'a|b': 'a-or-b', '[ab]+': 'ab-plus', '.*': 'dot-star',
            'a.': 'a-dot', '\\.': 'esc-dot', 'ab': 'ab', 'b': 'b', 'RX': 'RX',
            'a|ab': 'a-or-ab', 'a|a.': 'a-or-a-dot', 'a*?': 'a-star-lazy', 'E': 'E'}
_OP_NAME = {'==': 'eq', '!=': 'ne', '<': 'lt', '<=': 'le', '>': 'gt', '>=': 'ge'}


def _lit_name(text: str) -> str:
    if text == '':
        return 'EMPTY'
    return text.replace('\n', 'NL').replace(' ', 'SP').replace('\t', 'TAB')


def _name(t, is_m=None) -> str:
    """a shell-safe, unique name of an expression tree (letters, digits, . + - only)"""
    k = t[0]
    if k == 'empty':
        return 'is-empty'
    if k == 'equals':
        return 'equals-E'
    if k == 'equals-lit':
        return 'equals-lit-' + _lit_name(t[1])
    if k == 'matches':
        return 'matches-' + ('full-' if t[1] else '') + _RX_NAME[t[2]]
    if k == 'numlines':
        return 'num-lines-' + _OP_NAME[t[1]]
    if k == 'linenum':
        return 'line-num-' + _OP_NAME[t[1]]
    if k in ('every', 'any', 'contents', 'not', 'filter'):
        return k + '.' + _name(t[1])
    if k == 'U':
        return 'U'
    if k in ('and', 'or'):
        return k + '.' + '+'.join(_name(x) for x in t[1:]) + '.' + k[0]
    if k == 'on':
        return 'on.' + _name(t[1]) + '.then.' + _name(t[2])
    if k == 'replace':
        _, preserve, sel, rx, repl = t
        return 'replace' + ('-p' if preserve else '') + ('-at.' + _name(sel) + '.' if sel is not None else '.') + \
               _RX_NAME[rx] + '.to-' + ('E' if repl == 'E' else _lit_name(repl))
    if k == 'grep':
        return 'grep-' + _RX_NAME[t[1]]
    if k == 'seq':
        return '.pipe.'.join(_name(x) for x in t[1:])
    return {'identity': 'identity', 'strip': 'strip', 'strip-ts': 'strip-trailing-space',
            'strip-tnl': 'strip-trailing-new-lines', 'upper': 'to-upper', 'lower': 'to-lower'}[k]


def _alpha_descr(a: str) -> str:
    if len(a) > 90:
        return '{printable ASCII (0x20-0x7E), tab, new-line}'
    names = {' ': 'space', '\t': 'tab', '\n': 'new-line'}
    return '{' + ', '.join(names.get(ch, ch) for ch in a) + '}'


def obligations(tier: str) -> List[Ob]:
    quick = tier == 'quick'
    n_cheap = 4 if quick else 5  # single-string obligations that cost seconds
    n_std = 3 if quick else 4
    obs: List[Ob] = []

    def add(kernel, fn, tree, maxlen, timeout, name=None, expect=ob.CONFIRM, ref_tree=None, maxlen_e=None,
            alphabet=None, alphabet_e=None):
        alphabet = alphabet or L.ALPHABET
        case = dict(tree=tree, maxlen=maxlen, alphabet=alphabet,
                    maxlen_e=maxlen_e if maxlen_e is not None else 2,
                    alphabet_e=alphabet_e or 'a \n')
        if ref_tree is not None:
            case['ref_tree'] = ref_tree
        is_m = fn in ('km_matcher', 'k7_assertion')
        syntax = L.render_matcher(tree) if is_m else L.render_transformer(tree)
        bound = '`%s`: every text s, |s| <= %d over %s' % (
            syntax.replace('\n', '\\n'), maxlen, _alpha_descr(alphabet))
        if L.uses(tree, 'E'):
            bound += '; every string E, |E| <= %d over %s' % (case['maxlen_e'], _alpha_descr(case['alphabet_e']))
        if L.uses(tree, 'numlines'):
            bound += '; every K0 in Z'
        if L.uses(tree, 'linenum'):
            bound += '; every K1 in Z'
        if L.uses(tree, 'U'):
            bound += '; every verdict of U on each of the <= %d lines' % maxlen
        if ref_tree is not None:
            bound = 'seeded oracle error (reference evaluates `%s`); ' % (
                L.render_matcher(ref_tree) if is_m else L.render_transformer(ref_tree)) + bound
        stubs = [STUB_TMP]
        if L.uses(tree, 'numlines') or L.uses(tree, 'linenum'):
            stubs.append(STUB_INT)
        if L.uses(tree, 'U'):
            stubs.append(STUB_U)
        outside = [OUT_SRC, OUT_UNI]
        if L.uses(tree, 'matches') or L.uses(tree, 'grep') or L.uses(tree, 'replace'):
            outside.append(OUT_RE)
        obs.append(Ob(
            name='%s:%s' % (kernel, name or _name(tree)), fn=fn, case=case, kernel=kernel,
            bound=bound.replace('\n', '\\n').replace('\t', '\\t'),
            timeout=timeout, expect=expect,
            real=tuple((REAL_PARSE_M if is_m else REAL_PARSE_T)) + tuple(_reals(tree)) + (REAL_K7 if fn == 'k7_assertion' else ()),
            stubs=tuple(stubs), outside=tuple(outside),
            entry=('StringMatcherAssertionPart(parsed matcher).check_and_return_pfh(env, os_services, text)' if fn == 'k7_assertion' else
                   'parse_string_matcher.parsers().full -> matches_w_trace(text)' if is_m else
                   'parse_string_transformer.parsers().full -> transform(text).contents()')))

    tscale = 1 if quick else 8

    def m(kernel, tree, maxlen=None, timeout=300, **kw):
        add(kernel, 'km_matcher', tree, maxlen or n_std, timeout * tscale, **kw)

    def t(kernel, tree, maxlen=None, timeout=300, **kw):
        add(kernel, 'kt_transformer', tree, maxlen or n_std, timeout * tscale, **kw)

    # ---- K1
    # (is-empty renders repr(first line) eagerly when it does not match: the text is realised, one path per
    # concrete text, so the obligations that contain it get the smaller bound)
    m('K1', ('empty',), n_std)
    m('K1', ('equals',), n_std, maxlen_e=n_std, alphabet_e=L.ALPHABET)
    m('K1', ('equals-lit', ''), n_cheap)
    for op in L.OPS:
        m('K1', ('numlines', op), n_cheap if op == '==' else n_std)
    for rx in _ALL_RX:
        for full in (False, True):
            if rx == '.*' and not full:
                continue  # tool limitation: CrossHair's re.search never tries an empty match at the end of the text
            m('K1', ('matches', full, rx), n_cheap)
    # a full match that needs backtracking into a later, longer alternative
    m('K1', ('matches', True, 'a|ab'), n_cheap)
    m('K1', ('matches', True, 'a|a.'), n_cheap)
    m('K1', ('matches', True, 'a*?'), n_cheap)
    if not quick:
        m('K1', ('matches', False, 'a|ab'), n_cheap)
        m('K1', ('matches', False, 'a|a.'), n_cheap)
    m('K1', ('not', ('empty',)))
    m('K1', ('not', ('matches', False, 'a')))
    m('K1', ('and', ('not', ('empty',)), ('numlines', '<=')), 2 if quick else 3)
    m('K1', ('and', ('not', ('matches', False, 'b')), ('numlines', '<=')))
    m('K1', ('or', ('matches', True, 'a'), ('equals-lit', 'a\n')))
    m('K1', ('and', ('matches', False, 'a'), ('or', ('matches', False, '\\.'), ('numlines', '>'))))
    m('K1', ('not', ('or', ('empty',), ('equals',))), 2 if quick else 3, maxlen_e=1 if quick else 2)
    m('K1', ('numlines', '=='), name='seeded-oracle-error', expect=ob.REFUTE, ref_tree=('numlines', '>='))

    # ---- K2
    for q in ('every', 'any'):
        m('K2', (q, ('U',)), n_cheap if q == 'every' else n_std)
        m('K2', (q, ('not', ('U',))))
        for op in (('==', '<=', '>') if quick else L.OPS):
            m('K2', (q, ('linenum', op)))
        m('K2', (q, ('contents', ('empty',))))
        m('K2', (q, ('contents', ('matches', False, '^a'))))
        m('K2', (q, ('contents', ('matches', True, 'dot'))))
        m('K2', (q, ('contents', ('equals-lit', 'a'))))
    m('K2', ('any', ('contents', ('matches', True, 'a|ab'))))
    m('K2', ('every', ('contents', ('matches', True, 'a|a.'))))
    m('K2', ('every', ('contents', ('equals',))))
    m('K2', ('any', ('contents', ('numlines', '=='))))
    m('K2', ('any', ('and', ('U',), ('linenum', '>='))))
    m('K2', ('every', ('or', ('contents', ('matches', False, 'a')), ('linenum', '<'))))
    m('K2', ('and', ('any', ('U',)), ('not', ('every', ('U',)))))
    m('K2', ('every', ('U',)), name='seeded-oracle-error', expect=ob.REFUTE, ref_tree=('any', ('U',)))

    # ---- K5
    t('K5', ('identity',), n_cheap)
    t('K5', ('strip',), n_cheap)
    t('K5', ('strip-ts',), n_cheap)
    t('K5', ('strip-tnl',), n_cheap)
    t('K5', ('upper',), 2 if quick else 3, alphabet='aA.\n', timeout=900)
    t('K5', ('lower',), 2 if quick else 3, alphabet='aA.\n', timeout=900)
    for preserve in (False, True):
        t('K5', ('replace', preserve, None, 'a', 'b'))
        t('K5', ('replace', preserve, None, 'a', '\n'))
        t('K5', ('replace', preserve, None, '[ab]+', ''))
        if not (quick and preserve):
            t('K5', ('replace', preserve, ('U',), 'a', 'b'))
    t('K5', ('replace', False, ('linenum', '=='), 'a|b', 'X'))
    t('K5', ('replace', True, ('contents', ('matches', False, '\\.')), 'a', 'bb'))
    t('K5', ('replace', False, None, '\\.', 'a\nb'))
    t('K5', ('filter', ('U',)))
    t('K5', ('filter', ('not', ('U',))))
    for op in (('==', '>=') if quick else L.OPS):
        t('K5', ('filter', ('linenum', op)))
    t('K5', ('filter', ('contents', ('matches', False, 'a'))))
    t('K5', ('filter', ('contents', ('empty',))))
    if not quick:
        t('K5', ('filter', ('and', ('U',), ('not', ('linenum', '<=')))))
    for rx in ('a', '^a', 'dot'):
        t('K5', ('grep', rx))
    t('K5', ('strip',), name='seeded-oracle-error', expect=ob.REFUTE, ref_tree=('strip-ts',))

    # ---- K6
    t('K6', ('seq', ('strip',), ('upper',)), 2 if quick else 3, alphabet='aA \n', timeout=900)
    t('K6', ('seq', ('identity',), ('strip-tnl',)))
    t('K6', ('seq', ('strip-tnl',), ('identity',), ('strip-ts',)))
    t('K6', ('seq', ('replace', False, None, 'a', '\n'), ('filter', ('linenum', '=='))), 2 if quick else 4)
    if not quick:
        t('K6', ('seq', ('filter', ('U',)), ('replace', True, None, 'a', 'b')))
    t('K6', ('seq', ('replace', False, None, 'a', 'b'), ('replace', False, None, 'b', 'a')))
    t('K6', ('seq', ('grep', 'a'), ('strip',)))
    t('K6', ('seq', ('strip-ts',), ('seq', ('grep', 'dot'), ('strip-tnl',))))
    if quick:
        m('K6', ('on', ('strip',), ('equals-lit', 'a')))
    else:
        m('K6', ('on', ('strip',), ('equals',)), maxlen_e=2)
    m('K6', ('on', ('identity',), ('empty',)))
    m('K6', ('on', ('filter', ('U',)), ('numlines', '==')))
    m('K6', ('on', ('grep', 'a'), ('and', ('equals-lit', 'a\n'), ('not', ('empty',)))))
    m('K6', ('on', ('replace', True, None, 'a', 'b'), ('every', ('contents', ('matches', True, 'b')))))
    m('K6', ('on', ('seq', ('strip-tnl',), ('replace', False, None, 'a', '\n')), ('numlines', '>=')))
    if not quick:
        m('K6', ('on', ('strip-ts',), ('on', ('filter', ('linenum', '==')), ('equals',))), 3, maxlen_e=2)
    m('K6', ('not', ('on', ('strip',), ('empty',))))
    t('K6', ('seq', ('replace', False, None, 'a', '\n'), ('filter', ('linenum', '=='))), 2 if quick else 3,
      name='seeded-oracle-error', expect=ob.REFUTE,
      ref_tree=('seq', ('filter', ('linenum', '==')), ('replace', False, None, 'a', '\n')))

    # ---- K9: compositions nested in compositions, symbolic members
    id_ = ('identity',)
    a2b = ('replace', False, None, 'a', 'b')
    b2a = ('replace', False, None, 'b', 'a')
    tnl = ('strip-tnl',)
    members_x = (id_, ('X',))
    members_real = (id_, a2b, b2a, tnl)
    k9_shapes = [
        # name, shape (numbers = positions of the members), with real members: in quick / in thorough
        ('flat', ('seq', 0, 1, 2), False, True),
        ('left', ('seq', ('seq', 0, 1), 2), True, True),
        ('right', ('seq', 0, ('seq', 1, 2)), False, True),
        ('left-symbol', ('seq', ('ref', 'S', ('seq', 0, 1)), 2), False, True),
        ('right-symbol', ('seq', 0, ('ref', 'S', ('seq', 1, 2))), True, True),
        ('attached-1', ('attach', ('seq', 0, 1)), True, True),
        ('attached-2', ('attach', ('seq', 0, 1), 2), True, True),
        ('attached-2-symbol', ('attach', 0, ('ref', 'S', ('seq', 1, 2))), False, True),
        ('attached-ddv-2', ('attach-ddv', ('seq', 0, 1), 2), False, True),
        ('attached-3', ('attach', 0, ('seq', 1, 2), 3), False, False),
        ('middle', ('seq', 0, ('seq', 1, 2), 3), False, False),
        ('left-left', ('seq', ('seq', ('seq', 0, 1), 2), 3), False, False),
        ('right-right', ('seq', 0, ('seq', 1, ('seq', 2, 3))), False, False),
        ('left-right', ('seq', ('seq', 0, 1), ('seq', 2, 3)), False, True),
        ('symbol-symbol', ('seq', ('ref', 'S', ('seq', 0, 1)), ('ref', 'R', ('seq', 2, 3))), False, False),
        ('symbol-in-symbol', ('seq', ('ref', 'S', ('seq', ('ref', 'R', ('seq', 0, 1)), 2)), 3), False, False),
    ]

    def positions(shape):
        if isinstance(shape, int):
            return 1
        return sum(positions(x) for x in shape[1:] if isinstance(x, (int, tuple)))

    def shape_kinds(shape):
        # a tree with the node kinds of the shape, for the list of real functions
        if isinstance(shape, int):
            return ('ref', 'M', id_)
        if shape[0] == 'ref':
            return ('ref', shape[1], shape_kinds(shape[2]))
        return (shape[0],) + tuple(shape_kinds(x) for x in shape[1:])

    def a9(name, shape, members, maxlen, leaf_symbols, timeout=300, expect=ob.CONFIRM, oracle_bug=None,
           untraced_build=True):
        n = positions(shape)
        case = dict(shape=shape, n=n, members=members, maxlen=maxlen, alphabet='ab\n', leaf_symbols=leaf_symbols,
                    marks='WXYZ', untraced_build=untraced_build)
        if oracle_bug:
            case['oracle_bug'] = oracle_bug
        names = ['M%d' % i for i in range(n)]
        named = L.instantiate(shape, [('ref', x, id_) for x in names])
        where = ['%s = %s' % (k, L.render_transformer(v)) for k, v in L.symbol_definitions(named).items()
                 if k not in names]
        with_x = ('X',) in members
        bound = ('`%s`%s: every choice of each of the %d members %s from {%s}, written in place%s; every text s, '
                 '|s| <= %d over {a, b, new-line}' % (
                     L.render_transformer(named), (' where ' + ', '.join(where)) if where else '', n, ', '.join(names),
                     ', '.join('a transformer X_i of unknown class that appends the i:th of the characters W, X, Y, Z'
                               if x == ('X',)
                               else '`%s`' % L.render_transformer(x) for x in members),
                     ' or as a reference to a text-transformer symbol defined as it' if leaf_symbols else '', maxlen))
        if oracle_bug == 'order':
            bound = 'seeded oracle error (the reference applies the members right to left); ' + bound
        if oracle_bug == 'attribute':
            bound = ('seeded oracle error (the reference says a composition is an identity transformer as soon as '
                     'SOME member is `identity`); ' + bound)
        obs.append(Ob(
            name='K9:' + name, fn='k9_nested_composition', case=case, kernel='K9',
            bound=bound.replace('\n', '\\n'), timeout=timeout * tscale, expect=expect,
            real=tuple(REAL_PARSE_T) + tuple(_reals(('seq',) + tuple(members) + (shape_kinds(shape),))),
            stubs=(STUB_TMP,) + ((STUB_X,) if with_x else ()) + ((STUB_UNTRACED,) if untraced_build else ()),
            outside=(OUT_SRC, OUT_UNI) + (() if members == members_x else (OUT_RE,)),
            entry='parse_string_transformer.parsers().full (and the definitions of the symbols) -> '
                  'is_identity_transformer, transform(text).contents()'))

    for name, shape, real_in_quick, real_in_thorough in k9_shapes:
        a9(name + '.X', shape, members_x, 1 if quick else 3, leaf_symbols=not quick or name in ('left', 'right'))
        if real_in_quick if quick else real_in_thorough:
            a9(name + '.real', shape, members_real if positions(shape) <= 3 else members_real[:3], 1 if quick else 2,
               leaf_symbols=not quick and name in ('left', 'right'))
    a9('seeded-oracle-error-order', ('seq', ('seq', 0, 1), 2), members_x, 1, False, expect=ob.REFUTE,
       oracle_bug='order')
    a9('seeded-oracle-error-attribute', ('seq', ('seq', 0, 1), 2), members_x, 1, False, expect=ob.REFUTE,
       oracle_bug='attribute')

    # ---- a few primitives over the whole of printable ASCII + tab + new-line
    ascii_ = ''.join(chr(i) for i in range(32, 127)) + '\t\n'
    ascii_cases = [('K1', m, ('empty',)), ('K1', m, ('numlines', '==')), ('K5', t, ('strip',)),
                   ('K5', t, ('replace', True, None, 'a', 'b'))]
    if not quick:
        ascii_cases += [('K1', m, ('matches', False, 'a.')), ('K1', m, ('matches', True, '[ab]+')),
                        ('K2', m, ('every', ('contents', ('empty',)))),
                        ('K2', m, ('any', ('contents', ('matches', True, 'dot')))),
                        ('K5', t, ('identity',)), ('K5', t, ('strip-ts',)),
                        ('K5', t, ('strip-tnl',)), ('K5', t, ('grep', 'a')),
                        ('K5', t, ('filter', ('contents', ('matches', False, '^a'))))]
    for kernel, f, tree in ascii_cases:
        n_ascii = 3 if quick else 4
        if tree == ('empty',):
            # the failure message of is-empty is built eagerly with repr(first line); repr of a symbolic str
            # realises it (vsym/chfix.py no. 3: never replaced by a free symbol), i.e. one path per concrete
            # text: 98 texts of |s| <= 1 in quick, 9507 of |s| <= 2 in thorough
            n_ascii -= 2
        f(kernel, tree, n_ascii, alphabet=ascii_, name=_name(tree) + '.ascii')

    # ---- K8
    n8 = 1 if quick else 2

    def a8(tree, is_m, maxlen=None, minlen_e=0, maxlen_e=1, alphabet_e='ab', name=None, expect=ob.CONFIRM,
           oracle_bug=False, timeout=300):
        case = dict(tree=tree, is_matcher=is_m, maxlen=maxlen or n8, alphabet='ab\n', minlen_e=minlen_e,
                    maxlen_e=maxlen_e, alphabet_e=alphabet_e)
        if oracle_bug:
            case['oracle_bug'] = True
        syntax = (L.render_matcher(tree) if is_m else L.render_transformer(tree))
        bound = ('`%s` parsed ONCE, resolved twice (values E1, K_a, verdict u_a of U, then E2, K_b, u_b) and every '
                 'resolved object applied to both texts: every s1, s2 with |s| <= %d over {a, b, new-line}' % (
                     syntax, case['maxlen']))
        if L.uses(tree, 'E'):
            bound += '; every E1, E2 with %d <= |E| <= %d over %s' % (minlen_e, maxlen_e, _alpha_descr(alphabet_e))
        if L.uses(tree, 'numlines') or L.uses(tree, 'linenum'):
            bound += '; every K_a, K_b in Z'
        if L.uses(tree, 'U'):
            bound += '; every u_a, u_b'
        if oracle_bug:
            bound = 'seeded oracle error (the second resolving is expected to denote the FIRST values); ' + bound
        stubs = [STUB_TMP]
        if L.uses(tree, 'numlines') or L.uses(tree, 'linenum'):
            stubs.append(STUB_INT)
        if L.uses(tree, 'U'):
            stubs.append(STUB_U)
        obs.append(Ob(
            name='K8:%s' % (name or _name(tree)), fn='k8_independent_resolvings', case=case, kernel='K8',
            bound=bound.replace('\n', '\\n'), timeout=timeout * tscale, expect=expect,
            real=tuple(REAL_PARSE_M if is_m else REAL_PARSE_T) + tuple(_reals(tree)) + REAL_K8,
            stubs=tuple(stubs), outside=(OUT_SRC, OUT_UNI, OUT_RE),
            entry='one parsed sdv: resolve(symbols 1) ... resolve(symbols 2) -> primitives applied to two texts'))

    a8(('equals',), True, maxlen_e=1, alphabet_e='a\n')
    a8(('matches', True, 'E'), True, minlen_e=1)
    a8(('matches', False, 'E'), True, minlen_e=1)
    a8(('every', ('and', ('U',), ('linenum', '<='))), True)
    a8(('replace', False, None, 'E', 'X'), False, minlen_e=1)
    a8(('replace', True, None, 'a', 'E'), False, alphabet_e='b\n')
    a8(('grep', 'E'), False, minlen_e=1)
    a8(('seq', ('strip',), ('grep', 'a')), False)
    if not quick:
        a8(('any', ('contents', ('matches', True, 'E'))), True, minlen_e=1)
        a8(('on', ('replace', False, None, 'a', 'E'), ('numlines', '==')), True, maxlen=1, alphabet_e='b\n')
        a8(('filter', ('contents', ('equals',))), False)
    a8(('matches', True, 'E'), True, minlen_e=1, name='seeded-oracle-error', expect=ob.REFUTE, oracle_bug=True)

    # ---- K7
    def a7(tree, maxlen=None, timeout=300, **kw):
        add('K7', 'k7_assertion', tree, maxlen or n_std, timeout * tscale, **kw)

    a7(('empty',), n_std)
    a7(('equals',), maxlen_e=1 if quick else 2)
    a7(('not', ('every', ('contents', ('matches', True, 'dot')))))
    a7(('on', ('strip-tnl',), ('numlines', '<')))
    a7(('empty',), name='seeded-oracle-error', expect=ob.REFUTE, ref_tree=('not', ('empty',)))

    # ---- K3
    real_k3 = (_P + 'string_matcher.impl.equality._EqualityStringMatcher',
               _P + 'string_matcher.impl.equality._ApplierWExtDepsCases',
               _P + 'string_matcher.impl.equality._min_num_chars_to_read',
               'exactly_lib.type_val_prims.string_source.string_source.read_lines_as_str__w_minimum_num_chars',
               'exactly_lib.util.str_.read_lines.read_lines_as_str__w_minimum_num_chars')
    n3 = 2 if quick else 4
    n3e = 2 if quick else 4
    k3_out = ('both texts depending on external resources (filecmp of two real files): C14-K3', OUT_UNI)
    obs.append(Ob(name='K3:strategies', fn='k3_equality', kernel='K3',
                  case=dict(maxlen=n3, maxlen_e=n3e, alphabet='a \n'),
                  bound='every expected text of <= %d and every actual text of <= %d characters over {a, space, new-line}; '
                        'every combination of the may_depend_on_external_resources flags except both' % (n3e, n3),
                  timeout=600 if quick else 3600, real=real_k3, stubs=(STUB_SRC,), outside=k3_out,
                  entry='_EqualityStringMatcher(expected, validator).matches_w_trace(actual)'))
    obs.append(Ob(name='K3:early-stop', fn='k3_equality', kernel='K3',
                  case=dict(maxlen=2, maxlen_e=1 if quick else 2, alphabet='a\n', pad='x' * 119 + '\n' + 'y' * 30),
                  bound='actual text = c + 150 concrete characters + d for all texts cd of <= 2 characters over '
                        '{a, new-line}: the read-ahead stops before the end of the actual text; every expected text of <= %d characters' % (1 if quick else 2),
                  timeout=600, real=real_k3, stubs=(STUB_SRC,), outside=k3_out,
                  entry='_EqualityStringMatcher(expected, validator).matches_w_trace(actual)'))
    obs.append(Ob(name='K3:seeded-oracle-error', fn='k3_equality', kernel='K3',
                  case=dict(maxlen=2, maxlen_e=2, alphabet='a\n', oracle_bug=True),
                  bound='seeded oracle error: a proper extension of the expected text is accepted',
                  timeout=300, expect=ob.REFUTE, real=real_k3, stubs=(STUB_SRC,)))

    # ---- K4
    real_k4a = (_P + 'string_transformer.impl.replace.impl._lines_iterator_from_replacements',)
    for n, lr in (((1, 3), (2, 2), (3, 1)) if quick else ((1, 4), (2, 3), (3, 2))):
        obs.append(Ob(name='K4:redivide-%d-lines' % n, fn='k4a_redivide', kernel='K4',
                      case=dict(n=n, maxlen_r=lr),
                      bound='%d input lines; every result r_i of the substitution, |r_i| <= %d over {a, new-line}' % (n, lr),
                      timeout=600, real=real_k4a,
                      stubs=('the per-line substitution is an uninterpreted function (one symbolic string per line)',),
                      entry='_lines_iterator_from_replacements'))
    obs.append(Ob(name='K4:redivide-seeded-oracle-error', fn='k4a_redivide', kernel='K4',
                  case=dict(n=2, maxlen_r=1, oracle_bug=True), expect=ob.REFUTE,
                  bound='seeded oracle error: a final line without new-line is dropped', timeout=300, real=real_k4a))
    real_k4b = tuple(REAL_PARSE_T) + tuple(REAL_OF['replace'])
    n4 = 2 if quick else 3
    for preserve in (False, True):
        for at, at_name in ((None, ''), (('U',), '-at-U'), (('not', ('U',)), '-at-!U')):
            if quick and at_name == '-at-!U':
                continue
            obs.append(Ob(
                name='K4:replace%s%s' % (at_name, '-preserve-new-lines' if preserve else ''),
                fn='k4b_replace_uninterpreted', kernel='K4',
                case=dict(preserve=preserve, at=at, maxlen=n4, maxlen_r=1, alphabet='a \n'),
                bound='`%s`: every text s, |s| <= %d over {a, space, new-line}; every replacement string E, |E| <= 1; '
                      'every result r_i of the i:th substitution, |r_i| <= 1 over {a, new-line}%s' % (
                          L.render_transformer(('replace', preserve, at, 'RX', 'E')), n4,
                          '; every verdict of U per line' if at else ''),
                timeout=300 if quick else 3000, real=real_k4b, stubs=(STUB_RE, STUB_TMP) + ((STUB_U,) if at else ()),
                outside=(OUT_SRC, OUT_UNI),
                entry='parse_string_transformer.parsers().full -> transform(text).contents().as_lines'))
    obs.append(Ob(name='K4:replace-seeded-oracle-error', fn='k4b_replace_uninterpreted', kernel='K4',
                  case=dict(preserve=True, at=None, maxlen=2, maxlen_r=1, alphabet='a\n', oracle_bug=True),
                  expect=ob.REFUTE, bound='seeded oracle error: -preserve-new-lines ignored by the reference',
                  timeout=300, real=real_k4b, stubs=(STUB_RE, STUB_TMP)))
    return obs


# --------------------------------------------------------------------------- self-test

def selftest(tier) -> int:
    """Concrete comparison of the reference semantics with Python's own str / re / text-file
    behaviour, and of the stub texts with exactly_lib's in-memory text."""
    import io
    import itertools
    import re
    n = 0
    texts = ['']
    for k in range(1, 5):
        texts += [''.join(p) for p in itertools.product(L.ALPHABET, repeat=k)]
    for s in texts:
        if L.ref_lines(s) != list(io.StringIO(s, newline='\n')):
            raise AssertionError('ref_lines differs from text-file iteration on %r' % s)
        if L.ref_rstrip(L.ref_lstrip(s)) != s.strip() or L.ref_rstrip(s) != s.rstrip() \
                or L.ref_rstrip(s, '\n') != s.rstrip('\n'):
            raise AssertionError('ref strip differs from str.strip on %r' % s)
        if L.ref_upper(s) != s.upper() or L.ref_lower(s) != s.lower():
            raise AssertionError('ref case conversion differs on %r' % s)
        n += 3
        for key, (syntax, search, full) in L.REGEXES.items():
            p = re.compile(L.REGEX_PATTERN[key])
            if bool(p.search(s)) != bool(search(s)):
                raise AssertionError('reference meaning of search %r differs from re on %r' % (key, s))
            if bool(p.fullmatch(s)) != bool(full(s)):
                raise AssertionError('reference meaning of fullmatch %r differs from re on %r' % (key, s))
            n += 2
        for rx in ('a', 'b', 'ab', '\\.', '[ab]+', 'a|b'):
            for repl in ('', 'b', 'X', '\n', 'a\nb', 'bb'):
                if L.ref_replace_in(rx, repl, s) != re.sub(L.REGEX_PATTERN[rx], repl.replace('\n', '\\n'), s):
                    raise AssertionError('reference meaning of replace %r differs from re.sub on %r' % (rx, s))
                n += 1
    # the concrete syntax of every regex denotes the intended pattern
    from exactly_lib.impls.types.regex import parse_regex
    from exactly_lib.section_document.element_parsers.token_stream_parser import new_token_parser
    from exactly_lib.util.symbol_table import SymbolTable
    for key, (syntax, _, _) in L.REGEXES.items():
        sdv = parse_regex.ParserOfRegex().parse_from_token_parser(new_token_parser(syntax))
        pattern = sdv.resolve(SymbolTable()).value_of_any_dependency(None)
        if pattern.pattern != L.REGEX_PATTERN[key] or pattern.flags != re.compile('a').flags:
            raise AssertionError('regex syntax %r denotes %r' % (syntax, pattern.pattern))
        n += 1
    # stub texts deliver what exactly_lib's own in-memory text delivers
    for s in texts[:400] + ['a\n\nb', ' a \n\n', '\n\n\n\n\n']:
        st = L.stub_string_source(s, False, []).contents()
        real = L.text_model(s).contents()
        with st.as_lines as a, real.as_lines as b:
            if list(a) != list(b) or st.as_str != real.as_str:
                raise AssertionError('stub text differs from ContentsOfStr on %r' % s)
        n += 1
    # K9: the transformer of unknown class appends its mark and does not say it is the identity transformer;
    # a symbol defined as T denotes what T denotes; the shape helpers keep the members in their order
    for s in texts[:60]:
        x = L.stub_appender('X0', 'W')
        if x.is_identity_transformer or x.transform(L.text_model(s)).contents().as_str != s + 'W':
            raise AssertionError('stub appender on %r' % s)
        env = L.Env(marks='WXYZ')
        for tree in (('ref', 'S', ('strip',)), ('seq', ('ref', 'S', ('seq', ('X', 1), ('strip-ts',))), ('X', 0)),
                     ('attach', ('ref', 'S', ('identity',)), ('seq', ('X', 2), ('identity',))),
                     ('attach-ddv', ('X', 3), ('ref', 'S', ('seq', ('strip-tnl',), ('X', 0))))):
            real = L.real_transformer(tree, env).transform(L.text_model(s)).contents().as_str
            folded = s
            for member in L.leaves_in_order(tree):
                folded = L.ref_transformer(member, folded, env)
            if real != L.ref_transformer(tree, s, env) or real != folded:
                raise AssertionError('K9 helpers: %r on %r' % (tree, s))
            n += 1
    shape = ('seq', ('ref', 'S', ('seq', 0, ('seq', 1, 2))), ('attach', 3))
    if L.leaves_in_order(L.instantiate(shape, ['a', 'b', 'c', 'd'])) != ['a', 'b', 'c', 'd']:
        raise AssertionError('instantiate / leaves_in_order')
    if not L.ref_is_identity(('seq', ('identity',), ('ref', 'S', ('seq', ('identity',), ('identity',))))) \
            or L.ref_is_identity(('seq', ('identity',), ('ref', 'S', ('seq', ('identity',), ('X', 0))))):
        raise AssertionError('ref_is_identity')
    n += 3
    return n


ASSUMPTIONS = [
    'tool work-arounds (CrossHair 0.0.110): (1) == between two SYMBOLIC strings can be wrongly False when one side is a '
    'str.join result and the other a slice (SymbolicList vs SliceView compared as list vs tuple) - the reference and '
    'the post-conditions therefore compare code point by code point (L.same_str); inside exactly_lib only `equals` '
    'compares two symbolic strings, where a wrong False would surface as a counterexample that does not replay '
    '(harness error), not as a pass; (2) re `$` before a final new-line and an empty re.search match at the end of '
    'the text are mis-modelled - such regexes are not in the family; (3) re.Match.expand does not process backslash '
    'escapes and realises the template - replacement strings are literals without backslashes (a new-line is '
    'written as a new-line inside quotes)',
    'integer literals are evaluated by a stub of python_evaluate that maps the placeholder names K0, K1 to symbolic '
    'integers (contract: an integer literal denotes its integer); eval itself is a C boundary',
    'the line matcher U of unknown class returns an arbitrary boolean per line; the StringSource stubs of K3 honour the '
    'documented contract of StringSourceContents (as_lines divides at new-line, as_str is their concatenation)',
    'K4: re.Pattern.sub returns some str (uninterpreted); K1/K2/K5/K6: CrossHair 0.0.110 models of re.search / '
    're.fullmatch / re.sub for the stated regex family (no `$`, which the tool mis-models before a final new-line; '
    'no empty matches in sub, which the tool mis-models)',
    'K9: the members of unknown class (X<i>) honour the contract of StringTransformer: transform gives a text, '
    'is_identity_transformer is the default of the base class (False); the marks they append are concrete and distinct',
    'replacement strings of the real-`re` replace obligations are literals (CrossHair realises the template of '
    're.Match.expand); the symbolic replacement string is covered by K4 where the substitution is uninterpreted',
]

OUTSIDE = [
    OUT_SRC,
    'regexes outside the stated family, in particular `$`, regexes that match the empty string under `matches` / '
    '`replace`, -ignore-case, and backslash escapes / back-references in the replacement string of `replace` '
    '(what is passed to re.sub is checked in K4; what re.sub makes of it is the semantics of `re`)',
    '`equals` when both texts depend on external resources (file-file comparison): C14-K3',
    'run-program matchers / transformers and replace-test-case-dirs (need processes / a sandbox)',
    'the code that runs a program and applies the attached transformation to its output (file_transformation_utils, '
    'actors.program.execution, transformed_by_program: processes and files); K9 drives what these sites compute before '
    'they decide to skip the transformation - sequence_resolving.resolve of the attached transformers and its '
    'is_identity_transformer - and proves that it is true only if the documented meaning is the identity',
    'texts longer than the stated bound (the loops are linear in the number of lines; no induction over it)',
    '`filter -line-nums` and the interval optimisation of `filter` beyond single comparisons: C13',
]
