"""C12  Paths resolve under their relativity root; home directories are write-protected.

All symbolic variables are SELECTORS into finite catalogues (relativity option, argument, shape of
FILE-NAME, kind of each link of a chain of symbol definitions, phase, instruction): paths are data
that flows into pathlib / the file system (a C boundary), so they stay concrete.  What the solver
adds is the exhaustiveness certificate of the path tree over the selector space; once the selectors
of a path are concrete (ob.pick forks per value) harness + real code run natively
(_C12_lib.untraced).  The phase of the instruction and the argument configuration are enumerated
by a plain loop inside each path (stated in every bound).

K1  one PATH argument: the REAL `parse_path.parse_path` with the configuration object of each real
    instruction argument x every relativity option / -rel SYMBOL / -rel-here / none x every shape of
    FILE-NAME; compared with the manual: option not accepted => syntax error, otherwise the value is
    the documented root joined with FILE-NAME and the relativity is the stated one.
K2  chains of symbol definitions: `def path` / `def string` lines through the REAL `def` instruction
    of the default instruction set, validated in order by the REAL `validate_symbol_usages`, used in
    a PATH argument: relativity of a chain = relativity of its root; not accepted => rejected by
    validation (at the line the manual says); otherwise value = root joined with all suffixes.
K3  whole program (REAL MainProgram.execute in process): `file` / `dir` / `copy` with a destination
    built from a chain of definitions, in every phase: rejected => exit 65, SYNTAX_ERROR /
    VALIDATION_ERROR, no sandbox, no process, both home directories byte-identical; accepted => the
    file exists exactly at root/suffix inside the kept sandbox and the home directories are unchanged.
K4  -rel-cd is resolved when USED: the current directory is changed between definition and use
    (unit level: os.chdir; whole program: the `cd` instruction).
K5  whole program, reading: `copy SRC`, `-contents-of SRC`, `contents SRC`, `exists SRC` with SRC built
    from a chain; marker files with distinct contents at the same relative location under every root:
    the instruction reads the one under the documented root, or the case is rejected before execution.
"""
from typing import List

from vsym import ob
from vsym.ob import Ob

PROPERTY = 'C12'

REAL_PARSE = (
    'exactly_lib.impls.types.path.parse_path.parse_path',
    'exactly_lib.impls.types.path.parse_path._Parser',
    'exactly_lib.impls.types.path.parse_path.MakePathFromMbSymbolReference',
    'exactly_lib.impls.types.path.parse_path._PathSdvOfRelativityOptionAndSuffixSdv',
    'exactly_lib.impls.types.path.parse_path._PathSdvOfAbsPathAndSuffixSdv',
    'exactly_lib.impls.types.path.parse_path._first_fragment_is_symbol_that_can_act_as_path',
    'exactly_lib.impls.types.path.parse_path._path_suffix_sdv_from_fragments',
    'exactly_lib.impls.types.path.parse_relativity.parse_explicit_relativity_info',
    'exactly_lib.impls.types.path.parse_relativity._parse_rel_option_type',
    'exactly_lib.impls.types.path.parse_relativity._try_parse_rel_symbol_option',
    'exactly_lib.impls.types.path.parse_relativity._parse_rel_source_file',
    'exactly_lib.impls.types.path.parse_relativity._resolve_relativity_option_type',
    'exactly_lib.type_val_deps.types.path.rel_opts_configuration',
    'exactly_lib.type_val_deps.types.path.path_relativities',
    'exactly_lib.impls.instructions.source_file_relativities',
    'exactly_lib.tcfs.relative_path_options.REL_OPTIONS_MAP',
)
REAL_RESOLVE = (
    'exactly_lib.type_val_deps.types.path.path_ddvs._PathDdvFromRelRootResolver',
    'exactly_lib.type_val_deps.types.path.path_ddvs._PathDdvAbsolute',
    'exactly_lib.type_val_deps.types.path.path_ddvs._StackedPathDdv',
    'exactly_lib.type_val_deps.types.path.path_ddvs.of_rel_option',
    'exactly_lib.type_val_deps.types.path.path_ddvs.rel_abs_path',
    'exactly_lib.type_val_deps.types.path.path_sdv_impls.path_rel_symbol.PathSdvRelSymbol',
    'exactly_lib.type_val_deps.types.path.path_sdv_impls.path_from_symbol_reference._WStrRenderingValueSymbol2PathResolverVisitor',
    'exactly_lib.type_val_deps.types.path.path_sdv_impls.path_from_symbol_reference.SdvThatIsIdenticalToReferencedPathOrWithStringValueAsSuffix',
    'exactly_lib.type_val_deps.types.path.path_sdv_impls.path_part_sdvs',
    'exactly_lib.tcfs.relativity_root',
    'exactly_lib.tcfs.path_relativity',
    'exactly_lib.tcfs.sds.SandboxDs',
    'exactly_lib.type_val_deps.dep_variants.ddv.dir_dependent_value.MultiDependenciesDdv.value_of_any_dependency',
)
REAL_SYMBOLS = (
    'exactly_lib.execution.impl.symbol_validation.validate_symbol_usages',
    'exactly_lib.execution.impl.symbol_validation._validate_symbol_definition',
    'exactly_lib.execution.impl.symbol_validation._validate_symbol_reference',
    'exactly_lib.type_val_deps.types.path.references.path_or_string_reference_restrictions',
    'exactly_lib.type_val_deps.types.path.references.path_relativity_restriction',
    'exactly_lib.type_val_deps.types.path.references.PATH_COMPONENT_STRING_REFERENCES_RESTRICTION',
    'exactly_lib.type_val_deps.sym_ref.w_str_rend_restrictions.value_restrictions.PathAndRelativityRestriction',
    'exactly_lib.type_val_deps.sym_ref.w_str_rend_restrictions.value_restrictions.ArbitraryValueWStrRenderingRestriction',
    'exactly_lib.type_val_deps.sym_ref.w_str_rend_restrictions.reference_restrictions.ReferenceRestrictionsOnDirectAndIndirect',
    'exactly_lib.type_val_deps.sym_ref.w_str_rend_restrictions.reference_restrictions.OrReferenceRestrictions',
    'exactly_lib.tcfs.relativity_validation.is_satisfied_by',
    'exactly_lib.impls.instructions.multi_phase.define_symbol.parser.EmbryoParser',
    'exactly_lib.impls.instructions.multi_phase.define_symbol.type_parser.PathParser',
    'exactly_lib.impls.instructions.multi_phase.define_symbol.type_parser.REL_OPTION_ARGUMENT_CONFIGURATION',
)
REAL_INSTRUCTIONS = (
    'exactly_lib.impls.instructions.multi_phase.new_file.EmbryoParser',
    'exactly_lib.impls.instructions.multi_phase.new_file._TheInstructionEmbryo',
    'exactly_lib.impls.instructions.multi_phase.new_file._DstFileNameSdvValidator',
    'exactly_lib.impls.instructions.multi_phase.new_file.REL_OPT_ARG_CONF',
    'exactly_lib.impls.instructions.multi_phase.new_dir.EmbryoParser',
    'exactly_lib.impls.instructions.multi_phase.new_dir.TheInstructionEmbryo',
    'exactly_lib.impls.instructions.multi_phase.new_dir.RELATIVITY_VARIANTS',
    'exactly_lib.impls.instructions.multi_phase.copy.EmbryoParser',
    'exactly_lib.impls.instructions.multi_phase.copy._CopySourceWithExplicitDestinationInstruction',
    'exactly_lib.impls.instructions.multi_phase.copy._MainWithExplicitDestination',
    'exactly_lib.impls.instructions.multi_phase.copy.REL_OPTION_ARG_CONF_FOR_DESTINATION',
    'exactly_lib.impls.instructions.multi_phase.copy.src_rel_opt_arg_conf_for_phase',
    'exactly_lib.impls.instructions.multi_phase.change_dir.relativity_options',
    'exactly_lib.impls.instructions.multi_phase.change_dir.InstructionEmbryo',
    'exactly_lib.cli.main_program.MainProgram.execute',
    'exactly_lib.execution.partial_execution.impl.executor._PartialExecutor.execute',
)

STUB_FIXTURE = 'fixture directory structure with fixed names (/vsym-fx/...): HomeDs / SandboxDs value objects, no file system'

REGION_ABS = 'absolute-file-name'

# ----------------------------------------------------------------------------- catalogues

# FILE-NAME shapes: (frags, quoted).  S1='s1v', S2='s2 v', SN='n-@[S1]@' (string symbols), SA='/abs/s',
# PA = -rel-act pa (path symbol)
NAMES = (
    ('empty', (), False),
    ('a', (('c', 'a'),), False),
    ('a/b', (('c', 'a/b'),), False),
    ('"a b"', (('c', 'a b'),), True),
    ('@[S1]@', (('r', 'S1'),), False),
    ('a/@[S1]@/b', (('c', 'a/'), ('r', 'S1'), ('c', '/b')), False),
    ('"@[S1]@@[S2]@"', (('r', 'S1'), ('r', 'S2')), True),
    ('@[SN]@', (('r', 'SN'),), False),
    ('"@[S1]@/q"', (('r', 'S1'), ('c', '/q')), True),
    ('@[PA]@x', (('r', 'PA'), ('c', 'x')), False),  # a path symbol as a mere component: must be rejected
    ('@[NOPE]@', (('r', 'NOPE'),), False),  # undefined
    ('@[PA]@', (('r', 'PA'),), False),
    ('@[PA]@/a', (('r', 'PA'), ('c', '/a')), False),
    ('/abs/x', (('c', '<HOME>/x'),), False),  # <HOME>: absolute path of the home directory of the fixture
    ('@[SA]@/x', (('r', 'SA'), ('c', '/x')), False),
    # two / three slashes after a leading path-symbol reference: still relative to the symbol (NOT an absolute FILE-NAME);
    # the rest spells the home directory so that an implementation that took it for absolute would be seen writing there
    ('@[PA]@//HOME/a', (('r', 'PA'), ('c', '/<HOME>/a')), False),
    ('@[PA]@///HOME/a/b', (('r', 'PA'), ('c', '//<HOME>/a/b')), False),
)
ABS_NAMES = (13, 14)  # indices of the absolute file names in NAMES (indices are referred to by known-finding witnesses: append only)
# sets of indices as (lo, hi, extra indices): lo <= n < hi or n in extras
K1_PLAIN_NAMES = (0, 13, (15, 16))
K1_ABS_PART = (11, 15, ())
RELS = ('',) + tuple('opt:' + k for k in ('cwd', 'home', 'act-home', 'act', 'tmp', 'result')) + (
    'here', 'sym:PA', 'sym:S1', 'sym:NOPE')
PRELUDE = (
    ('string', 'S1', (('c', 's1v'),)),
    ('string', 'S2', (('c', 's2 v'),)),
    ('string', 'SN', (('c', 'n-'), ('r', 'S1'))),
    ('string', 'SA', (('c', '<HOME>/s'),)),
    ('path', 'PA', ('opt:act', (('c', 'pa'),), False)),
)


def in_names(n, spec) -> bool:
    lo, hi, extras = spec
    if lo <= n < hi:
        return True
    for e in extras:
        if n == e:
            return True
    return False


def names_of(spec):
    lo, hi, extras = spec
    return tuple(range(lo, hi)) + tuple(extras)


def inst(x, fx):
    """replaces the placeholder <HOME> in every string of a nested tuple / list structure"""
    if isinstance(x, str):
        return x.replace('<HOME>', fx.home)
    if isinstance(x, tuple):
        return tuple(inst(y, fx) for y in x)
    if isinstance(x, list):
        return [inst(y, fx) for y in x]
    return x


def _agree(ref_result, real_result, fx, bug=None) -> bool:
    """the real outcome is the one the manual prescribes"""
    from harness import _C12_lib as L
    ri, exp = ref_result
    qi, got = real_result
    if exp[0] == 'ok':
        want_kind, want_value = exp[1].kind, exp[1].value(fx)
        if bug == 'kind':
            want_kind = 'cwd'
        if bug == 'value':
            want_value = want_value + '/x'
        if not (qi is None and got[0] == 'ok' and got[1] == want_kind and L.norm(got[2]) == want_value):
            return False
        # the value object is consistent: value = root of its relativity joined with its path suffix
        base = '/' if got[1] == 'abs' else fx.root(got[1])
        return L.norm(L.join(base, got[3])) == L.norm(got[2])
    if exp[0] == L.REJECT:
        return qi == ri and got[0] in (L.SYNTAX, L.VALIDATION)
    if bug == 'stage':
        return qi == ri and got[0] == L.SYNTAX
    return qi == ri and got[0] == exp[0]


# ----------------------------------------------------------------------------- K1

def _in_abs_region(conf, rel: str, name_idx: int) -> bool:
    """absolute FILE-NAME where the manual does not allow one (RELATIVITY given, or the argument does not accept
    absolute paths): known finding, see region REGION_ABS"""
    return name_idx in ABS_NAMES and (rel != '' or not conf.abs_ok)


def _pre_k1(r: int, n: int) -> bool:
    from harness import _C12_lib as L
    case = ob.case()
    if not (0 <= r < len(RELS) and in_names(n, case['names'])):
        return False
    if ob.excluded(REGION_ABS) and _in_abs_region(L.CONFS[case['conf']], RELS[r], n):
        return False
    return True


def k1_argument(r: int, n: int) -> bool:
    """
    pre: _pre_k1(r, n)
    post: _
    """
    from harness import _C12_lib as L
    case = ob.case()
    conf = L.CONFS[case['conf']]
    rel = ob.pick(RELS, r)
    _, frags, quoted = ob.pick(NAMES, n)
    fx = L.UNIT_FIXTURE
    with L.untraced():
        expr = inst((rel, frags, quoted), fx)
        prelude = inst(PRELUDE, fx)
        exp = L.ref_program(prelude, conf, expr, fx)
        got = L.real_program(prelude, conf.name, expr, fx)
        ok = _agree(exp, got, fx, case.get('oracle_bug'))
    return ob.post(ok)


# ----------------------------------------------------------------------------- K2

ROOTS = ('default', 'cwd', 'home', 'act-home', 'act', 'tmp', 'result', 'abs', 'here')
LINKS = ('rel', 'ref', 'bare', 'refq', 'rels', 'relsp', 'str', 'str2', 'ref2')
USES = LINKS + ('plain', 'ref3')  # how the argument refers to the last symbol; 'plain': not at all (default relativity of the argument)
USE_CONFS = ('file-dst', 'copy-dst', 'copy-src-pre', 'copy-src-post', 'cd-post', 'exists')


LINK_TEXT = {'rel': '-rel P x/y', 'ref': '@[P]@/x', 'bare': '@[P]@', 'refq': '"@[P]@/x y"', 'rels': '-rel P @[S]@/x',
             'relsp': '-rel P "x y/@[S]@"', 'str': '@[T]@ with def string T = @[P]@/x',
             'str2': '@[TT]@ with def string T = @[P]@/x, def string TT = tt/@[T]@', 'plain': 'x/y (no reference)',
             'ref2': '@[P]@//abs-home/x', 'ref3': '@[P]@///abs-home/x/b', 'none': '(no further definition)'}


def links_text(kinds) -> str:
    return '{' + ', '.join('`%s`' % LINK_TEXT[k] for k in kinds) + '}'


def root_expr(root: str):
    if root == 'default':
        return ('', (('c', 'r0'),), False)
    if root == 'abs':
        return ('', (('c', '<HOME>/r0'),), False)
    if root == 'here':
        return ('here', (('c', 'r0'),), False)
    return ('opt:' + root, (('c', 'r0'),), False)


def link(kind: str, prev: str, i: int):
    """-> (extra definitions, PATH expression that refers to the path symbol `prev`)"""
    sfx = 'l%d' % i
    if kind == 'rel':
        return [], ('sym:' + prev, (('c', sfx + '/x'),), False)
    if kind == 'ref':
        return [], ('', (('r', prev), ('c', '/' + sfx)), False)
    if kind == 'bare':
        return [], ('', (('r', prev),), False)
    if kind == 'refq':
        return [], ('', (('r', prev), ('c', '/' + sfx + ' q')), True)
    if kind == 'rels':
        return [], ('sym:' + prev, (('r', 'S1'), ('c', '/' + sfx)), False)
    if kind == 'relsp':
        return [], ('sym:' + prev, (('c', sfx + ' q/'), ('r', 'S1')), True)
    if kind == 'str':
        # routed through a string symbol: the relativity would be lost => must be rejected
        return [('string', 'T%d' % i, (('r', prev), ('c', '/' + sfx)))], ('', (('r', 'T%d' % i),), False)
    if kind == 'plain':
        return [], ('', (('c', 'p%d/x' % i),), False)
    if kind == 'ref2':
        # two slashes after the reference: still relative to the symbol; the rest spells the home directory (see NAMES)
        return [], ('', (('r', prev), ('c', '/<HOME>/' + sfx)), False)
    if kind == 'ref3':
        return [], ('', (('r', prev), ('c', '//<HOME>/' + sfx + '/b')), False)
    if kind == 'str2':
        # ... through two string symbols
        return [('string', 'T%d' % i, (('r', prev), ('c', '/' + sfx))), ('string', 'TT%d' % i, (('c', 'tt/'), ('r', 'T%d' % i)))], \
               ('', (('r', 'TT%d' % i),), False)
    raise ValueError(kind)


def chain_program(root: str, links, use_link: str):
    defs = [('string', 'S1', (('c', 's1v'),)), ('path', 'P0', root_expr(root))]
    prev = 'P0'
    for i, lk in enumerate(links):
        extra, e = link(lk, prev, i + 1)
        defs += extra + [('path', 'P%d' % (i + 1), e)]
        prev = 'P%d' % (i + 1)
    extra, use = link(use_link, prev, 9)
    return defs + extra, use


def _pre_links(ls, d, n_links) -> bool:
    for i in range(len(ls)):
        if i < d:
            if not (0 <= ls[i] < n_links):
                return False
        elif ls[i] != 0:
            return False
    return True


FAILED = []  # the inner combinations (enumerated inside one path) that failed, for diagnosis of a replay


def _every(items, check) -> bool:
    """check(item) for every item of a finite catalogue that is enumerated INSIDE one path (stated in `bound`)"""
    ok = True
    for it in items:
        if not check(it):
            FAILED.append(it)
            ok = False
    return ok


def _pre_k2(l1: int, l2: int, l3: int, u: int) -> bool:
    case = ob.case()
    return _pre_links((l1, l2, l3), case['depth'], len(case['links'])) and 0 <= u < len(USES)


def k2_chain(l1: int, l2: int, l3: int, u: int) -> bool:
    """
    pre: _pre_k2(l1, l2, l3, u)
    post: _
    """
    from harness import _C12_lib as L
    case = ob.case()
    d = case['depth']
    links = [ob.pick(case['links'], x) for x in (l1, l2, l3)[:d]]
    use_link = ob.pick(USES, u)
    fx = L.UNIT_FIXTURE
    with L.untraced():
        defs, use = inst(chain_program(case['root'], links, use_link), fx)

        def check(conf_name):
            conf = L.CONFS[conf_name]
            return _agree(L.ref_program(defs, conf, use, fx), L.real_program(defs, conf.name, use, fx), fx,
                          case.get('oracle_bug'))

        ok = _every(case['confs'], check)
    return ob.post(ok)


# ----------------------------------------------------------------------------- K3

STUB_SUBPROCESS = ('subprocess module at process_executor / preprocessor: recording stub that starts nothing and reports exit code 0 '
                   '(the act phase is `$ true`)')
STUB_RESOLVER = 'counting sandbox resolver under a scratch dir (MainProgram constructor argument); --keep; in-memory stdout/stderr'
STUB_UNTRACED = ('CrossHair tracing is suspended (crosshair.tracers.NoTracing) once every selector has been made concrete: the real '
                 'code and the reference run on concrete data natively')

K3_RELS = ('',) + tuple('opt:' + k for k in ('cwd', 'home', 'act-home', 'act', 'tmp', 'result')) + ('here', 'sym:PA', 'sym:PH')
K3_NAMES = (
    ('a', (('c', 'a'),), False),
    ('a/b', (('c', 'a/b'),), False),
    ('"a b"', (('c', 'a b'),), True),
    ('x/@[S1]@', (('c', 'x/'), ('r', 'S1')), False),
    ('@[PA]@/a', (('r', 'PA'), ('c', '/a')), False),
    ('@[PH]@/a', (('r', 'PH'), ('c', '/a')), False),
    ('/abs/x', (('c', '<HOME>/x'),), False),
    ('@[SA]@/x', (('r', 'SA'), ('c', '/x')), False),
    ('@[PA]@//HOME/a', (('r', 'PA'), ('c', '/<HOME>/a')), False),
    ('@[PA]@///HOME/a/b', (('r', 'PA'), ('c', '//<HOME>/a/b')), False),
    ('@[PH]@//HOME/a', (('r', 'PH'), ('c', '/<HOME>/a')), False),
)
K3_ABS_NAMES = (6, 7)  # append only: indices are referred to by the known-finding witness
K3_PLAIN_NAMES = (0, 6, (8, 9, 10))
K3_ABS_PART = (4, 8, ())
K3_PRELUDE = PRELUDE + (('path', 'PH', ('opt:home', (('c', 'sub'),), False)),)


def _whole_program(defs_of, use_of, form: str, phase: str, bug=None, before_defs=(), after_defs=(), cwd='act',
                   extra_dirs=()) -> bool:
    """One run of the real main program: [setup] = before_defs + definitions + after_defs; the destination instruction(s) of
    `form` are appended to `phase`.  Compared with the manual (reference semantics of the destination + documented effects).
    `cwd`: the current directory (relative to the sandbox root) when the destination instruction runs."""
    from harness import _C12_lib as L
    conf = L.CONFS[L.FORM_CONF[form]]
    verdict = []

    def make_text(fx):
        defs, use = defs_of(fx), use_of(fx)
        secs = {'setup': list(before_defs) + [L.render_def(d) for d in defs] + list(after_defs)}
        secs[phase] = list(secs.get(phase, ())) + L.form_lines(form, L.render_expr(use))
        return L.case_text(secs)

    def inspect(run, fx):
        defs, use = defs_of(fx), use_of(fx)
        fx.cwd = (fx.sds_root + '/' + cwd) if fx.sds_root is not None else '/vsym-no-sandbox'
        idx, exp = L.ref_program(defs, conf, use, fx)
        if bug == 'accepts-all' and exp[0] != 'ok':
            verdict.append(run.rc == 0)
            return
        if exp[0] == 'ok':
            ok = (run.exc is None and run.rc == 0 and run.ident == 'PASS' and len(run.sandboxes) == 1
                  and not run.case_dir_changed and run.process_starts == 1
                  and L.created_as_expected(fx, exp[1].value(fx), form, extra_dirs))
        else:
            idents = {L.SYNTAX: ('SYNTAX_ERROR',), L.VALIDATION: ('VALIDATION_ERROR',),
                      L.REJECT: ('SYNTAX_ERROR', 'VALIDATION_ERROR')}[exp[0]]
            ok = L.rejected_without_effects(run, idents)
        verdict.append(ok)

    L.run_cli(make_text, inspect)
    return verdict[0]


def _pre_k3d(r: int, n: int) -> bool:
    case = ob.case()
    if not (0 <= r < len(K3_RELS) and in_names(n, case['names'])):
        return False
    if ob.excluded(REGION_ABS) and n in K3_ABS_NAMES:
        return False  # no destination argument accepts absolute paths: the whole shape lies in the region
    return True


def k3_direct(r: int, n: int) -> bool:
    """
    pre: _pre_k3d(r, n)
    post: _
    """
    from harness import _C12_lib as L
    case = ob.case()
    rel = ob.pick(K3_RELS, r)
    _, frags, quoted = ob.pick(K3_NAMES, n)
    with L.untraced():
        ok = _every(case['phases'], lambda phase: _whole_program(
            lambda fx: inst(K3_PRELUDE, fx), lambda fx: inst((rel, frags, quoted), fx), case['form'], phase,
            case.get('oracle_bug')))
    return ob.post(ok)


def _pre_k3c(root: int, l1: int, l2: int, u: int) -> bool:
    case = ob.case()
    return (_pre_links((l1, l2), case['depth'], len(case['links'])) and 0 <= root < len(ROOTS)
            and 0 <= u < len(case['uses']))


def k3_chain(root: int, l1: int, l2: int, u: int) -> bool:
    """
    pre: _pre_k3c(root, l1, l2, u)
    post: _
    """
    from harness import _C12_lib as L
    case = ob.case()
    d = case['depth']
    rootk = ob.pick(ROOTS, root)
    links = [ob.pick(case['links'], x) for x in (l1, l2)[:d]]
    use_link = ob.pick(case['uses'], u)
    with L.untraced():
        prog = chain_program(rootk, links, use_link)
        ok = _every(case['phases'], lambda phase: _whole_program(
            lambda fx: inst(prog[0], fx), lambda fx: inst(prog[1], fx), case['form'], phase, case.get('oracle_bug')))
    return ob.post(ok)


# ----------------------------------------------------------------------------- K4

CWD_ROOTS = ('cwd', 'default')
CD_AT = ('never', 'before-def', 'between', 'after-use')


def _pre_k4a(root: int, l1: int, l2: int, u: int, at: int) -> bool:
    case = ob.case()
    return (_pre_links((l1, l2), case['depth'], len(LINKS)) and 0 <= root < len(CWD_ROOTS) and 0 <= u < len(USES)
            and 0 <= at < len(CD_AT))


def k4_unit(root: int, l1: int, l2: int, u: int, at: int) -> bool:
    """
    pre: _pre_k4a(root, l1, l2, u, at)
    post: _
    """
    import os
    from harness import _C12_lib as L
    from vsym import scratch
    case = ob.case()
    d = case['depth']
    rootk = ob.pick(CWD_ROOTS, root)
    links = [ob.pick(LINKS, x) for x in (l1, l2)[:d]]
    use_link = ob.pick(USES, u)
    cd_at = ob.pick(CD_AT, at)
    bug = case.get('oracle_bug')
    with L.untraced():
        fx = L.UNIT_FIXTURE
        defs, use = inst(chain_program(rootk, links, use_link), fx)
        work = scratch.new_dir('c12cd')
        d1, d2 = work + '/dir-1', work + '/dir-2'
        os.mkdir(d1)
        os.mkdir(d2)
        old = os.getcwd()

        def check(conf_name):
            conf = L.CONFS[conf_name]
            tcds = L.real_tcds(fx)  # the one directory structure of this (modelled) test case
            os.chdir(d2 if cd_at == 'before-def' else d1)
            # the reference: evaluated in the directory that is current when the value is USED
            at_use = d2 if cd_at in ('before-def', 'between') else d1
            if bug == 'definition-time':
                at_use = d1
            ref_fx = L.Fixture(fx.home, fx.act_home, fx.sds_root, fx.here)
            ref_fx.cwd = at_use
            exp = L.ref_program(defs, conf, use, ref_fx)
            got = L.real_program(defs, conf.name, use, fx,
                                 before_use=(lambda: os.chdir(d2)) if cd_at == 'between' else None, tcds=tcds)
            ok = _agree(exp, got, ref_fx)
            if cd_at == 'after-use' and ok:
                # a second use of the SAME symbols (same definition objects, same directory structure), after the
                # directory has changed, sees the new directory
                os.chdir(d2)
                ref_fx.cwd = d2
                ok = _agree(L.ref_program(defs, conf, use, ref_fx), L.real_program(defs, conf.name, use, fx, tcds=tcds),
                            ref_fx)
            return ok

        try:
            ok = _every(USE_CONFS, check)
        finally:
            os.chdir(old)
            scratch.remove(work)
    return ob.post(ok)


def _whole_program_twice(defs_of, use_of, form: str, phase: str, cd_lines, tdir: str, bug: bool) -> bool:
    """[setup] definitions; in `phase`: the destination instruction(s), `dir D`, `cd D`, the SAME destination instruction(s)
    again.  Both must succeed; the first target lies under act/ (the directory current then), the second under D."""
    from harness import _C12_lib as L
    conf = L.CONFS[L.FORM_CONF[form]]
    verdict = []

    def make_text(fx):
        defs, use = defs_of(fx), use_of(fx)
        lines = L.form_lines(form, L.render_expr(use))
        secs = {'setup': [L.render_def(d) for d in defs]}
        secs[phase] = list(secs.get(phase, ())) + lines + list(cd_lines) + lines
        return L.case_text(secs)

    def inspect(run, fx):
        if fx.sds_root is None:
            verdict.append(False)
            return
        defs, use = defs_of(fx), use_of(fx)
        fx.cwd = fx.sds_root + '/act'
        first = L.ref_program(defs, conf, use, fx)[1]
        fx.cwd = fx.sds_root + '/' + ('act' if bug else tdir)
        second = L.ref_program(defs, conf, use, fx)[1]
        if first[0] != 'ok' or second[0] != 'ok':
            verdict.append(False)
            return
        t2 = second[1].value(fx)
        fx1 = L.Fixture(fx.home, fx.act_home, fx.sds_root, fx.here)
        fx1.cwd = fx.sds_root + '/act'
        t1 = first[1].value(fx1)
        ok = (run.exc is None and run.rc == 0 and run.ident == 'PASS' and not run.case_dir_changed
              and L.norm(t1).startswith(fx.sds_root + '/'))
        if ok:
            rel1 = L.norm(t1)[len(fx.sds_root) + 1:]
            ok = L.created_as_expected(fx, t2, form, (tdir, rel1)) and L.target_ok(t1, form)
        verdict.append(ok)

    L.run_cli(make_text, inspect)
    return verdict[0]


CD_TARGETS = ('-rel-act d1', '-rel-tmp d1', 'd1')  # d1 is made by `dir` just before
CD_TARGET_DIR = {'-rel-act d1': 'act/d1', '-rel-tmp d1': 'tmp/d1', 'd1': 'act/d1'}
K4_USES = ('rel', 'ref', 'refq', 'bare', 'direct', 'direct-default')
K4_CD_AT = ('never', 'before-def', 'between', 'between-uses')


def _pre_k4b(root: int, l1: int, u: int, at: int, t: int) -> bool:
    case = ob.case()
    if not (0 <= root < len(CWD_ROOTS) and 0 <= l1 < len(case['links']) and 0 <= u < len(K4_USES)
            and 0 <= at < len(K4_CD_AT) and 0 <= t < len(CD_TARGETS)):
        return False
    if at == 0 and t != 0:
        return False  # no `cd`: its target is immaterial
    if u >= 4 and (root != 0 or l1 != 0):
        return False  # destination written without symbols: the chain is immaterial
    return True


def k4_program(root: int, l1: int, u: int, at: int, t: int) -> bool:
    """
    pre: _pre_k4b(root, l1, u, at, t)
    post: _
    """
    from harness import _C12_lib as L
    case = ob.case()
    rootk = ob.pick(CWD_ROOTS, root)
    lk = ob.pick(case['links'], l1)
    use = ob.pick(K4_USES, u)
    cd_at = ob.pick(K4_CD_AT, at)
    target = ob.pick(CD_TARGETS, t)
    bug = case.get('oracle_bug')
    with L.untraced():
        if use == 'direct':
            defs, use_expr = [('string', 'S1', (('c', 's1v'),))], ('opt:cwd', (('c', 'r0/f'),), False)
        elif use == 'direct-default':
            defs, use_expr = [('string', 'S1', (('c', 's1v'),))], ('', (('c', 'r0/f'),), False)
        elif lk == 'none':
            defs, use_expr = chain_program(rootk, [], use)  # the destination refers to P0 itself
        else:
            defs, use_expr = chain_program(rootk, [lk], use)
        tdir = CD_TARGET_DIR[target]
        cd_lines = ['dir %s' % target, 'cd %s' % target]
        if cd_at == 'between-uses':
            # the same destination is used, then `cd`, then used AGAIN: the second use lies under the new directory
            ok = _every(case['phases'], lambda phase: _whole_program_twice(
                lambda fx: inst(defs, fx), lambda fx: inst(use_expr, fx), case['form'], phase, cd_lines, tdir,
                bug == 'definition-time'))
        else:
            if cd_at == 'never':
                before, after, cwd, extra = [], [], 'act', ()
            elif cd_at == 'before-def':
                before, after, cwd, extra = cd_lines, [], tdir, (tdir,)
            else:
                before, after, cwd, extra = [], cd_lines, tdir, (tdir,)
            if bug == 'definition-time' and cd_at == 'between':
                cwd = 'act'
            ok = _every(case['phases'], lambda phase: _whole_program(
                lambda fx: inst(defs, fx), lambda fx: inst(use_expr, fx), case['form'], phase, None, before, after, cwd,
                extra))
    return ob.post(ok)


# ----------------------------------------------------------------------------- K5

READ_FORMS = ('copy-src', 'contents-of', 'contents', 'exists')
READ_PHASES = {'copy-src': ('setup', 'before-assert', 'assert', 'cleanup'),
               'contents-of': ('setup', 'before-assert', 'assert', 'cleanup'),
               'contents': ('assert',), 'exists': ('assert',)}
K5_ROOTS = ROOTS + ('result-file',)
OUT_FILE = 'tmp/out/read'


def read_conf(form: str, phase: str) -> str:
    if form in ('contents', 'exists'):
        return form
    return {'copy-src': 'copy-src', 'contents-of': 'contents-of'}[form] + ('-pre' if phase == 'setup' else '-post')


def read_lines(form: str, src: str, expected_contents: str):
    if form == 'copy-src':
        return ['copy %s -rel-tmp out/read' % src]
    if form == 'contents-of':
        return ['file -rel-tmp out/read = -contents-of %s' % src]
    if form == 'contents':
        return ["contents %s : equals '%s'" % (src, expected_contents)]
    if form == 'exists':
        return ["exists %s : ( type file && contents equals '%s' )" % (src, expected_contents)]
    raise ValueError(form)


def _read_program(rootk: str, links, use_link: str, form: str, phase: str, bug=None) -> bool:
    """The chain denotes a file to READ.  A marker file with distinct contents lies at the same relative location under
    every root (home, act-home, source-file location: made beforehand; act, tmp, current directory = act/cwd-dir: made
    by [setup]); the instruction must read the one under the root the manual prescribes, or be rejected."""
    import os
    from harness import _C12_lib as L
    conf = L.CONFS[read_conf(form, phase)]
    verdict = []
    state = {}

    def program(fx):
        if rootk == 'result-file':
            return [('string', 'S1', (('c', 's1v'),))], ('opt:result', (('c', 'exit-code'),), False)
        return inst(chain_program(rootk, links, use_link), fx)

    def make_text(fx):
        defs, use = program(fx)
        ref_fx = L.Fixture(fx.home, fx.act_home, '/vsym-sds', fx.here)
        ref_fx.cwd = '/vsym-sds/act/cwd-dir'
        idx, exp = L.ref_program(defs, conf, use, ref_fx)
        state['exp'] = exp
        rel = 'r0'
        markers = {}
        if exp[0] == 'ok':
            v = exp[1]
            rel = '/'.join(p for p in v.parts if p != '')
            if v.kind == 'abs':
                rel = os.path.relpath(v.value(ref_fx), fx.home)
                if rel.startswith('..'):
                    rel = os.path.relpath(v.value(ref_fx), fx.here)
        state['rel'] = rel
        setup = []
        if rootk != 'result-file':
            for base, text in ((fx.home, 'home'), (fx.act_home, 'act-home'), (fx.here, 'here')):
                p = os.path.join(base, rel)
                os.makedirs(os.path.dirname(p), exist_ok=True)
                with open(p, 'w') as f:
                    f.write(text)
                markers[L.norm(p)] = text
            setup += ['file -rel-act "%s" = \'act\'' % rel, 'file -rel-tmp "%s" = \'tmp\'' % rel]
        setup += ['dir -rel-act cwd-dir', 'cd -rel-act cwd-dir']
        if rootk != 'result-file':
            setup += ['file "%s" = \'cwd\'' % rel]
        state['markers'] = markers
        expected = ''
        if exp[0] == 'ok':
            val = exp[1].value(ref_fx)
            if val.startswith('/vsym-sds/'):
                expected = {'act/cwd-dir': 'cwd', 'act': 'act', 'tmp': 'tmp', 'result': '0'}[
                    [k for k in ('act/cwd-dir', 'act', 'tmp', 'result') if val.startswith('/vsym-sds/' + k + '/')][0]]
            else:
                expected = markers.get(L.norm(val), '<no marker>')
        if bug == 'wrong-root' and expected in ('home', 'act'):
            expected = 'tmp'
        state['expected'] = expected
        secs = {'setup': setup + [L.render_def(d) for d in defs]}
        secs[phase] = list(secs.get(phase, ())) + read_lines(form, L.render_expr(use), expected)
        return L.case_text(secs)

    def inspect(run, fx):
        exp = state['exp']
        if exp[0] != 'ok':
            idents = {L.SYNTAX: ('SYNTAX_ERROR',), L.VALIDATION: ('VALIDATION_ERROR',),
                      L.REJECT: ('SYNTAX_ERROR', 'VALIDATION_ERROR')}[exp[0]]
            verdict.append(L.rejected_without_effects(run, idents))
            return
        ok = (run.exc is None and run.rc == 0 and run.ident == 'PASS' and len(run.sandboxes) == 1
              and not run.case_dir_changed)
        if ok and form in ('copy-src', 'contents-of'):
            p = os.path.join(fx.sds_root, OUT_FILE)
            ok = os.path.isfile(p)
            if ok:
                with open(p) as f:
                    ok = f.read() == state['expected']
        verdict.append(ok)

    L.run_cli(make_text, inspect)
    return verdict[0]


def _pre_k5(root: int, l1: int, l2: int, u: int) -> bool:
    case = ob.case()
    if not (_pre_links((l1, l2), case['depth'], len(case['links'])) and 0 <= root < len(K5_ROOTS)
            and 0 <= u < len(case['uses'])):
        return False
    if K5_ROOTS[root] == 'result-file' and (l1 != 0 or l2 != 0 or u != 0):
        return False
    return True


def k5_read(root: int, l1: int, l2: int, u: int) -> bool:
    """
    pre: _pre_k5(root, l1, l2, u)
    post: _
    """
    from harness import _C12_lib as L
    case = ob.case()
    d = case['depth']
    rootk = ob.pick(K5_ROOTS, root)
    links = [ob.pick(case['links'], x) for x in (l1, l2)[:d]]
    use_link = ob.pick(case['uses'], u)
    form = case['form']
    with L.untraced():
        phases = [ph for ph in case['phases'] if ph in READ_PHASES[form]]
        if rootk == 'result':
            # below result/ only Exactly's own three files exist: a chain rooted there is checked where it must be rejected
            # (before the act phase); `-rel-result exit-code` (root 'result-file') covers the accepted side
            phases = [ph for ph in phases if read_conf(form, ph).endswith('-pre') or form in ('contents', 'exists')]
        ok = _every(phases, lambda phase: _read_program(rootk, links, use_link, form, phase, case.get('oracle_bug')))
    return ob.post(ok)


MID_LINKS_QUICK = ('rel', 'ref', 'str2', 'ref2')


def obligations(tier: str) -> List[Ob]:
    from harness import _C12_lib as L
    obs = []
    quick = tier == 'quick'
    inner = ' (enumerated inside each path)'
    # ---- K1
    real_unit = REAL_PARSE + REAL_RESOLVE + REAL_SYMBOLS
    for cn in L.CONFS:
        for part, idx in (('names', K1_PLAIN_NAMES), ('absolute', K1_ABS_PART)):
            obs.append(Ob(
                name='K1:%s:%s' % (cn, part), fn='k1_argument', case=dict(conf=cn, names=idx), kernel='K1', selector=True,
                bound='argument %s x RELATIVITY in %s x FILE-NAME in %s' % (
                    cn, [r or '(none)' for r in RELS], [NAMES[i][0] for i in names_of(idx)]),
                timeout=300, real=real_unit, stubs=(STUB_FIXTURE, STUB_UNTRACED),
                entry='parse_path.parse_path(tokens, <configuration of the real argument>) -> validate_symbol_usages -> resolve',
                outside=('FILE-NAMEs with `..` components (the value is root joined with FILE-NAME as written)',)))
    obs.append(Ob(name='K1:seeded-oracle-error', fn='k1_argument', case=dict(conf='copy-src-pre', names=(1, 3, ()), oracle_bug='kind'),
                  kernel='K1', selector=True, bound='seeded: every value is claimed to be relative to the current directory',
                  timeout=120, expect=ob.REFUTE))
    # ---- K2
    for d in ((0, 1, 2) if quick else (0, 1, 2, 3)):
        links = MID_LINKS_QUICK if (quick and d == 2) else LINKS
        for root in ROOTS:
            obs.append(Ob(
                name='K2:%s:d%d' % (root, d), fn='k2_chain', case=dict(root=root, depth=d, links=links, confs=USE_CONFS), kernel='K2',
                selector=True,
                bound='P0 = %s; %d further definitions each in %s; used as %s; in each of the arguments %s%s' % (
                    L.render_expr(root_expr(root)), d, links_text(links), links_text(USES), list(USE_CONFS), inner),
                timeout=300 if d < 3 else 1800, real=real_unit, stubs=(STUB_FIXTURE, STUB_UNTRACED),
                entry='`def` of the default [setup] instruction set -> validate_symbol_usages -> parse_path -> resolve'))
    obs.append(Ob(name='K2:seeded-oracle-error', fn='k2_chain',
                  case=dict(root='home', depth=1, links=LINKS, confs=('copy-src-pre',), oracle_bug='value'),
                  kernel='K2', selector=True, bound='seeded: the oracle appends a component', timeout=120, expect=ob.REFUTE))
    obs.append(Ob(name='K2:seeded-oracle-error-stage', fn='k2_chain',
                  case=dict(root='home', depth=1, links=LINKS, confs=('file-dst',), oracle_bug='stage'),
                  kernel='K2', selector=True, bound='seeded: rejection by validation is claimed to be a syntax error', timeout=120,
                  expect=ob.REFUTE))
    # ---- K3
    real_k3 = real_unit + REAL_INSTRUCTIONS
    stubs_k3 = (STUB_SUBPROCESS, STUB_RESOLVER, STUB_UNTRACED)
    outside_k3 = ('effects outside the sandbox, the directory of the test-case file and the two home directories',)
    for form in L.FORMS:
        for part, idx in (('names', K3_PLAIN_NAMES), ('absolute', K3_ABS_PART)):
            obs.append(Ob(
                name='K3:direct:%s:%s' % (form, part), fn='k3_direct',
                case=dict(names=idx, form=form, phases=L.PHASES), kernel='K3', selector=True,
                bound='%s with destination RELATIVITY in %s x FILE-NAME in %s; in each of %s%s' % (
                    L.form_lines(form, 'DST'), [r or '(none)' for r in K3_RELS], [K3_NAMES[i][0] for i in names_of(idx)], list(L.PHASES),
                    inner),
                timeout=600, real=real_k3, stubs=stubs_k3, outside=outside_k3,
                entry='MainProgram.execute(["--keep", FILE])'))
    k3_chain_cases = []
    for form in L.FORMS:
        k3_chain_cases.append((form, 0, LINKS, USES, L.PHASES))
        if quick:
            k3_chain_cases.append((form, 1, LINKS, ('rel', 'ref', 'refq', 'plain', 'ref2'), ('setup', 'assert')))
        else:
            k3_chain_cases.append((form, 1, LINKS, USES, L.PHASES))
            k3_chain_cases.append((form, 2, LINKS, USES, L.PHASES))
    for form, d, links, uses, phases in k3_chain_cases:
        obs.append(Ob(
            name='K3:chain:%s:d%d' % (form, d), fn='k3_chain', case=dict(form=form, depth=d, links=links, uses=uses, phases=phases),
            kernel='K3', selector=True,
            bound='[setup] def path P0 = <each of %s> r0; %d further definitions each in %s; %s with destination referring to the '
                  'last symbol as each of %s; in each of %s%s' % (list(ROOTS), d, links_text(links), L.form_lines(form, 'DST'), links_text(uses),
                                                                  list(phases), inner),
            timeout=900 if d < 2 else 3600, real=real_k3, stubs=stubs_k3, outside=outside_k3,
            entry='MainProgram.execute(["--keep", FILE])'))
    obs.append(Ob(name='K3:seeded-oracle-error', fn='k3_chain',
                  case=dict(form='file=', depth=0, links=LINKS, uses=('rel', 'ref', 'str'), phases=('setup',), oracle_bug='accepts-all'),
                  kernel='K3', selector=True, bound='seeded: the oracle claims that every destination is accepted', timeout=300,
                  expect=ob.REFUTE))
    # ---- K4
    for d in ((0, 1) if quick else (0, 1, 2)):
        obs.append(Ob(
            name='K4:unit:d%d' % d, fn='k4_unit', case=dict(depth=d), kernel='K4', selector=True,
            bound='P0 = -rel-cd r0 | r0 (default relativity); %d further definitions each in %s; used as %s; the current directory '
                  'changes %s; in each of the arguments %s%s' % (d, links_text(LINKS), links_text(USES), list(CD_AT), list(USE_CONFS), inner),
            timeout=600 if d < 2 else 3000,
            real=real_unit + ('exactly_lib.tcfs.relativity_root.RelNonHdsRootResolverForCwd',),
            stubs=(STUB_FIXTURE, STUB_UNTRACED, 'two real scratch directories, os.chdir'),
            entry='`def` -> validate_symbol_usages -> parse_path -> resolve, os.chdir between the steps'))
    obs.append(Ob(name='K4:unit:seeded-oracle-error', fn='k4_unit', case=dict(depth=1, oracle_bug='definition-time'), kernel='K4',
                  selector=True, bound='seeded: -rel-cd is claimed to be resolved when defined', timeout=300, expect=ob.REFUTE))
    k4_links = ('none', 'rel', 'ref') if quick else ('none', 'rel', 'ref', 'bare', 'refq', 'rels', 'relsp', 'ref2')
    k4_cases = ([('file=', ('setup', 'assert')), ('copy', ('before-assert',)), ('dir', ('cleanup',))] if quick
                else [(f, L.PHASES) for f in L.FORMS])
    for form, phases in k4_cases:
        obs.append(Ob(
            name='K4:program:%s' % form, fn='k4_program', case=dict(links=k4_links, form=form, phases=phases),
            kernel='K4', selector=True,
            bound='[setup] P0 = -rel-cd r0 | r0; one further definition in %s; `dir D` + `cd D` (D in %s) before the definitions / '
                  'after them / between two uses of the same destination / not at all; %s with destination as each of %s; in each of %s%s' % (
                      links_text(k4_links), list(CD_TARGETS), L.form_lines(form, 'DST'), list(K4_USES), list(phases), inner),
            timeout=900, real=real_k3, stubs=stubs_k3, outside=outside_k3, entry='MainProgram.execute(["--keep", FILE])'))
    obs.append(Ob(name='K4:program:seeded-oracle-error', fn='k4_program',
                  case=dict(links=('rel',), form='file=', phases=('setup',), oracle_bug='definition-time'), kernel='K4',
                  selector=True, bound='seeded: -rel-cd is claimed to be resolved when defined', timeout=600, expect=ob.REFUTE))
    # ---- K5
    real_k5 = real_unit + (
        'exactly_lib.impls.instructions.multi_phase.copy.EmbryoParser',
        'exactly_lib.impls.instructions.multi_phase.copy.TheInstructionEmbryoBase',
        'exactly_lib.impls.instructions.multi_phase.copy.src_rel_opt_arg_conf_for_phase',
        'exactly_lib.impls.types.string_source.parse._FileParser',
        'exactly_lib.impls.types.string_source.defs.src_rel_opt_arg_conf_for_phase',
        'exactly_lib.impls.instructions.assert_.existence_of_file.Parser',
        'exactly_lib.impls.instructions.assert_.contents_of_file._ActualFileParser',
        'exactly_lib.type_val_deps.types.path.path_relativities',
        'exactly_lib.cli.main_program.MainProgram.execute',
    )
    for form in READ_FORMS:
        k5_cases = [(0, LINKS, USES, L.PHASES)]
        if quick:
            k5_cases.append((1, LINKS, ('rel', 'ref', 'refq', 'plain', 'ref2'), ('setup', 'assert')))
        else:
            k5_cases.append((1, LINKS, USES, L.PHASES))
            k5_cases.append((2, MID_LINKS_QUICK, USES, L.PHASES))
        for d, links, uses, phases in k5_cases:
            phs = [ph for ph in phases if ph in READ_PHASES[form]]
            obs.append(Ob(
                name='K5:%s:d%d' % (form, d), fn='k5_read', case=dict(form=form, depth=d, links=links, uses=uses, phases=phases),
                kernel='K5', selector=True,
                bound='[setup] marker files at the same relative location under every root; def path P0 = <each of %s> r0 '
                      '(or -rel-result exit-code); %d further definitions each in %s; %s with the source referring to the last '
                      'symbol as each of %s; in each of %s%s' % (
                          list(ROOTS), d, links_text(links), read_lines(form, 'SRC', 'MARKER'), links_text(uses), phs, inner),
                timeout=900 if d < 2 else 3600, real=real_k5, stubs=stubs_k3,
                outside=outside_k3 + ('chains rooted in the result directory used after the act phase (only Exactly\'s own three '
                                      'files exist there; `-rel-result exit-code` is used instead)',),
                entry='MainProgram.execute(["--keep", FILE])'))
    obs.append(Ob(name='K5:seeded-oracle-error', fn='k5_read',
                  case=dict(form='contents-of', depth=0, links=LINKS, uses=('rel',), phases=('setup',), oracle_bug='wrong-root'),
                  kernel='K5', selector=True, bound='seeded: the oracle expects the file below tmp/ where home / act is denoted',
                  timeout=300, expect=ob.REFUTE))
    return obs


ASSUMPTIONS = [
    'paths are concrete data (pathlib / the file system are a C boundary); all symbolic variables are selectors into finite '
    'catalogues, made concrete by forking (ob.pick) before the real code runs; CrossHair tracing is suspended while harness + real '
    'code run on the concrete data (crosshair.tracers.NoTracing), the solver enumerates the selector space exhaustively',
    'dimensions marked "(enumerated inside each path)" in the bounds (phase, argument configuration) are enumerated by a plain loop '
    'inside the harness function, all other dimensions by the path tree',
    'the accepted relativities and the default relativity of each argument are the ones printed by `exactly help <phase> '
    '<instruction>` (table _C12_lib.CONFS, written by hand from the help texts)',
    'whole-program kernels: subprocess is replaced by a recording stub that starts nothing (act phase `$ true`); the sandbox root '
    'comes from the resolver handed to MainProgram; --keep leaves the sandbox for inspection',
    'the current directory at the start of [setup] is the act directory and a `cd` persists into later phases (C04, C11)',
]
OUTSIDE = [
    'FILE-NAMEs that contain `..` components (root joined with FILE-NAME is what the manual promises; `..` can leave the root)',
    'PATH arguments other than those of file, dir, copy, cd, def, exists, contents, -contents-of (program arguments -existing-file '
    'etc., files-source `copy`, actor source files, conf-phase home / act-home)',
    'chains of more than 3 definitions; symbol definitions in phases other than [setup]',
    'hard-quoted FILE-NAMEs and the tokenizer in general (C09)',
]
