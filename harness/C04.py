"""C04  Sandbox lifecycle and isolation of the Exactly process.

K1  The real `full_execution.execute` (vsym.exeharness) with: where execution ends and how
    (fault site concrete per obligation, fault kind symbolic), --keep (symbolic), the exit code
    of the action to check (selector over {0,1,2,127,255}: it is written to a file), and a
    misbehaving stub instruction (selector): changes directory, makes sandbox files read-only,
    modifies the environment mapping it is given and the one the default getter returns.
    Every stub step additionally uses exactly_lib's internal tmp-file API.
    Observed from inside the stub steps and after return; compared with the documented layout
    and lifecycle.
K2  --keep: the path of the sandbox is reported however execution ends (C02's chain).
K3  result/ and the layout with the REAL actors (command line: shell / program / program symbol,
    with and without -transformed-by, with stdin; source interpreter; file interpreter; null)
    through the REAL MainProgram --keep; the child process is a stand-in at `subprocess` level that
    writes through the descriptors it is given.                                        [selector]
"""
import os
from typing import List

from vsym import ob
from vsym.ob import Ob

PROPERTY = 'C04'

EXIT_CODES = (0, 1, 2, 127, 255)
# 'result-files-exist': [setup] leaves files named stdout / stderr / exit-code in result/ (round 6: C04-r6m1 opened the result files of
# the action in append mode)
# 'entries-in-sandbox-root': [setup] creates a file and a non-empty directory directly in the sandbox root, beside act/ (round 7:
# C04-r7m1 removed only the four documented sub directories and then the root if it was empty)
MISBEHAVIOURS = ('none', 'chdir-home', 'chdir-tmp', 'read-only-files', 'environ', 'rm-cwd', 'result-files-exist',
                 'entries-in-sandbox-root')

REAL = (
    'exactly_lib.execution.partial_execution.execution.execute',
    'exactly_lib.execution.partial_execution.impl.executor._PartialExecutor._setup_post_sds_environment',
    'exactly_lib.execution.partial_execution.impl.executor._PartialExecutor._set_cwd_to_act_dir',
    'exactly_lib.execution.partial_execution.impl.executor._PartialExecutor._construct_and_set_sds',
    'exactly_lib.execution.partial_execution.impl.executor._PartialExecutor._env_vars__read_only',
    'exactly_lib.execution.partial_execution.impl.executor._PartialExecutor._post_sds_environment',
    'exactly_lib.execution.partial_execution.impl.atc_execution.ActionToCheckExecutor._std_output_files',
    'exactly_lib.execution.partial_execution.impl.atc_execution.ActionToCheckExecutor._store_exit_code',
    'exactly_lib.execution.partial_execution.impl.atc_execution.ActionToCheckExecutor._register_outcome',
    'exactly_lib.execution.phase_file_space.PhaseTmpFileSpaceFactory',
    'exactly_lib.tcfs.sds.construct_at',
    'exactly_lib.tcfs.sds.SandboxDs',
    'exactly_lib.util.file_utils.misc_utils.preserved_cwd',
    'exactly_lib.util.file_utils.misc_utils.open_and_make_read_only_on_close__text',
    'exactly_lib.execution.predefined_properties.os_environ_getter',
)


_CAT = []


def _fault_catalogue():
    if not _CAT:
        _CAT.append(_fault_catalogue_())
    return _CAT[0]


def _fault_catalogue_():
    from harness import C01
    n = (1, 1, 1, 1, 1)
    cells = C01.canonical(n)
    cat = [('none', -1)]
    seen = set()
    for i, (c, fam) in enumerate(cells):
        if fam not in seen:
            seen.add(fam)
            cat.append((fam, i))
    cat.append(('cleanup', -2))
    # double faults: a failing step AND a failing cleanup instruction (hard error)
    for fam in ('setup-main', 'execute', 'ba-main', 'assert-main'):
        i = [j for j, (c, f_) in enumerate(cells) if f_ == fam][0]
        cat.append((fam + '+cleanup', -100 - i))
    return n, cells, cat


def _pre_k1(kind: int, keep: bool, xsel: int, mis: int) -> bool:
    from harness import C01
    n, cells, cat = _fault_catalogue()
    fam, idx = cat[ob.case()['fault']]
    if idx <= -100:
        if kind not in C01.valid_kinds(cells[-100 - idx][0]):
            return False
    elif idx >= 0:
        if kind not in C01.valid_kinds(cells[idx][0]):
            return False
    elif idx == -2:
        if kind not in (2, 3, 4):
            return False
    elif kind != 0:
        return False
    if not (0 <= xsel < len(EXIT_CODES) and 0 <= mis < len(MISBEHAVIOURS)):
        return False
    if idx <= -100 and (mis != 0 or xsel != 0):
        return False  # double faults: without misbehaviour
    if ob.case().get('tier') == 'quick' and mis != 0 and idx != -1:
        # quick tier: misbehaviours only together with the first applicable kind of ending
        first = C01.valid_kinds(cells[idx][0])[0] if idx >= 0 else 2
        if kind != first:
            return False
    if xsel != 0 and (mis != 0 or fam in C01.PRE_SANDBOX_FAMILIES + ('setup-main', 'post', 'exe-input', 'prepare', 'execute')):
        return False  # exit codes other than the first: only where the action completes, without misbehaviour
    return True


class Facts:
    pass


def _read(path: str) -> str:
    with open(path) as fh:
        return fh.read()


def run(fault_idx: int, kind: int, keep: bool, xsel: int, mis: int) -> Facts:
    from harness import C01
    from vsym import exeharness as xh
    n, cells, cat = _fault_catalogue()
    fam, idx = cat[fault_idx]
    kind = ob.concrete_int(kind, 0, 5)
    keep = ob.concrete_bool(keep)
    code = ob.pick(EXIT_CODES, xsel)
    misb = ob.pick(MISBEHAVIOURS, mis)
    f = Facts()
    f.fam, f.idx, f.kind, f.keep, f.code, f.mis = fam, idx, kind, keep, code, misb
    f.problems = []
    f.post_sds_steps = 0
    f.saw_result_files = False
    f.env_marker = 'VSYM_C04_MARKER'
    state = dict(first=True, atc_done=False, wrote_user_tmp=False)

    first_idx = (-100 - idx) if idx <= -100 else idx

    def kind_of(cell) -> int:
        if cell[0] == 'cleanup' and cell[1] == 'main':
            return kind if idx == -2 else 2 if idx <= -100 else 0
        if first_idx >= 0 and cell == cells[first_idx][0]:
            return kind
        return 0

    def observer(cell, env, ctx):
        sds = getattr(env, 'sds', None) if env is not None else None
        try:
            sds = env.sds if env is not None and hasattr(env, 'sds') else None
        except Exception:  # noqa
            sds = None
        if sds is None:
            return
        f.post_sds_steps += 1
        if 'root' not in state:
            state['root'] = str(sds.root_dir)
        rs = state['root']
        if state['first']:
            state['first'] = False
            # documented layout, act/ is the current directory
            for d in ('act', 'tmp', 'result', 'internal'):
                if not os.path.isdir(rs + '/' + d):
                    f.problems.append('missing dir %s' % d)
            if os.getcwd() != rs + '/act':
                f.problems.append('cwd is not act/ at the first step after sandbox creation')
            if sorted(os.listdir(rs)) != ['act', 'internal', 'result', 'tmp']:
                f.problems.append('unexpected entries in sandbox root: %r' % sorted(os.listdir(rs)))
            if os.listdir(rs + '/act') or os.listdir(rs + '/result'):
                f.problems.append('act/ or result/ not empty at start')
        # tmp/ is never touched by Exactly itself
        if os.listdir(rs + '/tmp'):
            f.problems.append('tmp/ not empty at %r' % (cell,))
        # the environment mapping handed to instructions is not os.environ itself
        settings = ctx.get('settings')
        if settings is not None and cell[0] == 'setup':
            e = settings.environ()
            if e is os.environ:
                f.problems.append('instruction settings environ is os.environ')
            d = settings.default_environ_getter()
            if d is os.environ:
                f.problems.append('default environ getter returns os.environ itself')
        # result/ after the act phase
        if cell[0] in ('ba', 'assert', 'cleanup') and cell[1] == 'main' and state['atc_done']:
            names = sorted(os.listdir(rs + '/result'))
            if names != ['exit-code', 'stderr', 'stdout']:
                f.problems.append('result/ holds %r' % names)
            else:
                f.saw_result_files = True
                if _read(rs + '/result/stdout') != 'atc-out' or _read(rs + '/result/stderr') != 'atc-err' or \
                        _read(rs + '/result/exit-code') != str(code):
                    f.problems.append('result files do not hold the outcome of the action to check')
        if cell == ('act', 'execute', 0) and kind_of(cell) == 0:
            state['atc_done'] = True
        # use exactly_lib's tmp-file API the way real instructions do (must not touch tmp/)
        if cell[1] in ('main', 'execute') and hasattr(env, 'tmp_dir__path_access'):
            p = env.tmp_dir__path_access.paths_access.new_path('vsym')
            p.parent.mkdir(parents=True, exist_ok=True)
            p.write_text('x')
        # the misbehaving instruction: the first setup main
        if cell == ('setup', 'main', 0):
            root = sds.root_dir
            if misb == 'chdir-home':
                os.chdir(str(env.hds.case_dir))
            elif misb == 'chdir-tmp':
                os.chdir(str(root / 'internal'))
            elif misb == 'read-only-files':
                a = root / 'act' / 'ro.txt'
                a.write_text('x')
                os.chmod(str(a), 0o400)
                sub = root / 'act' / 'sub'
                sub.mkdir()
                b = sub / 'ro2.txt'
                b.write_text('y')
                os.chmod(str(b), 0o400)
            elif misb == 'environ':
                if settings is not None:
                    d = settings.default_environ_getter()
                    d[f.env_marker] = '1'
                    settings.set_environ(d)
                    settings.environ()[f.env_marker + '2'] = '2'
            elif misb == 'entries-in-sandbox-root':
                (root / 'extra.txt').write_text('x')
                (root / 'extra-dir').mkdir()
                (root / 'extra-dir' / 'f').write_text('y')
            elif misb == 'result-files-exist':
                (root / 'result' / 'stdout').write_text('LEFTOVER-OUT;')
                (root / 'result' / 'stderr').write_text('LEFTOVER-ERR;')
                (root / 'result' / 'exit-code').write_text('99')
            elif misb == 'rm-cwd':
                sub = root / 'act' / 'gone'
                sub.mkdir()
                os.chdir(str(sub))
                os.rmdir(str(sub))

    plan = xh.Plan(kind_of, observer)
    plan.exit_code = code

    def after(r):
        f.sandbox_listing = []
        for root in r.sandbox_roots:
            if os.path.isdir(root):
                f.sandbox_listing.append(sorted(os.listdir(root)))
            else:
                f.sandbox_listing.append(None)

    tc = xh.stub_test_case(plan, n, None)
    r = xh.execute(plan, tc, is_keep_sandbox=keep, after=after)
    f.run = r
    if idx <= -100:
        x = C01.expected(n, first_idx, kind, 0, 2, 0)
    else:
        x = C01.expected(n, idx if idx >= 0 else -1, kind if idx >= 0 else 0, 0 if idx == -2 else -1, kind if idx == -2 else 0, 0)
    f.expected = x
    return f


def k1_lifecycle(kind: int, keep: bool, xsel: int, mis: int) -> bool:
    """
    pre: _pre_k1(kind, keep, xsel, mis)
    post: _
    """
    f = run(ob.case()['fault'], kind, keep, xsel, mis)
    r, x = f.run, f.expected
    bug = ob.case().get('oracle_bug')
    if r.exception is not None or r.result is None:
        return False
    ok = not f.problems
    # a sandbox is created iff execution gets past validation; exactly one
    ok = ok and (len(r.sandbox_roots) == (1 if x.sandbox else 0))
    if x.sandbox:
        ok = ok and f.post_sds_steps > 0
        if f.keep or bug == 'never-removed':
            # left intact, and its path reported
            # --keep: the sandbox is left intact - also what the test itself put into its root
            extra = ['extra-dir', 'extra.txt'] if (f.mis == 'entries-in-sandbox-root' and ('setup', 'main', 0) in r.trace) else []
            ok = ok and f.sandbox_listing[0] == sorted(['act', 'internal', 'result', 'tmp'] + extra)
            ok = ok and r.result.has_sds and str(r.result.sds.root_dir) == r.sandbox_roots[0]
        else:
            ok = ok and (f.sandbox_listing[0] is None)
    # result/ was observed complete whenever a later step ran after a completed act phase
    if x.atc_completed and x.n_cleanup_run > 0:
        ok = ok and f.saw_result_files
    # the process is as before
    ok = ok and r.cwd_after == r.cwd_before
    ok = ok and r.environ_after == r.environ_before
    return ob.post(ok)


# ----------------------------------------------------------------------------- K2: --keep reports the path

def _pre_k2(kind: int, opt: int) -> bool:
    from harness import C01
    if not (0 <= opt <= 2):
        return False
    if ob.case().get('keep_only') and opt != 1:
        return False
    n, cells, cat = _fault_catalogue()
    fam, idx = cat[ob.case()['fault']]
    if idx >= 0:
        return kind in C01.valid_kinds(cells[idx][0])
    if idx == -2:
        return kind in (2, 3, 4)
    return kind == 0 and idx == -1


def k2_keep_reports_path(kind: int, opt: int) -> bool:
    """
    pre: _pre_k2(kind, opt)
    post: _
    """
    from harness import C02
    bug = ob.case().get('oracle_bug')
    # the real standalone Processor.process with the reporter of every output mode (C02's chain; opt: 0 = default,
    # 1 = --keep, 2 = --act), status PASS, accessor ok: the reporter decides whether the executor keeps the sandbox
    rc, stdout, stderr, f = C02.run_chain(ob.case()['fault'], kind, 0, opt, 0, 0)
    e = C02.expected_chain(f)
    if e['sandbox'] != bool(f['roots']):
        return False
    keep = C02.OPTIONS[f['opt']] == 'keep'
    if not f['roots']:
        return ob.post(((stdout == '') if not bug else (stdout != '')) if keep else True)
    if not keep:
        # no --keep: the sandbox is removed however execution ended, and its path is not what is printed
        return ob.post(not f['kept'][0] and f['roots'][0] not in stdout)
    # the sandbox is left intact and its path is the only thing on stdout, however execution ended
    return ob.post(f['kept'][0] and stdout == f['roots'][0] + '\n')


# ----------------------------------------------------------------------------- K3: result/ with the REAL actors

# (name, [conf] lines, [setup] lines, [act] lines, does a child process run?, is stdout transformed (to upper case)?)
ACTORS = (
    ('command-line:shell', [], [], ['$ the shell command'], True, False),
    ('command-line:program', [], [], ['% the-program arg1 arg2'], True, False),
    ('command-line:program-transformed', [], [], ['% the-program arg1', '  -transformed-by char-case -to-upper'], True, True),
    ('command-line:program-transformed-sequence', [], [],
     ['% the-program arg1', '  -transformed-by ( identity | char-case -to-upper )'], True, True),
    ('command-line:program-symbol', [], ['def program P = % the-program arg1'], ['@ P arg2'], True, False),
    ('command-line:program-symbol-transformed', [], ['def program P = % the-program arg1', '    -transformed-by char-case -to-upper'],
     ['@ P arg2'], True, True),
    ('command-line:program-symbol-transformed-twice', [],
     ['def program P = % the-program arg1', '    -transformed-by char-case -to-upper'],
     ['@ P arg2', '  -transformed-by replace CHILD child'], True, 'twice'),
    ('command-line:program-w-stdin-transformed', [], ["stdin = 'the stdin'"],
     ['% the-program', '  -transformed-by char-case -to-upper'], True, True),
    ('command-line:system-program-python', [], [], ['-python -c pass'], True, False),
    ('source-interpreter', ['actor = source % the-interpreter'], [], ['source line 1', 'source line 2'], True, False),
    ('file-interpreter', ['actor = file % the-interpreter'], [], ['script.src arg'], True, False),
    ('null', ['actor = null'], [], ['ignored'], False, False),
)
CHILD_OUT = 'child Out line 1\nline 2 without new-line'
CHILD_ERR = 'child Err\n'


class _WritingSubprocessStub:
    """Stands in for the `subprocess` module at exactly_lib's single process-starting site: the "child" writes fixed
    texts to the stdout / stderr it is given THROUGH THE FILE DESCRIPTORS (as a real child does) and returns
    the chosen exit code."""
    import subprocess as _sp
    TimeoutExpired = _sp.TimeoutExpired
    DEVNULL = _sp.DEVNULL
    PIPE = _sp.PIPE
    STDOUT = _sp.STDOUT
    code = 0
    calls = []

    @staticmethod
    def _write(f, text: str):
        if f is None:
            return
        fd = f if isinstance(f, int) else f.fileno()
        if fd >= 0:
            os.write(fd, text.encode())

    @classmethod
    def call(cls, *a, **k):
        cls.calls.append((a, k))
        cls._write(k.get('stdout'), CHILD_OUT)
        cls._write(k.get('stderr'), CHILD_ERR)
        return cls.code


def _tree(root: str) -> dict:
    ret = {}
    for dp, dns, fns in os.walk(root):
        rel = os.path.relpath(dp, root)
        for dn in dns:
            ret[os.path.normpath(os.path.join(rel, dn))] = None
        for fn in fns:
            with open(os.path.join(dp, fn), 'rb') as f:
                ret[os.path.normpath(os.path.join(rel, fn))] = f.read().decode()
    return ret


def _pre_k3(actor: int, xsel: int) -> bool:
    return 0 <= actor < len(ACTORS) and 0 <= xsel < len(EXIT_CODES)


def k3_result_dir(actor: int, xsel: int) -> bool:
    """
    pre: _pre_k3(actor, xsel)
    post: _
    """
    import io
    from vsym import scratch
    from harness.C02 import Sink
    from exactly_lib.cli import main_program
    from exactly_lib.cli_default import default_main_program_setup as d
    from exactly_lib.util.file_utils.std import StdOutputFiles
    from exactly_lib.util.process_execution import process_executor
    name, conf, setup, act, runs_child, transformed = ob.pick(ACTORS, actor)
    code = ob.pick(EXIT_CODES, xsel)
    process_executor.subprocess = _WritingSubprocessStub
    _WritingSubprocessStub.code = code
    _WritingSubprocessStub.calls = []
    work = scratch.new_dir('c04k3')
    case_dir = os.path.join(work, 'case')
    os.mkdir(case_dir)
    with open(os.path.join(case_dir, 'script.src'), 'w') as f:
        f.write('script\n')
    text = '\n'.join(['[conf]'] + conf + ['[setup]'] + setup + ['[act]'] + act +
                     ['[before-assert]', "file -rel-act ba-marker.txt = 'x'", '']) + '\n'
    path = os.path.join(case_dir, 't.case')
    with open(path, 'w') as f:
        f.write(text)
    roots = []

    def resolver() -> str:
        p = os.path.join(work, 'sandbox-%d' % (len(roots) + 1))
        os.mkdir(p)
        roots.append(p)
        return p

    mp = main_program.MainProgram(
        d.test_case_handling_setup.setup(), resolver,
        d.TestCaseDefinitionForMainProgram(
            d.TestCaseParsingSetup(d.instruction_name_and_argument_splitter.splitter,
                                   d.default_instructions_setup.INSTRUCTIONS_SETUP, d.ActPhaseParser()),
            d.builtin_symbols.ALL),
        d.test_suite.test_suite_definition(), io.DEFAULT_BUFFER_SIZE)
    out, err = Sink(), Sink()
    cwd = os.getcwd()
    environ = sorted(os.environ.items())
    try:
        rc = mp.execute(['--keep', path], StdOutputFiles(out, err))
    except Exception:  # noqa
        rc = None
    cwd_after = os.getcwd()
    os.chdir(cwd)
    ok = rc == 0 and len(roots) == 1 and out.value() == roots[0] + '\n' and cwd_after == cwd and \
        sorted(os.environ.items()) == environ
    if ok:
        tree = _tree(roots[0])
        result = {k: v for k, v in tree.items() if k.startswith('result' + os.sep)}
        exp_out = (CHILD_OUT.upper() if transformed else CHILD_OUT) if runs_child else ''
        if transformed == 'twice':
            exp_out = exp_out.replace('CHILD', 'child')
        if ob.case().get('oracle_bug'):
            exp_out = CHILD_OUT
        expected = {os.path.join('result', 'stdout'): exp_out,
                    os.path.join('result', 'stderr'): CHILD_ERR if runs_child else '',
                    os.path.join('result', 'exit-code'): str(code if runs_child else 0)}
        ok = result == expected
        # layout: the four documented directories; tmp/ untouched by Exactly; act/ holds what the test put there
        ok = ok and all(k in tree and tree[k] is None for k in ('act', 'tmp', 'result', 'internal'))
        ok = ok and [k for k in tree if k.startswith('tmp' + os.sep)] == []
        ok = ok and {k for k in tree if k.startswith('act' + os.sep)} == {os.path.join('act', 'ba-marker.txt')}
        ok = ok and {k.split(os.sep)[0] for k in tree} == {'act', 'tmp', 'result', 'internal'}
        ok = ok and len(_WritingSubprocessStub.calls) == (1 if runs_child else 0)
    from vsym import exeharness as xh
    xh._make_writable(work)
    scratch.remove(work)
    return ob.post(ok)


# ----------------------------------------------------------------------------- K4: cases run as part of a suite

# (name, lines of the case file, expected status in the progress output, is a sandbox created?)
SUITE_CASE_ENDINGS = (
    ('pass', '[act]\n$ echo act\n[assert]\nexit-code == 0\n', 'PASS', True),
    ('fail', '[act]\n$ echo act\n[assert]\nexit-code == 1\n', 'FAIL', True),
    ('hard-error-in-setup', '[setup]\ncd no-such-dir\n[act]\n$ echo act\n', 'HARD_ERROR', True),
    ('hard-error-in-cleanup', '[act]\n$ echo act\n[cleanup]\ncd no-such-dir\n', 'HARD_ERROR', True),
    ('validation-error', '[setup]\ncopy -rel-home no-such-file.txt\n[act]\n$ echo act\n', 'VALIDATION_ERROR', False),
    ('changes-directory-and-leaves-files', "[setup]\ndir d\ncd d\nfile f.txt = 'x'\n[act]\n$ echo act\n", 'PASS', True),
)


def _pre_k4(e1: int, e2: int, e3: int) -> bool:
    n = len(SUITE_CASE_ENDINGS)
    return 0 <= e1 < n and 0 <= e2 < n and 0 <= e3 < n


def k4_suite_sandboxes(e1: int, e2: int, e3: int) -> bool:
    """
    pre: _pre_k4(e1, e2, e3)
    post: _
    """
    from harness import C03
    endings = [ob.pick(SUITE_CASE_ENDINGS, e) for e in (e1, e2, e3)]
    files = {'the.suite': '[cases]\nc1.case\nc2.case\nc3.case\n'}
    for i, e in enumerate(endings):
        files['c%d.case' % (i + 1)] = e[1]
    with ob.untraced():   # every selector is concrete by now
        r = C03.run_suite(files, 'the.suite')
    if r['exc'] is not None:
        return ob.post(False)
    ok = all(r['statuses'].get('c%d.case' % (i + 1)) == e[2] for i, e in enumerate(endings))
    n_sandboxes = len([e for e in endings if e[3]])
    if ob.case().get('oracle_bug'):
        n_sandboxes = 3
    # one fresh sandbox per case that gets past validation, every one removed when its case has ended, cwd as before
    ok = ok and r['sandboxes'] == n_sandboxes and not any(r['sandboxes_left']) and r['cwd_restored']
    return ob.post(ok)


def obligations(tier: str) -> List[Ob]:
    n, cells, cat = _fault_catalogue()
    obs = []
    obs.append(Ob(name='K3:result-dir:real-actors', fn='k3_result_dir', case={}, kernel='K3', selector=True,
                  bound='%d act-phase variants with the REAL actors (%s) x exit codes %s of the child; '
                        'the child writes %d / %d characters to stdout / stderr' % (
                            len(ACTORS), ', '.join(a[0] for a in ACTORS), list(EXIT_CODES), len(CHILD_OUT), len(CHILD_ERR)),
                  timeout=1500,
                  real=REAL + ('exactly_lib.cli.main_program.MainProgram.execute',
                               'exactly_lib.impls.actors.program.execution',
                               'exactly_lib.impls.actors.program.actor',
                               'exactly_lib.impls.actors.source_interpreter.actor',
                               'exactly_lib.impls.actors.file_interpreter',
                               'exactly_lib.impls.actors.null',
                               'exactly_lib.impls.actors.util.actor_from_parts.parts',
                               'exactly_lib.util.process_execution.process_executor.ProcessExecutor.execute'),
                  stubs=('subprocess module at process_executor: a stand-in child that writes fixed texts through the file '
                         'descriptors it is given and returns the chosen exit code',
                         'deterministic sandbox resolver (MainProgram constructor argument)', 'in-memory stdout/stderr'),
                  entry='MainProgram.execute(["--keep", FILE])',
                  outside=('what a real child does with its descriptors beyond writing to them',)))
    obs.append(Ob(name='K3:seeded-oracle-error', fn='k3_result_dir', case=dict(oracle_bug=True), kernel='K3', selector=True,
                  bound='seeded: oracle ignores the transformation of stdout', timeout=900, expect=ob.REFUTE))
    for i, (fam, idx) in enumerate(cat):
        if idx <= -100:
            continue
        obs.append(Ob(
            name='K2:keep-path:%s' % fam, fn='k2_keep_reports_path', case=dict(fault=i), kernel='K2', selector=True,
            bound='stub case with 1 instruction per phase; execution ends at %s with every applicable kind; output modes default / '
                  '--keep / --act: the sandbox is left (and its path printed) iff --keep' % (
                'the end' if idx == -1 else 'cleanup main' if idx == -2 else '%s/%s' % cells[idx][0][:2]),
            timeout=600, real=REAL + ('exactly_lib.processing.standalone.processor.Processor.process',
                                      'exactly_lib.processing.standalone.result_reporting._ResultReporterForPreserveAndPrintSandboxDir',
                                      'exactly_lib.processing.standalone.result_reporting._ResultReporterForActPhaseOutput',
                                      'exactly_lib.processing.standalone.result_reporting._ResultReporterForNormalOutput',
                                      'exactly_lib.processing.standalone.processor.Processor._processor'),
            stubs=('stub instructions / actor', 'stub Accessor', 'in-memory stdout/stderr', 'deterministic sandbox resolver'),
            entry='standalone.processor.Processor.process with every ReportingOption'))
    obs.append(Ob(name='K2:seeded-oracle-error', fn='k2_keep_reports_path', case=dict(fault=1, oracle_bug=True, keep_only=True), kernel='K2',
                  bound='seeded: oracle expects a path although no sandbox exists', timeout=300, expect=ob.REFUTE))
    for i, (fam, idx) in enumerate(cat):
        obs.append(Ob(
            name='K1:lifecycle:%s' % fam, fn='k1_lifecycle', case=dict(fault=i, tier=tier), kernel='K1', selector=True,
            bound='stub case with 1 instruction per phase; execution ends at %s with every applicable kind; --keep on/off; '
                  '5 exit codes of the action (where it completes); a misbehaving first setup instruction out of %s' % (
                      'the end' if idx == -1 else 'cleanup main' if idx == -2 else
                      ('%s/%s AND cleanup main (hard error)' % cells[-100 - idx][0][:2]) if idx <= -100 else '%s/%s' % cells[idx][0][:2],
                      list(MISBEHAVIOURS)),
            timeout=1200, real=REAL,
            stubs=('stub instructions / actor (public base classes)', 'deterministic sandbox resolver under a scratch dir'),
            entry='full_execution.execution.execute(..., is_keep_sandbox, TestCase)',
            outside=('read-only DIRECTORIES planted by a test (POSIX refuses removal; the property speaks of files)',
                     'crashes of the Python process itself', 'the stdout line that reports the kept sandbox (C02)')))
    obs.append(Ob(name='K4:suite-run', fn='k4_suite_sandboxes', case={}, kernel='K4', selector=True,
                  bound='`exactly suite` on a suite of 3 cases, each ending as one of %s: one fresh sandbox per case that gets past '
                        'validation, every sandbox removed, the current directory of the process as before'
                        % [e[0] for e in SUITE_CASE_ENDINGS],
                  timeout=900, real=REAL + ('exactly_lib.test_suite.processing.SuitesExecutor',
                                            'exactly_lib.processing.processors.Configuration',
                                            'exactly_lib.cli.main_program.MainProgram.execute'),
                  stubs=('subprocess module at process_executor: recording stub that starts nothing', 'counting sandbox resolver',
                         'in-memory stdout/stderr', 'CrossHair tracing is suspended while the program runs on the concrete files'),
                  entry='MainProgram.execute(["suite", FILE])'))
    obs.append(Ob(name='K4:seeded-oracle-error', fn='k4_suite_sandboxes', case=dict(oracle_bug=True), kernel='K4', selector=True,
                  bound='seeded: a sandbox is expected also for a case that fails validation', timeout=600, expect=ob.REFUTE))
    obs.append(Ob(name='K1:seeded-oracle-error', fn='k1_lifecycle',
                  case=dict(fault=0, oracle_bug='never-removed', tier=tier), kernel='K1',
                  bound='seeded: oracle expects the sandbox to be kept always', timeout=600, expect=ob.REFUTE))
    return obs


ASSUMPTIONS = ['the file system is real; all data written is concrete (selectors)',
               'the test-case status is PASS here (status handling: C01/C02)']
