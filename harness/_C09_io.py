"""StringIO stand-in for C09: vsym.stubs.SymStringIO (pure-Python StringIO: read / readline / tell /
seek on character offsets, no newline translation) plus one shortcut that changes nothing observable:

The harness builds a source text from pinned (concrete) characters and symbolic hole characters and
*registers* the list of its characters.  When token_stream opens a StringIO on exactly that text object,
`read(1)` - the only way shlex reads - returns the registered character at the current offset instead of
a one-character slice of the text.  Both are the same character; the registered one is a plain Python
str where the character is pinned, so shlex's classification of pinned characters costs no solver query.
For any other text, and for every other operation, this is SymStringIO.
"""
from vsym.stubs import SymStringIO

_REGISTERED = None  # (text object, [characters])


def register(text, chars):
    global _REGISTERED
    _REGISTERED = (text, chars)


class CharsStringIO(SymStringIO):
    def __init__(self, initial: str = ''):
        super().__init__(initial)
        self._chars = None
        reg = _REGISTERED
        if reg is not None and reg[0] is initial:
            self._chars = reg[1]

    def read(self, n: int = -1) -> str:
        if n == 1 and self._chars is not None:
            p = self._pos
            if 0 <= p < len(self._chars):
                self._pos = p + 1
                return self._chars[p]
            if p >= len(self._chars):
                return ''
        return super().read(n)


class _IoModuleStub:
    """Stands in for the `io` module as seen by exactly_lib's token_stream."""
    StringIO = CharsStringIO


def install():
    from exactly_lib.section_document.element_parsers import token_stream
    token_stream.io = _IoModuleStub
    return token_stream


def selftest() -> int:
    """CharsStringIO with registered characters behaves like io.StringIO on scripted operation sequences."""
    import io
    import itertools
    n = 0
    for t in ['', 'a', 'ab\ncd', '\n', 'a\n', '\n\nab', 'a b "c d"\n e']:
        for sc in itertools.product(['r1', 'r2', 'rl', 'ra', 't', 's0', 's1', 's3'], repeat=3):
            register(t, list(t))
            a, b = io.StringIO(t), CharsStringIO(t)
            assert b._chars is not None or t == ''
            for op in sc:
                if op == 'r1':
                    ra, rb = a.read(1), b.read(1)
                elif op == 'r2':
                    ra, rb = a.read(2), b.read(2)
                elif op == 'rl':
                    ra, rb = a.readline(), b.readline()
                elif op == 'ra':
                    ra, rb = a.read(), b.read()
                elif op == 't':
                    ra, rb = a.tell(), b.tell()
                else:
                    p = min(int(op[1]), len(t))
                    ra, rb = a.seek(p), b.seek(p)
                if ra != rb:
                    raise AssertionError('CharsStringIO differs from io.StringIO on %r %r: %r vs %r' % (t, sc, ra, rb))
                n += 1
    return n
