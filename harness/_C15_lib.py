"""C15 helpers: tree descriptions, an in-memory reference file system (the oracle side), and
construction of REAL exactly_lib instruction objects / environments (the real side).

Tree description (used for fixtures, snapshots and the reference model alike):

    node     ::= ('f', text) | ('b', bytes that are not UTF-8) | ('d', {name: node}) | ('l', target)
    children ::= {name: node}

Nothing here models exactly_lib.  `MemFs` is a reference model of a POSIX directory tree
(regular files, directories, symbolic links that are followed) plus the DOCUMENTED semantics
of FILE-LIST population (help text of `files-source` / the `dir` instruction):

  * FILE-SPEC without / with `=`: "The path must not exist" (a broken symbolic link exists),
    "Intermediate directories are created, if required";
  * `file N += S`: "The path must be an existing regular file"; `dir N += FS`: "... existing directory";
  * "Files are created/modified in the order listed", relative the populated directory;
  * FILE-NAME: relative POSIX path, "must not contain `..`", not empty, not absolute;
  * `dir-contents-of P`: "A copy of the contents of P (recursive)", P an existing directory;
    a name that already exists in the populated directory is an error;
  * any failure => HARD_ERROR (invalid names => VALIDATION_ERROR, before anything is created).
"""
import os
from typing import Dict, List, Optional, Sequence, Tuple

from vsym import scratch


# --------------------------------------------------------------------------- descriptions

def F(text: str = ''):
    return ('f', text)


def D(**children):
    return ('d', dict(children))


def DD(children: dict):
    return ('d', dict(children))


def L(target: str):
    return ('l', target)


def materialize(children: dict, root: str):
    """Creates the described children inside the existing directory `root` (real file system)."""
    for name in sorted(children):
        node = children[name]
        p = os.path.join(root, name)
        if node[0] == 'f':
            with open(p, 'w') as f:
                f.write(node[1])
        elif node[0] == 'b':
            with open(p, 'wb') as f:
                f.write(node[1])
        elif node[0] == 'd':
            os.mkdir(p)
            materialize(node[1], p)
        else:
            os.symlink(node[1], p)


def snapshot(root: str) -> dict:
    """Description of the children of the real directory `root` (lstat based: links are not followed)."""
    out = {}
    for name in sorted(os.listdir(root)):
        p = os.path.join(root, name)
        if os.path.islink(p):
            out[name] = ('l', os.readlink(p))
        elif os.path.isdir(p):
            out[name] = ('d', snapshot(p))
        else:
            with open(p, 'rb') as f:
                data = f.read()
            try:
                out[name] = ('f', data.decode('utf-8'))
            except UnicodeDecodeError:
                out[name] = ('b', data)
    return out


def copy_desc(node):
    if node[0] == 'd':
        return ('d', {k: copy_desc(v) for k, v in node[1].items()})
    return node


# --------------------------------------------------------------------------- reference file system

class RefHardError(Exception):
    """The documented outcome is HARD_ERROR."""


class MemFs:
    """A directory tree in memory.  Paths are lists of names from the root of the model
    ("the world"); symbolic links are relative (may use `..`) or dangling."""

    def __init__(self, world_children: dict):
        self.root = ('d', {k: copy_desc(v) for k, v in world_children.items()})

    # -- resolution
    def _walk(self, parts: Sequence[str], follow_last: bool, depth: int = 0):
        """-> (node | None, canonical parts of the parent dir, last name).  None: does not exist.
        Raises NotADirectoryError when an intermediate component is not a directory."""
        if depth > 20:
            raise RefHardError('symlink loop')
        cur = self.root
        cur_path: List[str] = []
        stack = [self.root]
        parts = list(parts)
        i = 0
        n = len(parts)
        if n == 0:
            return self.root, [], ''
        while i < n:
            name = parts[i]
            last = i == n - 1
            if cur[0] != 'd':
                raise NotADirectoryError('/'.join(parts))
            if name == '..':
                if len(stack) > 1:
                    stack.pop()
                    cur_path.pop()
                cur = stack[-1]
                i += 1
                if last:
                    return cur, cur_path[:-1], (cur_path[-1] if cur_path else '')
                continue
            child = cur[1].get(name)
            if child is None:
                if last:
                    return None, list(cur_path), name
                return None, None, name  # an intermediate component is missing
            if child[0] == 'l' and (follow_last or not last):
                target = [p for p in child[1].split('/') if p not in ('', '.')]
                new_parts = list(cur_path) + target + parts[i + 1:]
                return self._walk(new_parts, follow_last, depth + 1)
            if last:
                return child, list(cur_path), name
            cur = child
            cur_path.append(name)
            stack.append(child)
            i += 1
        return cur, cur_path, ''

    def lookup(self, parts, follow_last=True):
        """-> node or None (does not exist / broken link / component missing or not a directory)."""
        try:
            return self._walk(parts, follow_last)[0]
        except NotADirectoryError:
            return None

    def exists_nofollow(self, parts) -> bool:
        return self.lookup(parts, follow_last=False) is not None

    def is_dir(self, parts) -> bool:
        n = self.lookup(parts, True)
        return n is not None and n[0] == 'd'

    def is_file(self, parts) -> bool:
        n = self.lookup(parts, True)
        return n is not None and n[0] in ('f', 'b')

    # -- modification (each raises RefHardError when the operation is impossible)
    def _dir_node_for_create(self, parts) -> Tuple[dict, str]:
        """Children dict of the (existing, resolved) parent directory + the name to create there."""
        try:
            node, parent_path, name = self._walk(parts, follow_last=False)
        except NotADirectoryError:
            raise RefHardError('not a directory')
        if node is not None:
            raise RefHardError('exists')
        if parent_path is None:
            raise RefHardError('parent missing')
        parent = self.lookup(parent_path, True)
        if parent is None or parent[0] != 'd':
            raise RefHardError('parent not a dir')
        return parent[1], name

    def mkdir_p(self, parts):
        """Makes every missing directory of `parts`; an existing non-directory component is an error."""
        for i in range(1, len(parts) + 1):
            sub = parts[:i]
            n = self.lookup(sub, True)
            if n is None:
                if self.exists_nofollow(sub):
                    raise RefHardError('broken link in the way')
                children, name = self._dir_node_for_create(sub)
                children[name] = ('d', {})
            elif n[0] != 'd':
                raise RefHardError('not a directory')

    def create_file(self, parts, text: str):
        if self.exists_nofollow(parts):
            raise RefHardError('exists')
        self.mkdir_p(parts[:-1])
        children, name = self._dir_node_for_create(parts)
        children[name] = ('f', text)

    def append_file(self, parts, text: str):
        node, parent_path, name = self._resolve_existing(parts)
        if node[0] != 'f':
            raise RefHardError('not a regular file')
        parent = self.lookup(parent_path, True)
        parent[1][name] = ('f', node[1] + text)

    def _resolve_existing(self, parts):
        """Fully resolved (links followed) existing node + its real parent path and name."""
        try:
            node, parent_path, name = self._walk(parts, follow_last=True)
        except NotADirectoryError:
            raise RefHardError('not a directory')
        if node is None:
            raise RefHardError('does not exist')
        return node, parent_path, name

    def deep_copy_following_links(self, parts, depth=0):
        """Copy of the node at `parts` with every symbolic link replaced by (a copy of) its target."""
        if depth > 20:
            raise RefHardError('loop')
        node = self.lookup(parts, True)
        if node is None:
            raise RefHardError('broken link / missing in source')
        if node[0] in ('f', 'b'):
            return node
        return ('d', {name: self.deep_copy_following_links(list(parts) + [name], depth + 1)
                      for name in node[1]})

    def children_of(self, parts) -> dict:
        n = self.lookup(parts, True)
        assert n is not None and n[0] == 'd', parts
        return n[1]


# ---- FILE-LIST reference semantics

def name_is_invalid(name: str) -> bool:
    """Documented validity of a FILE-NAME of a FILE-LIST: non-empty relative POSIX path without `..`
    (and without the path-list separators ':' and ';' which the validator's message names)."""
    if name == '':
        return True
    if ':' in name or ';' in name:
        return True
    if name.startswith('/'):
        return True
    return '..' in name.split('/')


def name_parts(name: str) -> List[str]:
    return [p for p in name.split('/') if p not in ('', '.')]


# entry ::= ('file'|'dir', name, None | '=' | '+=', contents)
# contents (file) ::= str | None         contents (dir) ::= [entry, ...] | ('copy', [world parts of src]) | None

def entries_have_invalid_name(entries) -> bool:
    for kind, name, mod, contents in entries:
        if name_is_invalid(name):
            return True
        if kind == 'dir' and isinstance(contents, list) and entries_have_invalid_name(contents):
            return True
    return False


def ref_populate(fs: MemFs, dir_parts: List[str], contents):
    """Applies a FILES-SOURCE to the existing directory at dir_parts; raises RefHardError."""
    if contents is None:
        return
    if isinstance(contents, tuple) and contents[0] == 'copy':
        src = contents[1]
        if not fs.is_dir(src):
            raise RefHardError('source is not a directory')
        for name in sorted(fs.children_of(src)):
            if fs.exists_nofollow(dir_parts + [name]):
                raise RefHardError('clash')
            node = fs.deep_copy_following_links(list(src) + [name])
            fs.children_of(dir_parts)[name] = copy_desc(node)
        return
    for entry in contents:
        ref_apply_entry(fs, dir_parts, entry)


def ref_apply_entry(fs: MemFs, dir_parts: List[str], entry):
    kind, name, mod, contents = entry
    target = list(dir_parts) + name_parts(name)
    if mod in (None, '='):
        if fs.exists_nofollow(target):
            raise RefHardError('exists')
        if kind == 'file':
            fs.create_file(target, contents or '')
        else:
            fs.mkdir_p(target)
            ref_populate(fs, target, contents)
    else:
        if kind == 'file':
            fs.append_file(target, contents or '')
        else:
            if not fs.is_dir(target):
                raise RefHardError('not an existing directory')
            ref_populate(fs, target, contents)


def render_entries(entries, src_text_of, indent='  ') -> str:
    """Concrete FILE-LIST source text (one FILE-SPEC per line)."""
    lines = []
    for kind, name, mod, contents in entries:
        head = '%s%s %s' % (indent, kind, ("'%s'" % name) if (name == '' or ':' in name or ';' in name) else name)
        if mod is None:
            lines.append(head)
        elif kind == 'file':
            lines.append("%s %s '%s'" % (head, mod, contents))
        elif isinstance(contents, tuple):
            lines.append('%s %s dir-contents-of %s' % (head, mod, src_text_of(contents[1])))
        else:
            lines.append('%s %s {' % (head, mod))
            if contents:
                lines.append(render_entries(contents, src_text_of, indent + '  '))
            lines.append(indent + '}')
    return '\n'.join(lines)


# ---- reference semantics of the directory walk (files-matcher model)

def ref_listing(fs: MemFs, root_parts: List[str], recursive: bool,
                min_depth: Optional[int], max_depth: Optional[int],
                pruned, selected) -> List[str]:
    """The documented set of files of `dir-contents [-recursive [-min-depth a] [-max-depth b]]` with
    prune / selection applied: an entry at depth d (0 = direct contents) is included iff
    min <= d <= max, no ancestor directory (below the root) is pruned, and it is selected.
    Symbolic links are followed (a link to a directory is a directory).  `pruned` / `selected`
    map a relative posix path to bool."""
    out = []

    def visit(rel: List[str], depth: int, ancestor_pruned: bool):
        children = fs.children_of(list(root_parts) + rel)
        for name in sorted(children):
            r = rel + [name]
            rel_s = '/'.join(r)
            ok = (not ancestor_pruned
                  and (min_depth is None or depth >= min_depth)
                  and (max_depth is None or depth <= max_depth))
            if ok and selected(rel_s):
                out.append(rel_s)
            if recursive and fs.is_dir(list(root_parts) + r):
                if max_depth is not None and depth >= max_depth:
                    continue  # nothing below can be included; (also keeps the oracle total on deep trees)
                visit(r, depth + 1, ancestor_pruned or pruned(rel_s))

    visit([], 0, False)
    return sorted(out)


def ref_type_of(fs: MemFs, parts: List[str]) -> Dict[str, bool]:
    """file / dir follow links; symlink does not."""
    nofollow = fs.lookup(parts, False)
    follow = fs.lookup(parts, True)
    return dict(file=follow is not None and follow[0] in ('f', 'b'),
                dir=follow is not None and follow[0] == 'd',
                symlink=nofollow is not None and nofollow[0] == 'l')


# --------------------------------------------------------------------------- real side

class World:
    """A real directory structure: <root>/hds/{case,act}, <root>/sds (a real sandbox), and the
    instruction environments over them."""

    def __init__(self):
        import pathlib
        from exactly_lib.tcfs import sds as sds_module
        from exactly_lib.tcfs.hds import HomeDs
        from exactly_lib.tcfs.tcds import TestCaseDs
        self.root = scratch.new_dir('w')
        self.case_dir = os.path.join(self.root, 'hds', 'case')
        self.hds_act_dir = os.path.join(self.root, 'hds', 'act')
        os.makedirs(self.case_dir)
        os.makedirs(self.hds_act_dir)
        os.makedirs(os.path.join(self.root, 'sds'))
        self.sds = sds_module.construct_at(os.path.join(self.root, 'sds'))
        self.hds = HomeDs(pathlib.Path(self.case_dir), pathlib.Path(self.hds_act_dir))
        self.tcds = TestCaseDs(self.hds, self.sds)
        self.act_dir = str(self.sds.act_dir)
        self._n = 0

    def env_pre(self, symbols):
        from exactly_lib.test_case.phases.instruction_environment import InstructionEnvironmentForPreSdsStep
        from exactly_lib.util.process_execution.execution_elements import ProcessExecutionSettings
        return InstructionEnvironmentForPreSdsStep(self.hds, ProcessExecutionSettings.null(), symbols, 2 ** 10)

    def env_post(self, symbols):
        import pathlib
        from exactly_lib.test_case.phases.instruction_environment import InstructionEnvironmentForPostSdsStep, \
            TmpFileStorage
        from exactly_lib.common import tmp_dir_file_spaces
        from exactly_lib.util.process_execution.execution_elements import ProcessExecutionSettings
        self._n += 1
        tmp_root = pathlib.Path(str(self.sds.internal_tmp_dir)) / ('vsym-%06d' % self._n)
        storage = TmpFileStorage(tmp_root, tmp_dir_file_spaces.std_tmp_dir_file_space)
        return InstructionEnvironmentForPostSdsStep(self.hds, ProcessExecutionSettings.null(), self.sds,
                                                    storage, symbols, 2 ** 10)


_WORLD: Optional[World] = None


def world() -> World:
    global _WORLD
    if _WORLD is None:
        _WORLD = World()
    return _WORLD


_OS_SERVICES = None


def os_services():
    global _OS_SERVICES
    if _OS_SERVICES is None:
        from exactly_lib.impls.os_services import os_services_access
        _OS_SERVICES = os_services_access.new_for_current_os()
    return _OS_SERVICES


_INSTR_CACHE: Dict = {}


def parse_instruction(kind: str, text: str, cache: bool = True):
    """Parses `text` (the arguments of the instruction) with the REAL instruction parser of
    `exists` (assert phase) / `dir` (setup phase).  Cached on the concrete text."""
    key = (kind, text)
    if not cache or key not in _INSTR_CACHE:
        from exactly_lib.section_document.parse_source import ParseSource
        from exactly_lib.section_document.source_location import FileSystemLocationInfo, FileLocationInfo
        import pathlib
        if kind == 'exists':
            from exactly_lib.impls.instructions.assert_ import existence_of_file
            parser = existence_of_file.setup('exists')
        elif kind == 'dir':
            from exactly_lib.impls.instructions.setup import new_dir
            parser = new_dir.setup('dir')
        else:
            raise ValueError(kind)
        fsl = FileSystemLocationInfo(FileLocationInfo(pathlib.Path('/')))
        src = ParseSource(text)
        instr = parser.parse(fsl, src)
        if not src.is_at_eof:
            raise ValueError('harness error: instruction parser left %r unconsumed' % src.remaining_source)
        if not cache:
            return instr
        _INSTR_CACHE[key] = instr
    return _INSTR_CACHE[key]


# --------------------------------------------------------------------------- tracer suspension

class _Null:
    def __enter__(self):
        return self

    def __exit__(self, *a):
        return False


def untraced():
    """Context manager: suspends CrossHair's byte-code tracer (no-op on plain CPython / in replay).

    Used ONLY by the [selector] kernels, and only after every symbolic selector has been made a
    concrete Python int (ob.concrete_int / ob.pick fork the path per value BEFORE this point), so
    that everything executed inside is a function of concrete data only: the real code then runs
    natively (about 200x faster) and CrossHair's role is the exhaustive enumeration of the selector
    space.  No symbolic value may be live inside the block."""
    try:
        from crosshair.tracers import NoTracing, is_tracing
    except ImportError:
        return _Null()
    if not is_tracing():
        return _Null()
    return NoTracing()


def _chfix_hash_contract():
    """Tool work-around (CrossHair 0.0.110, applied in the worker process only; no-op elsewhere).

    CrossHair replaces builtin `hash` by `crosshair.libimpl.builtinslib._hash`, whose docstring
    carries a PEP 316 contract (`post[]: -2**63 <= _ < 2**63`).  Under analysis kind PEP316 every
    traced call of `hash(x)` - e.g. `pathlib.PurePath.__hash__`, hit by every dict / set of paths
    in files_condition.literal and matches_non_full - is then a candidate for "short-circuiting":
    in a parallel branch the call is replaced by a FREE symbolic int (reconciled later), which
    makes dict look-ups fork without bound and the search ends in CANNOT_CONFIRM.  The work-around
    makes CrossHair never short-circuit `_hash`: its body (the real hash) is always executed -
    strictly more precise, nothing is assumed."""
    try:
        import crosshair.core as core
    except ImportError:
        return
    orig = core.consider_shortcircuit
    if getattr(orig, '_c15_patched', False):
        return

    def consider_shortcircuit(fn, *a, **kw):
        if getattr(fn, '__name__', '') == '_hash' and kw.get('allow_interpretation', True):
            return None
        return orig(fn, *a, **kw)

    consider_shortcircuit._c15_patched = True
    core.consider_shortcircuit = consider_shortcircuit


_chfix_hash_contract()
