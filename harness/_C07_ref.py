"""Reference oracles for C07 (test-case file structure).  Independent of exactly_lib: plain
string / list code written from the documented behaviour (no `re`, no exactly_lib import).

  PosModel          position-based model of ParseSource (K1)
  classify_line ... regex-free line classification and header-name extraction (K2)
  un_escape         act-phase un-escaping (K5)
  read_sections     line reader for a two-section document with one-line instructions (K3)
  read_test_case    line-kind reader of a test-case file with inclusion (K4)
"""

SPACE = ' \t'


# --------------------------------------------------------------------------- K1: ParseSource

class PosModel:
    """ParseSource as an offset `p` into the ORIGINAL text `s` plus `alive` (= has_current_line).

    Documented behaviour (class doc-string and method doc-strings of ParseSource):
      lines are separated by \\n; current line = the line that contains offset p;
      line number = 1 + number of \\n before p; column = p - start of that line;
      remaining_source = s[p:]; is_at_eof <=> no current line or p == len(s).
    """

    def __init__(self, s: str):
        self.s = s
        self.p = 0
        self.alive = True

    # -- observations
    def line_start(self) -> int:
        return self.s.rfind('\n', 0, self.p) + 1

    def line_end(self) -> int:
        i = self.s.find('\n', self.p)
        return len(self.s) if i == -1 else i

    def line_number(self) -> int:
        return 1 + self.s.count('\n', 0, self.p)

    def line_text(self) -> str:
        return self.s[self.line_start():self.line_end()]

    def column(self) -> int:
        return self.p - self.line_start()

    def remaining_source(self) -> str:
        return self.s[self.p:]

    def remaining_part_of_line(self) -> str:
        return self.s[self.p:self.line_end()]

    def is_at_eof(self) -> bool:
        return (not self.alive) or self.p == len(self.s)

    def is_at_eol(self) -> bool:
        return self.p == self.line_end()

    # -- operations; return False where ParseSource is documented to raise ValueError
    def consume(self, n: int) -> bool:
        if n > len(self.s) - self.p:
            return False
        self.p += n
        return True

    def consume_current_line(self) -> bool:
        if not self.alive:
            return False
        i = self.s.find('\n', self.p)
        if i == -1:
            self.p = len(self.s)
            self.alive = False
        else:
            self.p = i + 1
        return True

    def consume_part_of_current_line(self, n: int) -> bool:
        if self.p + n > self.line_end():
            return False
        self.p += n
        return True

    def consume_initial_space(self) -> bool:
        e = self.line_end()
        while self.p < e and self.s[self.p].isspace():
            self.p += 1
        return True


# --------------------------------------------------------------------------- K2: line syntax

def _is_word(c: str) -> bool:
    # \w for the characters of the stated alphabets (ASCII letters, digits, underscore)
    return ('a' <= c <= 'z') or ('A' <= c <= 'Z') or ('0' <= c <= '9') or c == '_'


def _is_name_inner(c: str) -> bool:
    # a name may contain, between its first and last word character, word characters and the
    # characters from space to '.' in ASCII order:  space ! " # $ % & ' ( ) * + , - .
    return _is_word(c) or (' ' <= c <= '.')


def skip_space(line: str) -> int:
    i = 0
    while i < len(line) and line[i] in SPACE:
        i += 1
    return i


def is_empty_line(line: str) -> bool:
    return skip_space(line) == len(line)


def is_comment_line(line: str) -> bool:
    i = skip_space(line)
    return i < len(line) and line[i] == '#'


def is_header_line(line: str) -> bool:
    i = skip_space(line)
    return i < len(line) and line[i] == '['


def header_name(line: str):
    """The section name of a header line, or None if the header is malformed.
    Header = SPACE* '[' NAME ']' SPACE*;  NAME starts and ends with a word character."""
    i = skip_space(line) + 1
    rest = line[i:]
    if rest == '' or not _is_word(rest[0]):
        return None
    j = 1
    while j < len(rest) and _is_name_inner(rest[j]):
        j += 1
    # name ends at the last word character of the run
    k = j
    while not _is_word(rest[k - 1]):
        k -= 1
    name = rest[:k]
    after = rest[k:]
    if after == '' or after[0] != ']':
        return None
    if not is_empty_line(after[1:]):
        return None
    return name


# --------------------------------------------------------------------------- K5: act un-escaping

def un_escape(line: str) -> str:
    """Act phase: a line whose first non-space characters are \\[ or \\\\ loses that one backslash
    (so that a source line may begin with [ without being a phase header); everything else,
    including the leading space, is kept."""
    i = 0
    while i < len(line) and line[i].isspace():
        i += 1
    if line[i:i + 2] == '\\[' or line[i:i + 2] == '\\\\':
        return line[:i] + line[i + 1:]
    return line


# --------------------------------------------------------------------------- K3: two-section document

EMPTY, COMMENT, INSTRUCTION = 'EMPTY', 'COMMENT', 'INSTRUCTION'


class RefError(Exception):
    """The reference reader's verdict `this document is erroneous`: kind, 1-based line number, line text."""

    def __init__(self, kind: str, line_number: int, text: str, section=None, chain=()):
        Exception.__init__(self, kind, line_number, text)
        self.kind = kind
        self.line_number = line_number
        self.text = text
        self.section = section
        self.chain = chain


def source_lines(s: str):
    """The lines of a text: the pieces between newlines; the piece after a final newline is not a line.
    (ParseSource: `number of lines = number of \\n if the last line is empty`; the empty text has no line
    for the document reader, which is at end-of-file at once.)"""
    lines = s.split('\n')
    if lines[-1] == '':
        lines = lines[:-1]
    return lines


def read_sections(s: str, section_names, default):
    """Line reader for a document whose instructions are single lines.

    -> dict section name -> list of (element type, first line number, tuple of lines), file order.
    Consecutive blank lines (resp. comment lines) form one EMPTY (resp. COMMENT) element; a final
    newline at the very end of the text lets a trailing EMPTY element end with one more, empty, line
    (the text after the last newline).
    raises RefError('unknown-section' | 'malformed-header', line number, line text).
    """
    lines = source_lines(s)
    ends_with_newline = s.endswith('\n')
    out = {}
    current = None
    if lines and not is_header_line(lines[0]):
        current = default
        out[current] = []
    i = 0
    n = len(lines)
    while i < n:
        line = lines[i]
        if is_header_line(line):
            name = header_name(line)
            if name is None:
                raise RefError('malformed-header', i + 1, line)
            if name not in section_names:
                raise RefError('unknown-section', i + 1, line)
            current = name
            if current not in out:
                out[current] = []
            i += 1
        elif is_empty_line(line):
            j = i
            while j < n and is_empty_line(lines[j]):
                j += 1
            run = lines[i:j]
            if j == n and ends_with_newline:
                run = run + ['']
            out[current].append((EMPTY, i + 1, tuple(run)))
            i = j
        elif is_comment_line(line):
            j = i
            while j < n and is_comment_line(lines[j]):
                j += 1
            out[current].append((COMMENT, i + 1, tuple(lines[i:j])))
            i = j
        else:
            out[current].append((INSTRUCTION, i + 1, (line,)))
            i += 1
    return out
