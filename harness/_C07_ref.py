"""Reference oracles for C07 (test-case file structure).  Independent of exactly_lib: plain
string / list code written from the documented behaviour (no `re`, no exactly_lib import).

  PosModel          position-based model of ParseSource (K1)
  classify_line ... regex-free line classification and header-name extraction (K2)
  un_escape         act-phase un-escaping (K5)
  read_sections     line reader for a two-section document with one-line instructions (K3)
  read_test_case    line-kind reader of a test-case file with inclusion (K4)
"""

SPACE = ' \t'


# --------------------------------------------------------------------------- K1: ParseSource

class PosModel:
    """ParseSource as an offset `p` into the ORIGINAL text `s` plus `alive` (= has_current_line).

    Documented behaviour (class doc-string and method doc-strings of ParseSource):
      lines are separated by \\n; current line = the line that contains offset p;
      line number = 1 + number of \\n before p; column = p - start of that line;
      remaining_source = s[p:]; is_at_eof <=> no current line or p == len(s).
    """

    def __init__(self, s: str):
        self.s = s
        self.p = 0
        self.alive = True

    # -- observations
    def line_start(self) -> int:
        return self.s.rfind('\n', 0, self.p) + 1

    def line_end(self) -> int:
        i = self.s.find('\n', self.p)
        return len(self.s) if i == -1 else i

    def line_number(self) -> int:
        return 1 + self.s.count('\n', 0, self.p)

    def line_text(self) -> str:
        return self.s[self.line_start():self.line_end()]

    def column(self) -> int:
        return self.p - self.line_start()

    def remaining_source(self) -> str:
        return self.s[self.p:]

    def remaining_part_of_line(self) -> str:
        return self.s[self.p:self.line_end()]

    def is_at_eof(self) -> bool:
        return (not self.alive) or self.p == len(self.s)

    def is_at_eol(self) -> bool:
        return self.p == self.line_end()

    # -- operations; return False where ParseSource is documented to raise ValueError
    def consume(self, n: int) -> bool:
        if n > len(self.s) - self.p:
            return False
        self.p += n
        return True

    def consume_current_line(self) -> bool:
        if not self.alive:
            return False
        i = self.s.find('\n', self.p)
        if i == -1:
            self.p = len(self.s)
            self.alive = False
        else:
            self.p = i + 1
        return True

    def consume_part_of_current_line(self, n: int) -> bool:
        if self.p + n > self.line_end():
            return False
        self.p += n
        return True

    def consume_initial_space(self) -> bool:
        e = self.line_end()
        while self.p < e and self.s[self.p].isspace():
            self.p += 1
        return True


# --------------------------------------------------------------------------- K2: line syntax

def _is_word(c: str) -> bool:
    # \w for the characters of the stated alphabets (ASCII letters, digits, underscore)
    return ('a' <= c <= 'z') or ('A' <= c <= 'Z') or ('0' <= c <= '9') or c == '_'


def _is_name_inner(c: str) -> bool:
    # a name may contain, between its first and last word character, word characters and the
    # characters from space to '.' in ASCII order:  space ! " # $ % & ' ( ) * + , - .
    return _is_word(c) or (' ' <= c <= '.')


def skip_space(line: str) -> int:
    i = 0
    while i < len(line) and line[i] in SPACE:
        i += 1
    return i


def is_empty_line(line: str) -> bool:
    return skip_space(line) == len(line)


def is_comment_line(line: str) -> bool:
    i = skip_space(line)
    return i < len(line) and line[i] == '#'


def is_header_line(line: str) -> bool:
    i = skip_space(line)
    return i < len(line) and line[i] == '['


def header_name(line: str):
    """The section name of a header line, or None if the header is malformed.
    Header = SPACE* '[' NAME ']' SPACE*;  NAME starts and ends with a word character."""
    i = skip_space(line) + 1
    rest = line[i:]
    if rest == '' or not _is_word(rest[0]):
        return None
    j = 1
    while j < len(rest) and _is_name_inner(rest[j]):
        j += 1
    # name ends at the last word character of the run
    k = j
    while not _is_word(rest[k - 1]):
        k -= 1
    name = rest[:k]
    after = rest[k:]
    if after == '' or after[0] != ']':
        return None
    if not is_empty_line(after[1:]):
        return None
    return name


# --------------------------------------------------------------------------- K5: act un-escaping

def un_escape(line: str) -> str:
    """Act phase: a line whose first non-space characters are \\[ or \\\\ loses that one backslash
    (so that a source line may begin with [ without being a phase header); everything else,
    including the leading space, is kept."""
    i = 0
    while i < len(line) and line[i].isspace():
        i += 1
    if line[i:i + 2] == '\\[' or line[i:i + 2] == '\\\\':
        return line[:i] + line[i + 1:]
    return line


# --------------------------------------------------------------------------- K3: two-section document

EMPTY, COMMENT, INSTRUCTION = 'EMPTY', 'COMMENT', 'INSTRUCTION'


class RefError(Exception):
    """The reference reader's verdict `this document is erroneous`: kind, 1-based line number, line text."""

    def __init__(self, kind: str, line_number: int, text: str, section=None, chain=()):
        Exception.__init__(self, kind, line_number, text)
        self.kind = kind
        self.line_number = line_number
        self.text = text
        self.section = section
        self.chain = chain


def source_lines(s: str):
    """The lines of a text: the pieces between newlines; the piece after a final newline is not a line.
    (ParseSource: `number of lines = number of \\n if the last line is empty`; the empty text has no line
    for the document reader, which is at end-of-file at once.)"""
    lines = s.split('\n')
    if lines[-1] == '':
        lines = lines[:-1]
    return lines


def read_sections(s: str, section_names, default):
    """Line reader for a document whose instructions are single lines.

    -> dict section name -> list of (element type, first line number, tuple of lines), file order.
    Consecutive blank lines (resp. comment lines) form one EMPTY (resp. COMMENT) element; a final
    newline at the very end of the text lets a trailing EMPTY element end with one more, empty, line
    (the text after the last newline).
    raises RefError('unknown-section' | 'malformed-header', line number, line text).
    """
    lines = source_lines(s)
    ends_with_newline = s.endswith('\n')
    out = {}
    current = None
    if lines and not is_header_line(lines[0]):
        current = default
        out[current] = []
    i = 0
    n = len(lines)
    while i < n:
        line = lines[i]
        if is_header_line(line):
            name = header_name(line)
            if name is None:
                raise RefError('malformed-header', i + 1, line)
            if name not in section_names:
                raise RefError('unknown-section', i + 1, line)
            current = name
            if current not in out:
                out[current] = []
            i += 1
        elif is_empty_line(line):
            j = i
            while j < n and is_empty_line(lines[j]):
                j += 1
            run = lines[i:j]
            if j == n and ends_with_newline:
                run = run + ['']
            out[current].append((EMPTY, i + 1, tuple(run)))
            i = j
        elif is_comment_line(line):
            j = i
            while j < n and is_comment_line(lines[j]):
                j += 1
            out[current].append((COMMENT, i + 1, tuple(lines[i:j])))
            i = j
        else:
            out[current].append((INSTRUCTION, i + 1, (line,)))
            i += 1
    return out


# --------------------------------------------------------------------------- K4: test-case files

PHASES = ('conf', 'setup', 'act', 'before-assert', 'assert', 'cleanup')
DEFAULT_PHASE = 'act'
INCLUDING = 'including'
MULTI_LINE_END = 'EOF'
# instruction names known in every phase but act: `i` takes the rest of its line, `m` takes its line and
# every following line up to and including a line that is exactly EOF
KNOWN_INSTRUCTIONS = ('i', 'm')


def _norm(path: str) -> str:
    import posixpath
    return posixpath.normpath(path)


def _dir_of(path: str) -> str:
    import posixpath
    return posixpath.dirname(path)


def _join(d: str, p: str) -> str:
    import posixpath
    return _norm(posixpath.join(d, p))


class Element(tuple):
    """(phase, type, first line number, lines, file as referred to, chain, description, payload)
    chain = tuple of (file as referred to, line number, line text) of the including directives, outermost first.
    payload: for `i` the argument text, for `m` the tuple of body lines, for act the tuple of source lines."""

    def __new__(cls, phase, type_, first, lines, file, chain, description=None, payload=None, name=None):
        return tuple.__new__(cls, (phase, type_, first, tuple(lines), file, tuple(chain), description, payload, name))

    phase = property(lambda self: self[0])
    type = property(lambda self: self[1])
    first = property(lambda self: self[2])
    lines = property(lambda self: self[3])
    file = property(lambda self: self[4])
    chain = property(lambda self: self[5])
    description = property(lambda self: self[6])
    payload = property(lambda self: self[7])
    name = property(lambda self: self[8])

    def content(self):
        """what the element says, without where it stands (for the permutation relation)"""
        return (self[1], self[3], self[4], self[5], self[6], self[7], self[8])


class DocError(Exception):
    """The reference reader's verdict `erroneous document`.
    kind: 'syntax' (error in the text of a file) or 'file-access' (missing file, cyclic inclusion)
    what: short tag of the cause;  first/lines: the reported source lines;  file/chain as for Element;
    section: the phase the error belongs to (None for header errors)."""

    def __init__(self, kind, what, first, lines, file, chain, section, alt_lines=None):
        Exception.__init__(self, kind, what, first, tuple(lines), file, tuple(chain), section)
        # alt_lines: a second acceptable form of the reported lines (the whole first line instead of the
        # text from the instruction name on)
        self.alt_lines = None if alt_lines is None else tuple(alt_lines)
        self.kind = kind
        self.what = what
        self.first = first
        self.lines = tuple(lines)
        self.file = file
        self.chain = tuple(chain)
        self.section = section


def _lstrip_space(s: str) -> str:
    i = 0
    while i < len(s) and s[i].isspace():
        i += 1
    return s[i:]


def _rstrip_lines(lines):
    """the lines of '\\n'.join(lines) with trailing white space removed"""
    out = list(lines)
    while len(out) > 1 and out[-1].strip() == '':
        out.pop()
    out[-1] = out[-1].rstrip()
    return out


class _FileReader:
    def __init__(self, files, result, root_key):
        self.files = files  # normalised path relative to the directory of the root file -> text
        self.result = result  # phase -> list of Element
        self.root_key = root_key

    def read(self, key: str, referred_as, phase_at_entry: str, chain, stack):
        text = self.files[key]
        lines = source_lines(text)
        ends_with_newline = text.endswith('\n')
        n = len(lines)
        phase = None
        if n > 0 and not is_header_line(lines[0]):
            phase = phase_at_entry
            self.result.setdefault(phase, [])
        i = 0
        while i < n:
            line = lines[i]
            if is_header_line(line):
                name = header_name(line)
                if name is None:
                    raise DocError('syntax', 'malformed-header', i + 1, [line], referred_as, chain, None)
                if name not in PHASES:
                    raise DocError('syntax', 'unknown-phase', i + 1, [line], referred_as, chain, None)
                phase = name
                self.result.setdefault(phase, [])
                i += 1
                continue
            if phase == 'act':
                j = i
                while j < n and not is_header_line(lines[j]):
                    j += 1
                src = tuple(un_escape(x) for x in lines[i:j])
                self.result[phase].append(Element(phase, INSTRUCTION, i + 1, src, referred_as, chain, None, src, 'act'))
                i = j
                continue
            if is_empty_line(line):
                j = i
                while j < n and is_empty_line(lines[j]):
                    j += 1
                run = lines[i:j]
                if j == n and ends_with_newline:
                    run = run + ['']
                self.result[phase].append(Element(phase, EMPTY, i + 1, run, referred_as, chain))
                i = j
                continue
            if is_comment_line(line):
                j = i
                while j < n and is_comment_line(lines[j]):
                    j += 1
                self.result[phase].append(Element(phase, COMMENT, i + 1, lines[i:j], referred_as, chain))
                i = j
                continue
            words = line.split()
            if words[0] == INCLUDING:
                if len(words) != 2:
                    raise DocError('syntax', 'directive-arguments', i + 1, [line], referred_as, chain, phase)
                target = words[1]
                sub_chain = tuple(chain) + ((referred_as, i + 1, line),)
                sub_key = _join(_dir_of(key), target)
                if sub_key not in self.files:
                    raise DocError('file-access', 'missing-file', i + 1, [line], referred_as, chain, phase)
                if sub_key in stack:
                    raise DocError('file-access', 'cyclic-inclusion', i + 1, [line], referred_as, chain, phase)
                self.read(sub_key, target, phase, sub_chain, stack + [sub_key])
                i += 1
                continue
            i = self._instruction(lines, i, text, phase, referred_as, chain)

    def _instruction(self, lines, i, text, phase, referred_as, chain) -> int:
        """element that begins on line index i: optional `description`, blank / comment lines, instruction.
        -> index of the first line after the element"""
        n = len(lines)
        first_i = i
        rest = _lstrip_space(lines[i])
        description = None
        if rest[0] == '`':
            # the description extends to the next back-tick, possibly on a later line
            tail = [rest[1:]] + lines[i + 1:]
            j = 0
            while j < len(tail) and '`' not in tail[j]:
                j += 1
            if j == len(tail):
                raise DocError('syntax', 'description-not-ended', first_i + 1, [lines[first_i]], referred_as, chain, phase)
            pos = tail[j].index('`')
            description = '\n'.join(tail[:j] + [tail[j][:pos]]).strip()
            i = i + j
            rest = _lstrip_space(tail[j][pos + 1:])
            if rest == '':
                # the instruction follows on a later line; blank and comment lines in between are skipped
                err_i = first_i
                i += 1
                while i < n and (is_empty_line(lines[i]) or is_comment_line(lines[i])):
                    err_i = i
                    i += 1
                if i >= n:
                    raise DocError('syntax', 'description-without-instruction', err_i + 1, [lines[err_i]],
                                   referred_as, chain, phase)
                rest = _lstrip_space(lines[i])
        # `rest` = the instruction from its name to the end of its first line; i = index of that line
        j = 0
        while j < len(rest) and not rest[j].isspace():
            j += 1
        name = rest[:j]
        arg = _lstrip_space(rest[j:])
        if name not in KNOWN_INSTRUCTIONS:
            raise DocError('syntax', 'unknown-instruction', i + 1, [lines[i]], referred_as, chain, phase)
        if name == 'i':
            self.result[phase].append(Element(phase, INSTRUCTION, i + 1, [rest], referred_as, chain, description, arg, 'i'))
            return i + 1
        body_start = i + 1
        k = body_start
        while k < n and lines[k] != MULTI_LINE_END:
            k += 1
        if k == n:
            raise DocError('syntax', 'instruction-arguments', i + 1, _rstrip_lines([rest] + lines[body_start:]),
                           referred_as, chain, phase, alt_lines=[lines[i]])
        self.result[phase].append(Element(phase, INSTRUCTION, i + 1, [rest] + lines[body_start:k + 1], referred_as, chain,
                                          description, tuple(lines[body_start:k]), 'm'))
        return k + 1


def read_test_case(files, root_key: str, root_referred_as):
    """files: normalised posix path relative to the root file's directory -> text.
    -> dict phase -> list of Element (file order, inclusions spliced in);  raises DocError."""
    result = {}
    _FileReader(files, result, root_key).read(root_key, root_referred_as, DEFAULT_PHASE, (), [root_key])
    return result
