"""K6 of harness/C08.py: symbol references written in the ACT phase (and in the ACT-INTERPRETER of `actor = ...`), for EVERY actor.

Real side: the REAL main program (`_C08_lib.run_cli` / `run_suite`) on generated test-case text.  Nothing of exactly_lib is
modelled; the `subprocess` module is replaced by `RecordingStub`, which starts nothing and records what the process would
have received (argv / shell command line, stdin contents, contents of the files named by arguments, and - for processes
started after the action to check - the contents of the result file `stdout`).

Reference side: `act_program` - the def/reference interpreter of `_C08_lib.Model` (written from the manual) applied to
   [conf] actor = ...        (or the same line in the [conf] of a suite, or `--actor`, or nothing: the default actor)
   [setup] % marker          (an observable effect of executing [setup])
           def ... OK, PRG   (correctly defined helpers used by some sites)
   [P] def T X0 = constant ; def T' X1 = link(X0)       (P = the phase of the definitions; or no definition at all)
   [act] the text of the site, referring to the last defined symbol (or to the undefined name X0)
and a table of what each site hands to the process as a function of the VALUE of the referenced symbol (strings by
concatenation, a list in the arguments spliced in, a list inside a string joined by single spaces, paths as absolute
paths): the documented behaviour of the four actors (help: actor entities "command line", "file interpreter", "source
interpreter", "null"; syntax elements PROGRAM, PROGRAM-ARGUMENT, ACT-INTERPRETER).
"""
import os
import sys

from harness import _C08_lib as lib
from harness._C08_lib import ANY, STR, TEXT, PATHSTR, TYPE, ALL_REL, REL_READ, Model, Sym

# the executable file of an ACT-INTERPRETER: in the home directories or absolute
REL_HDS = frozenset(['hds-case', 'hds-act', 'abs'])


# ============================================================================ the stand-in for `subprocess`

class RecordingStub(lib.SubprocessStub):
    """Starts nothing.  Records per call (argv or command line, shell?, cwd, stdin contents or None, {argument that names
    an existing file below the scratch root: its contents}, contents of ../result/stdout relative to the cwd or None) and
    writes the line `out` to the stdout it is given.  Exit code 0."""
    calls = []

    @classmethod
    def call(cls, *a, **k):
        cmd = a[0] if a else k.get('args')
        stdin = k.get('stdin')
        sin = stdin.read() if hasattr(stdin, 'read') else None
        files = {}
        if not isinstance(cmd, str):
            for x in cmd[1:]:
                if isinstance(x, str) and '/vsym-scratch/' in x and os.path.isfile(x):
                    with open(x) as f:
                        files[x] = f.read()
        result_stdout = None
        p = os.path.join(os.getcwd(), '..', 'result', 'stdout')
        if os.path.isfile(p):
            with open(p) as f:
                result_stdout = f.read()
        out = k.get('stdout')
        if hasattr(out, 'write'):
            try:
                out.write('out\n')
            except TypeError:
                out.write(b'out\n')
            out.flush()
        cls.calls.append((cmd, bool(k.get('shell')), os.getcwd(), sin, files, result_stdout))
        return 0


# ============================================================================ values (reference side)

class P:
    """A path value: an absolute path."""

    def __init__(self, p: str):
        self.p = p


class Text:
    """A text-source value."""

    def __init__(self, t: str):
        self.t = t


class Prog:
    """A program value: the command line it denotes."""

    def __init__(self, argv):
        self.argv = list(argv)


class Upper:
    """The text-transformer `char-case -to-upper`."""


class Opaque:
    """A value of a type that no act-phase site accepts."""


def as_str(v) -> str:
    """The string rendering: a list joined by single spaces, a path as an absolute path."""
    if isinstance(v, list):
        return ' '.join(v)
    if isinstance(v, P):
        return v.p
    if isinstance(v, str):
        return v
    raise TypeError(v)


_SEEDED_LIST_IS_ONE_ARGUMENT = [False]


def as_args(v) -> list:
    """In a list of arguments: the elements of a list are spliced in; anything else is one argument."""
    if _SEEDED_LIST_IS_ONE_ARGUMENT[0]:
        return [as_str(v)]
    return list(v) if isinstance(v, list) else [as_str(v)]


def as_path(v, default_root: str) -> str:
    """Used as a path: a path is itself; a string is relative to the default relativity of the place."""
    if isinstance(v, P):
        return v.p
    if isinstance(v, str):
        return default_root + '/' + v
    raise TypeError(v)


def as_text(v) -> str:
    if isinstance(v, Text):
        return v.t
    if isinstance(v, str):
        return v
    raise TypeError(v)


# (label, type or None for a builtin, value syntax / builtin name, relativity of a path, value as a function of the roots)
CONSTS = (
    ('string', 'string', 'sv', None, lambda R: 'sv'),
    ('list', 'list', 'e1 e2', None, lambda R: ['e1', 'e2']),
    ('path-home', 'path', '-rel-home f', 'hds-case', lambda R: P(R['home'] + '/f')),
    ('path-act-home', 'path', '-rel-act-home f', 'hds-act', lambda R: P(R['home'] + '/f')),
    ('path-act', 'path', '-rel-act f', 'act', lambda R: P(R['act'] + '/f')),
    ('path-tmp', 'path', '-rel-tmp f', 'tmp', lambda R: P(R['tmp'] + '/f')),
    ('path-result', 'path', '-rel-result f', 'result', lambda R: P(R['result'] + '/f')),
    ('path-abs', 'path', '/abs/f', 'abs', lambda R: P('/abs/f')),
    ('text-source', 'text-source', "'x y'", None, lambda R: Text('x y')),
    ('text-transformer', 'text-transformer', 'char-case -to-upper', None, lambda R: Upper()),
    ('program', 'program', '% echo earg', None, lambda R: Prog(['echo', 'earg'])),
    ('text-matcher', 'text-matcher', 'is-empty', None, lambda R: Opaque()),
    ('line-matcher', 'line-matcher', 'contents matches x', None, lambda R: Opaque()),
    ('integer-matcher', 'integer-matcher', '== 1', None, lambda R: Opaque()),
    ('file-matcher', 'file-matcher', 'type file', None, lambda R: Opaque()),
    ('files-matcher', 'files-matcher', 'is-empty', None, lambda R: Opaque()),
    ('files-condition', 'files-condition', '{ f }', None, lambda R: Opaque()),
    ('files-source', 'files-source', '{ file f }', None, lambda R: Opaque()),
    # builtins: no definition, the reference is to the builtin (or the chain starts at it)
    ('builtin-TAB', None, 'TAB', None, lambda R: '\t'),
    ('builtin-EXACTLY_HOME', None, 'EXACTLY_HOME', None, lambda R: P(R['home'])),
    ('builtin-EXACTLY_RESULT', None, 'EXACTLY_RESULT', None, lambda R: P(R['result'])),
)
CONST_LABELS = tuple(c[0] for c in CONSTS)

# X1 := link(X0): (label, type, value syntax with {x}, restriction on x, relativity rule of a path, value of X1 as a function
# of (value of X0, roots))
LINKS = (
    ('string', 'string', 'p@[{x}]@q', ANY, None, lambda v, R: 'p' + as_str(v) + 'q'),
    ('list', 'list', 'a @[{x}]@', ANY, None, lambda v, R: ['a'] + as_args(v)),
    ('list-quoted', 'list', '"@[{x}]@" b', ANY, None, lambda v, R: [as_str(v), 'b']),
    ('path-suffix-home', 'path', '-rel-home @[{x}]@', STR, 'hds-case', lambda v, R: P(R['home'] + '/' + v)),
    ('path-suffix-tmp', 'path', '-rel-tmp d/@[{x}]@', STR, 'tmp', lambda v, R: P(R['tmp'] + '/d/' + v)),
    ('path-whole', 'path', '@[{x}]@', PATHSTR(ALL_REL), ('of', '{x}', 'cwd'), lambda v, R: P(as_path(v, R['cwd']))),
    ('text-source-string', 'text-source', '"t @[{x}]@"', ANY, None, lambda v, R: Text('t ' + as_str(v))),
    ('text-source-ref', 'text-source', '@[{x}]@', TEXT, None, lambda v, R: Text(as_text(v))),
    ('program-ref', 'program', '@ {x} ra', TYPE('program'), None, lambda v, R: Prog(v.argv + ['ra'])),
    ('program-arg', 'program', '% echo @[{x}]@', ANY, None, lambda v, R: Prog(['echo'] + as_args(v))),
    ('program-name', 'program', '% @[{x}]@', STR, None, lambda v, R: Prog([v])),
    ('text-transformer-ref', 'text-transformer', '{x}', TYPE('text-transformer'), None, lambda v, R: v),
    ('text-matcher-ref', 'text-matcher', '{x}', TYPE('text-matcher'), None, lambda v, R: Opaque()),
)
LINK_LABELS = tuple(l[0] for l in LINKS)

DEF_PHASES = (None, 'setup', 'before-assert', 'assert', 'cleanup')  # None: no definition at all

# files in the home directory (= act-home directory) of every generated test case; all regular and executable
HOME_FILES = {'sv': 'contents of sv\n', 'f': 'contents of f\n', 'psvq': 'contents of psvq\n', 'okv': 'contents of okv\n',
              'src': 'contents of src\n'}

# ============================================================================ the sites

INTERP = '% interp i1'  # the ACT-INTERPRETER of the sites that do not vary it


def _exists(path: str, R) -> bool:
    return path in [R['home'] + '/' + n for n in HOME_FILES]


def _file(path: str, R):
    """A path handed to a place that demands an existing file: None (the site says nothing) if it does not exist."""
    return path if _exists(path, R) else None


def _obs(argv=None, shell=None, stdin=None, src=None, out='out\n'):
    """What the process of the action to check receives: argv (or the shell command line), stdin contents (None: none),
    `src`: contents of the file named by the last argument; `out`: what the result file stdout holds afterwards (the stub
    process prints the line `out`)."""
    if argv is not None and any(a is None for a in argv):
        return None
    return dict(argv=argv, shell=shell, stdin=stdin, src=src, out=out)


def _stdin_file(v, R):
    p = _file(as_path(v, R['home']), R)
    if p is None:
        return None
    return _obs(argv=['prog'], stdin=HOME_FILES[os.path.basename(p)])


def _upper(v):
    if not isinstance(v, Upper):
        raise TypeError(v)
    return 'OUT\n'


# (label, actor, ACT-INTERPRETER with {x} or None, text of [act] with {x}, restriction on x,
#  observation as a function of (value of x, roots))
# OK is a string symbol (value okv) and PRG a program symbol (% pp parg), both defined in [setup].
SITES = (
    # ------------------------------------------------------------------ command line actor: [act] is a PROGRAM
    ('command:program-name', 'command', None, '% @[{x}]@ a', STR,
     lambda v, R: _obs(argv=[as_str(v), 'a'])),
    ('command:argument', 'command', None, '% prog a @[{x}]@ b', ANY,
     lambda v, R: _obs(argv=['prog', 'a'] + as_args(v) + ['b'])),
    ('command:argument-in-quotes', 'command', None, '% prog "q @[{x}]@"', ANY,
     lambda v, R: _obs(argv=['prog', 'q ' + as_str(v)])),
    ('command:argument-after-ok', 'command', None, '% @[OK]@ @[OK]@ @[{x}]@', ANY,
     lambda v, R: _obs(argv=['okv', 'okv'] + as_args(v))),
    ('command:argument-before-ok', 'command', None, '% prog @[{x}]@ @[OK]@', ANY,
     lambda v, R: _obs(argv=['prog'] + as_args(v) + ['okv'])),
    ('command:after-comment-lines', 'command', None, '# comment\n\n% prog @[{x}]@\n\n# comment', ANY,
     lambda v, R: _obs(argv=['prog'] + as_args(v))),
    ('command:existing-file-argument', 'command', None, '% prog -existing-file @[{x}]@', PATHSTR(ALL_REL),
     lambda v, R: _obs(argv=['prog', _file(as_path(v, R['home']), R)])),
    ('command:stdin', 'command', None, '% prog a\n -stdin @[{x}]@', TEXT,
     lambda v, R: _obs(argv=['prog', 'a'], stdin=as_text(v))),
    ('command:stdin-in-quotes', 'command', None, '% prog a\n -stdin "in @[{x}]@"', ANY,
     lambda v, R: _obs(argv=['prog', 'a'], stdin='in ' + as_str(v))),
    ('command:stdin-file', 'command', None, '% prog\n -stdin -contents-of @[{x}]@', PATHSTR(ALL_REL), lambda v, R: _stdin_file(v, R)),
    ('command:transformer', 'command', None, '% prog a\n -transformed-by {x}', TYPE('text-transformer'),
     lambda v, R: _obs(argv=['prog', 'a'], out=_upper(v))),
    ('command:transformer-argument', 'command', None, '% prog a\n -transformed-by replace out @[{x}]@', ANY,
     lambda v, R: _obs(argv=['prog', 'a'], out=as_str(v) + '\n')),
    ('command:program-symbol', 'command', None, '@ {x} a1', TYPE('program'),
     lambda v, R: _obs(argv=v.argv + ['a1'])),
    ('command:program-symbol-argument', 'command', None, '@ PRG a @[{x}]@', ANY,
     lambda v, R: _obs(argv=['pp', 'parg', 'a'] + as_args(v))),
    ('command:shell', 'command', None, '$ echo @[{x}]@ z', ANY,
     lambda v, R: _obs(shell='echo ' + as_str(v) + ' z')),
    ('command:executable-file', 'command', None, '@[{x}]@ a', PATHSTR(REL_READ),
     lambda v, R: _obs(argv=[_file(as_path(v, R['home']), R), 'a'])),
    ('command:executable-file-argument', 'command', None, '@[OK]@ a @[{x}]@', ANY,
     lambda v, R: _obs(argv=[R['home'] + '/okv', 'a'] + as_args(v))),
    ('command:python-argument', 'command', None, '-python -c @[{x}]@', ANY,
     lambda v, R: _obs(argv=[sys.executable, '-c'] + as_args(v))),
    # ------------------------------------------------------------------ file interpreter actor: [act] is FILE [ARGUMENT]...
    ('file:file-name', 'file', INTERP, '@[{x}]@ a1', PATHSTR(REL_READ),
     lambda v, R: _obs(argv=['interp', 'i1', _file(as_path(v, R['home']), R), 'a1'])),
    ('file:file-name-suffix', 'file', INTERP, '-rel-home @[{x}]@ a1', STR,
     lambda v, R: _obs(argv=['interp', 'i1', _file(R['home'] + '/' + as_str(v), R), 'a1'])),
    ('file:argument', 'file', INTERP, 'src a1 @[{x}]@ a2', ANY,
     lambda v, R: _obs(argv=['interp', 'i1', R['home'] + '/src', 'a1'] + as_args(v) + ['a2'])),
    ('file:only-argument', 'file', INTERP, 'src @[{x}]@', ANY,
     lambda v, R: _obs(argv=['interp', 'i1', R['home'] + '/src'] + as_args(v))),
    ('file:argument-in-quotes', 'file', INTERP, 'src "q @[{x}]@"', ANY,
     lambda v, R: _obs(argv=['interp', 'i1', R['home'] + '/src', 'q ' + as_str(v)])),
    ('file:file-name-ok+argument', 'file', INTERP, '@[OK]@ @[{x}]@', ANY,
     lambda v, R: _obs(argv=['interp', 'i1', R['home'] + '/okv'] + as_args(v))),
    ('file:file-name+argument-ok', 'file', INTERP, '@[{x}]@ @[OK]@', PATHSTR(REL_READ),
     lambda v, R: _obs(argv=['interp', 'i1', _file(as_path(v, R['home']), R), 'okv'])),
    ('file:existing-file-argument', 'file', INTERP, 'src -existing-file @[{x}]@', PATHSTR(ALL_REL),
     lambda v, R: _obs(argv=['interp', 'i1', R['home'] + '/src', _file(as_path(v, R['home']), R)])),
    ('file:interpreter-argument', 'file', '% interp @[{x}]@ i2', 'src a1', ANY,
     lambda v, R: _obs(argv=['interp'] + as_args(v) + ['i2', R['home'] + '/src', 'a1'])),
    ('file:interpreter-name', 'file', '% @[{x}]@ i1', 'src', STR,
     lambda v, R: _obs(argv=[as_str(v), 'i1', R['home'] + '/src'])),
    ('file:interpreter-file', 'file', '@[{x}]@ i1', 'src', PATHSTR(REL_HDS),
     lambda v, R: _obs(argv=[_file(as_path(v, R['home']), R), 'i1', R['home'] + '/src'])),
    ('file:python-interpreter-argument', 'file', '-python @[{x}]@', 'src', ANY,
     lambda v, R: _obs(argv=[sys.executable] + as_args(v) + [R['home'] + '/src'])),
    ('file:interpreter-argument-ok+argument', 'file', '% interp @[OK]@', 'src @[{x}]@', ANY,
     lambda v, R: _obs(argv=['interp', 'okv', R['home'] + '/src'] + as_args(v))),
    ('file:interpreter-argument+argument-ok', 'file', '% interp @[{x}]@', 'src @[OK]@', ANY,
     lambda v, R: _obs(argv=['interp'] + as_args(v) + [R['home'] + '/src', 'okv'])),
    # ------------------------------------------------------------------ source interpreter actor: [act] is source code
    ('source:line', 'source', INTERP, 'l1 @[{x}]@ z', ANY,
     lambda v, R: _obs(argv=['interp', 'i1', '<src>'], src='l1 ' + as_str(v) + ' z\n')),
    ('source:later-line', 'source', INTERP, 'l1\n\n# no comment\n  l4 "@[{x}]@"', ANY,
     lambda v, R: _obs(argv=['interp', 'i1', '<src>'], src='l1\n\n# no comment\n  l4 "' + as_str(v) + '"\n')),
    ('source:line-ok+line', 'source', INTERP, '@[OK]@\n@[{x}]@', ANY,
     lambda v, R: _obs(argv=['interp', 'i1', '<src>'], src='okv\n' + as_str(v) + '\n')),
    ('source:line+line-ok', 'source', INTERP, '@[{x}]@\n@[OK]@', ANY,
     lambda v, R: _obs(argv=['interp', 'i1', '<src>'], src=as_str(v) + '\nokv\n')),
    ('source:interpreter-argument', 'source', '% interp @[{x}]@ i2', 'l1', ANY,
     lambda v, R: _obs(argv=['interp'] + as_args(v) + ['i2', '<src>'], src='l1\n')),
    ('source:interpreter-name', 'source', '% @[{x}]@', 'l1', STR,
     lambda v, R: _obs(argv=[as_str(v), '<src>'], src='l1\n')),
    ('source:interpreter-file', 'source', '@[{x}]@ i1', 'l1', PATHSTR(REL_HDS),
     lambda v, R: _obs(argv=[_file(as_path(v, R['home']), R), 'i1', '<src>'], src='l1\n')),
    ('source:interpreter-argument-ok+line', 'source', '% interp @[OK]@', 'l1 @[{x}]@', ANY,
     lambda v, R: _obs(argv=['interp', 'okv', '<src>'], src='l1 ' + as_str(v) + '\n')),
    ('source:interpreter-argument+line-ok', 'source', '% interp @[{x}]@', 'l1 @[OK]@', ANY,
     lambda v, R: _obs(argv=['interp'] + as_args(v) + ['<src>'], src='l1 okv\n')),
    # ------------------------------------------------------------------ null actor: [act] is ignored (restriction None)
    ('null:text', 'null', None, '@[{x}]@ a', None, None),
    ('null:program-like', 'null', None, '% prog @[{x}]@\n -stdin @[{x}]@', None, None),
)
SITE_LABELS = tuple(s[0] for s in SITES)

# ways of naming the actor
WAYS = ('case-conf',  # `actor = ...` in [conf] of the test case
        'suite-conf',  # `actor = ...` in [conf] of a suite; the case is run as a case of the suite
        'no-conf')  # no [conf]: the default actor (command line), or the source interpreter given by `--actor`

SETUP_HELPERS = ('% marker', 'def string OK = okv', 'def program PRG = % pp parg')


def way_applies(site, way: str) -> bool:
    label, actor, interp, act, restr, obs = site
    if way != 'no-conf':
        return True
    if actor == 'command':
        return True
    return actor == 'source' and interp == INTERP  # --actor takes a system program and constant arguments


def conf_line(site) -> str:
    label, actor, interp, act, restr, obs = site
    return 'actor = ' + actor + ('' if interp is None else ' ' + interp)


def act_program(site, way: str, dphase, const, link):
    """-> (conf lines of the suite, command line options, test-case text, name referenced, accepted?: bool,
           value of the referenced symbol as a function of the roots (None if not accepted))"""
    label, actor, interp, act, restr, obs = site
    clabel, ctype, csyntax, crel, cvalue = const
    m = Model()
    m.define('OK', Sym('string', (), value='okv'), [])
    m.define('PRG', Sym('program', ()), [])
    defs = []  # definition lines, in order
    model_defs = []  # (name, Sym, refs with restrictions)
    if ctype is None:
        name = csyntax  # a builtin: nothing to define
    else:
        name = 'X0'
        if dphase is not None:
            defs.append('def %s X0 = %s' % (ctype, csyntax))
            model_defs.append(('X0', Sym(ctype, (), rel=crel), []))
    value = cvalue
    if link is not None:
        llabel, ltype, lsyntax, lrestr, lrel, lvalue = link
        rel = ('of', name, lrel[2]) if isinstance(lrel, tuple) else lrel
        defs.append('def %s X1 = %s' % (ltype, lsyntax.format(x=name)))
        model_defs.append(('X1', Sym(ltype, (name,), rel=rel), [(name, lrestr)]))
        value = (lambda R, prev=cvalue: lvalue(prev(R), R))
        name = 'X1'
    # ---- the text
    x_conf = conf_line(site).format(x=name)
    suite_conf, options, sections = (), (), []
    if way == 'case-conf':
        sections.append(('conf', [x_conf]))
    elif way == 'suite-conf':
        suite_conf = (x_conf,)
    elif actor == 'source':
        options = ('--actor', interp[2:])
    phases = {'setup': list(SETUP_HELPERS), 'act': [act.format(x=name)], 'before-assert': [], 'assert': ['run % probe'],
              'cleanup': []}
    if defs:
        phases[dphase].extend(defs)
    for ph in lib.EXE_ORDER:
        if phases[ph]:
            sections.append((ph, phases[ph]))
    text = ''.join('[%s]\n%s\n' % (ph, '\n'.join(lines)) for ph, lines in sections)
    # ---- the reference interpreter: the phases in execution order; the references of the action to check - wherever they
    # are written, the ACT-INTERPRETER included - belong to the act phase
    accepted = True
    for ph in lib.EXE_ORDER:
        if ph == 'act':
            if restr is not None and not m.ref_ok(name, restr):
                accepted = False
        elif ph == dphase:
            for n, sym, refs in model_defs:
                if accepted and not m.define(n, sym, refs):
                    accepted = False
    return suite_conf, options, text, name, accepted, (value if accepted else None)


def expectation(site, value, R):
    """What a run of an ACCEPTED program must show: dict(marker, act) with act = None (no process: null actor) or the
    observation dict; None if the site says nothing for this value (a file that does not exist)."""
    label, actor, interp, act, restr, obs = site
    if obs is None:
        return dict(act=None)
    o = obs(value(R), R)
    if o is None:
        return None
    return dict(act=o)


SYMBOLIC_ROOTS = {'home': '<home>', 'act': '<act>', 'tmp': '<tmp>', 'result': '<result>', 'cwd': '<act>'}


def supported(site, way, dphase, const, link) -> bool:
    """Does the table of sites say what a run must show?  Always for a rejected program; for an accepted one unless the
    referenced value is used as the path of a file that does not exist."""
    suite_conf, options, text, name, accepted, value = act_program(site, way, dphase, const, link)
    return not accepted or expectation(site, value, SYMBOLIC_ROOTS) is not None


def run(suite_conf, options, text, way: str):
    """Runs the real main program.  -> dict(exc, status, rc (None for a suite), calls, sandboxes: list, home)"""
    if way == 'suite-conf':
        r = lib.run_suite([text], conf=suite_conf, files=HOME_FILES, stub=RecordingStub)
        return dict(exc=r['exc'], status=r['statuses'][0], rc=None, calls=r['calls'], sandboxes=r['sandbox_dirs'],
                    home=r['case_dir'])
    r = lib.run_cli(text, options, files=HOME_FILES, stub=RecordingStub)
    return dict(exc=r['exc'], status=r['ident'], rc=r['rc'], calls=r['calls'], sandboxes=r['sandboxes'], home=r['case_dir'])


def roots_of(r):
    sds = os.path.realpath(r['sandboxes'][0])
    return {'home': os.path.realpath(r['home']), 'act': sds + '/act', 'tmp': sds + '/tmp', 'result': sds + '/result',
            'cwd': sds + '/act'}  # no `cd` in these programs: the current directory is the act directory


def check(site, way, dphase, const, link, oracle_bug=None):
    """Generates the program, runs it and compares.  -> True / False, or None if the site says nothing for the cell."""
    suite_conf, options, text, name, accepted, value = act_program(site, way, dphase, const, link)
    if accepted and expectation(site, value, SYMBOLIC_ROOTS) is None:
        return None
    if oracle_bug == 'late-is-visible' and not accepted and dphase not in (None, 'setup'):
        # seeded oracle error: a definition of a later phase is visible in the act phase
        accepted_early = act_program(site, way, 'setup', const, link)
        accepted, value = accepted_early[4], accepted_early[5]
        if accepted and expectation(site, value, SYMBOLIC_ROOTS) is None:
            return None
    r = run(suite_conf, options, text, way)
    if r['exc'] is not None:
        return False
    if not accepted:
        # VALIDATION_ERROR before anything executes: no process (not even the one of [setup]), no sandbox
        return (r['status'] == 'VALIDATION_ERROR' and r['rc'] in (None, 65) and not r['calls'] and not r['sandboxes'])
    if not (r['status'] == 'PASS' and r['rc'] in (None, 0) and len(r['sandboxes']) == 1):
        return False
    # seeded oracle error: a list in the arguments is handed over as ONE argument
    _SEEDED_LIST_IS_ONE_ARGUMENT[0] = oracle_bug == 'list-is-one-argument'
    try:
        want = expectation(site, value, roots_of(r))['act']
    finally:
        _SEEDED_LIST_IS_ONE_ARGUMENT[0] = False
    calls = [c for c in r['calls']]
    # [setup] ran first (the marker process), then the action to check, then [assert] (the probe process)
    if not calls or list(calls[0][0]) != ['marker'] or list(calls[-1][0]) != ['probe']:
        return False
    act_calls = calls[1:-1]
    if want is None:
        return act_calls == []
    if len(act_calls) != 1:
        return False
    cmd, shell, cwd, stdin, files, _ = act_calls[0]
    if want['shell'] is not None:
        if not (shell and cmd == want['shell']):
            return False
    else:
        if shell or isinstance(cmd, str):
            return False
        argv = list(cmd)
        wargv = list(want['argv'])
        if want['src'] is not None:
            # the last argument names the file that holds the source code
            if len(argv) != len(wargv) or files.get(argv[-1]) != want['src']:
                return False
            argv, wargv = argv[:-1], wargv[:-1]
        if argv != wargv:
            return False
    if stdin != want['stdin']:
        return False
    return calls[-1][5] == want['out']
