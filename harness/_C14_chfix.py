"""Work-around for a defect of the TOOL (CrossHair 0.0.110), applied only inside the CrossHair worker
process (plain CPython -- replay, self-test, driver -- is not touched; nothing here touches /repo).

`LazyIntSymbolicStr.__eq__` compares the code point sequences of the two strings with `==`.  Those
sequences are an implementation detail and come in list flavour (`SymbolicList`, plain `list`) and in
tuple flavour (`SymbolicBoundedIntTuple`, slices, concatenations); `SymbolicList.__eq__` (correctly, for
Python lists) answers False for anything that is not a list.  After slicing a concatenation with a
negative bound the left string can be a concatenation with a list-flavoured part while the right one is
tuple-flavoured, and two equal strings compare unequal: for a symbolic s, `(s + '\n')[:-1] == s` is
reported False with a counterexample that does not reproduce -- exactly the expression in
exactly_lib.util.str_.misc_formatting.lines_with_line_ends.

The replacement compares the code points irrespective of the flavour of their containers: through
`SymbolicBoundedIntTuple.__eq__` (one solver expression, already flavour-insensitive) when either side
is one, element by element otherwise.

(Belongs in vsym/chfix.py; kept here because harness authors must not edit the engine.)
"""
import sys


def apply():
    if 'crosshair' not in sys.modules:
        return
    from crosshair.libimpl import builtinslib as bl
    from crosshair.tracers import NoTracing, ResumedTracing
    if getattr(bl, '_c14_str_eq_fixed', False):
        return
    LazyIntSymbolicStr = bl.LazyIntSymbolicStr
    SymbolicBoundedIntTuple = bl.SymbolicBoundedIntTuple

    def _codepoints_eq(a, b):
        if a is b:
            return True
        if a.__len__() != b.__len__():
            return False
        for x, y in zip(a, b):
            if x is y:
                continue
            if x != y:
                return False
        return True

    def __eq__(self, other):
        with NoTracing():
            mypoints = self._codepoints
            if isinstance(other, LazyIntSymbolicStr):
                otherpoints = other._codepoints
            elif isinstance(other, str):
                otherpoints = [ord(ch) for ch in other]
            else:
                return NotImplemented
            mine_is_sbit = isinstance(mypoints, SymbolicBoundedIntTuple)
            other_is_sbit = isinstance(otherpoints, SymbolicBoundedIntTuple)
            with ResumedTracing():
                if mine_is_sbit:
                    return mypoints.__eq__(otherpoints)
                if other_is_sbit:
                    return otherpoints.__eq__(mypoints)
                return _codepoints_eq(mypoints, otherpoints)

    LazyIntSymbolicStr.__eq__ = __eq__
    bl._c14_str_eq_fixed = True


class _Null:
    def __enter__(self):
        return self

    def __exit__(self, *a):
        return False


def no_tracing():
    """Context in which CrossHair's tracer is suspended (a no-op outside CrossHair): the code inside runs
    natively.  Only for blocks in which every value is concrete (selectors made concrete by ob.pick /
    ob.concrete_* first)."""
    if 'crosshair' not in sys.modules:
        return _Null()
    from crosshair.tracers import NoTracing, is_tracing
    if not is_tracing():
        return _Null()
    return NoTracing()
