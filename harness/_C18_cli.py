"""C18 helper: runs the REAL main program in process on a generated test-case file.

Same technique as harness/C03.run_cli: `subprocess` is replaced (at exactly_lib's two
process-starting sites) by a recording stub that starts nothing and reports exit code 0,
the sandbox root comes from a deterministic resolver (MainProgram constructor argument),
stdout / stderr are in-memory sinks.  Nothing else is replaced: argument parsing, file
reading, the document parser, every instruction parser, symbol validation, validation,
execution in a real sandbox, and result reporting are the repository's own.
"""
import os

# documented outcomes of `exactly FILE` (help: "test case outcome"): identifier -> exit code
OUTCOMES = {
    'PASS': 0, 'SKIPPED': 0, 'FAIL': 32, 'XFAIL': 33, 'XPASS': 33,
    'SYNTAX_ERROR': 65, 'VALIDATION_ERROR': 65, 'FILE_ACCESS_ERROR': 65, 'PRE_PROCESS_ERROR': 65,
    'HARD_ERROR': 128, 'INTERNAL_ERROR': 129,
}
NOT_EXECUTED = ('SYNTAX_ERROR', 'VALIDATION_ERROR', 'FILE_ACCESS_ERROR', 'PRE_PROCESS_ERROR')

STUBS = ('whole-program runs: the selector is made concrete, then the program runs natively on the concrete test case (CrossHair '
         'tracing suspended); the solver enumerates the selector space',
         'subprocess module at process_executor / preprocessor: recording stub that starts nothing and reports exit code 0',
         'deterministic sandbox resolver (MainProgram constructor argument)', 'in-memory stdout/stderr')


class Sink:
    """In-memory text file (write/flush); append-only."""

    def __init__(self):
        self.parts = []

    def write(self, s):
        self.parts.append(s)
        return len(s)

    def flush(self):
        pass

    def isatty(self):
        return False

    def value(self) -> str:
        return ''.join(self.parts)


class _SubprocessStub:
    import subprocess as _sp
    TimeoutExpired = _sp.TimeoutExpired
    SubprocessError = _sp.SubprocessError
    DEVNULL = _sp.DEVNULL
    PIPE = _sp.PIPE
    STDOUT = _sp.STDOUT
    calls = []

    @classmethod
    def call(cls, *a, **k):
        cls.calls.append((a, k))
        return 0


_MP = []
_RESOLVER = [None]


def _resolve() -> str:
    return _RESOLVER[0]()


def _main_program():
    """The main program object is built once per process: it is immutable configuration (instruction set, built-in
    symbols, default actor); everything per run goes through execute()."""
    if not _MP:
        import io
        from exactly_lib.cli import main_program
        from exactly_lib.cli_default import default_main_program_setup as d
        from exactly_lib.util.process_execution import process_executor
        from exactly_lib.processing import preprocessor
        process_executor.subprocess = _SubprocessStub
        preprocessor.subprocess = _SubprocessStub
        _MP.append(main_program.MainProgram(
            d.test_case_handling_setup.setup(), _resolve,
            d.TestCaseDefinitionForMainProgram(
                d.TestCaseParsingSetup(d.instruction_name_and_argument_splitter.splitter,
                                       d.default_instructions_setup.INSTRUCTIONS_SETUP, d.ActPhaseParser()),
                d.builtin_symbols.ALL),
            d.test_suite.test_suite_definition(), io.DEFAULT_BUFFER_SIZE))
    return _MP[0]


HOME_FILES = {
    'existing.txt': 'e\n',
    'three-lines.txt': 'a1\nb2\nc3\n',
    'home-dir/x.txt': 'x\n',
    'home-dir/sub/y.txt': 'y\n',
    'home-dir/prog2.py': 'import sys\n',
    'prog.py': 'import sys\n',
}


class _Null:
    def __enter__(self):
        return self

    def __exit__(self, *a):
        return False


def no_tracing():
    """Context in which CrossHair's tracer is suspended (no-op outside CrossHair): the code inside runs natively.
    Only for blocks in which every value is concrete (selectors already made concrete by ob.pick / ob.concrete_*).
    Used where CrossHair's *models* of library code would otherwise stand in for the real thing although nothing is
    symbolic: its pure-Python model of re.sub / Match.expand (it does not raise like the real engine for an invalid
    replacement template, and recursed), and - in whole-program runs - its replacements of hash() / repr()."""
    try:
        from crosshair.tracers import NoTracing, is_tracing
    except ImportError:
        return _Null()
    if not is_tracing():
        return _Null()
    return NoTracing()


_HANDLING_SETUP = []


def _execute_after_argument_parsing(mp, path: str, case_dir: str, output) -> int:
    """What MainProgram.execute([FILE]) does once its command line is parsed (argparse is a quarter of the cost of a run
    under symbolic execution and has nothing to do with the text of the test case): the settings object that
    argument_parsing.parse builds for a plain `exactly FILE` is built directly; the handling setup in it is the one
    the real argument parser produced (obtained once per process).  `selftest` compares both entries."""
    import pathlib
    from exactly_lib.cli.definitions import common_cli_options
    from exactly_lib.cli.program_modes.test_case import argument_parsing
    from exactly_lib.common.process_result_reporter import Environment
    from exactly_lib.processing.standalone.settings import TestCaseExecutionSettings, ReportingOption
    if not _HANDLING_SETUP:
        from exactly_lib.cli_default import default_main_program_setup as d
        parsed = argument_parsing.parse(d.test_case_handling_setup.setup(), _resolve, [path], common_cli_options.COMMAND_DESCRIPTIONS)
        _HANDLING_SETUP.append(parsed.handling_setup)
    settings = TestCaseExecutionSettings(pathlib.Path(path), pathlib.Path(case_dir).resolve(), ReportingOption.STATUS_CODE,
                                         _HANDLING_SETUP[0], sandbox_root_dir_resolver=_resolve,
                                         run_as_part_of_explicit_suite=None)
    return mp.execute_test_case(settings).report(Environment.new_with_color_if_supported_by_terminal(output))


def run_cli(text: str, extra_args=(), through_argument_parser: bool = False):
    """Runs `exactly [extra_args] FILE` where FILE holds `text` (a concrete str).  Returns what is observable.
    The program runs natively (tracing suspended, see no_tracing): its input is concrete."""
    with no_tracing():
        return _run_cli(text, extra_args, through_argument_parser)


def _run_cli(text: str, extra_args=(), through_argument_parser: bool = False):
    from vsym import scratch
    from exactly_lib.util.file_utils.std import StdOutputFiles
    mp = _main_program()
    work = scratch.new_dir('c18')
    # the home directory has a parent of its own, so that `..` of it holds nothing but it (not the sandboxes)
    case_dir = os.path.join(work, 'h', 'case')
    os.makedirs(case_dir)
    for name, contents in HOME_FILES.items():
        p = os.path.join(case_dir, name)
        d = os.path.dirname(p)
        if not os.path.isdir(d):
            os.makedirs(d)
        with open(p, 'w') as f:
            f.write(contents)
        if name.endswith('.py'):
            os.chmod(p, 0o755)
    path = os.path.join(case_dir, 't.case')
    with open(path, 'w') as f:
        f.write(text)
    roots = []

    def resolver() -> str:
        p = os.path.join(work, 'sandboxes-%d' % (len(roots) + 1))
        os.mkdir(p)
        roots.append(p)
        return p

    _RESOLVER[0] = resolver
    out, err = Sink(), Sink()
    _SubprocessStub.calls = []
    cwd = os.getcwd()
    exc = None
    try:
        if through_argument_parser or extra_args:
            rc = mp.execute(list(extra_args) + [path], StdOutputFiles(out, err))
        else:
            rc = _execute_after_argument_parsing(mp, path, case_dir, StdOutputFiles(out, err))
    except Exception as e:  # noqa  (an escaping exception is itself an observation)
        rc, exc = None, e
    except SystemExit as e:  # the program must return its exit code, not leave through sys.exit
        rc, exc = None, e
    os.chdir(cwd)
    n_calls = len(_SubprocessStub.calls)
    _make_writable(work)
    scratch.remove(work)
    so = out.value()
    return dict(rc=rc, exc=exc, ident=so.split('\n')[0], stdout=so, stderr=err.value(),
                process_starts=n_calls, sandboxes=len(roots), path=path)


def _make_writable(root: str):
    for d, dirs, files in os.walk(root):
        for x in dirs:
            try:
                os.chmod(os.path.join(d, x), 0o700)
            except OSError:
                pass


def _chfix_builtin_contracts():
    """Tool work-around (CrossHair 0.0.110; worker process only, no-op elsewhere) - extends harness/_C15_lib's.

    CrossHair replaces the builtins `hash` and `repr` by functions of crosshair.libimpl.builtinslib (`_hash`, `_repr`)
    whose docstrings carry PEP 316 contracts; under analysis kind PEP316 every traced call of them (e.g.
    pathlib.PurePath.__hash__, hit by the dicts of paths in files_condition.literal; repr() in error messages) may be
    "short-circuited" in a branch of the search: replaced by a FREE symbolic int / str.  A C-level dict operation then
    sees a __hash__ that does not return an int (TypeError -> a fake INTERNAL_ERROR), an error message holds a free
    string (so it "may contain" the word Traceback) - counterexamples that do not reproduce, and the decision to
    short-circuit is a heuristic of the search, so they come and go.  The work-around makes CrossHair always execute
    the body of its own contract-carrying replacements (the real hash / repr): strictly more precise, nothing is
    assumed."""
    try:
        import crosshair.core as core
    except ImportError:
        return
    orig = core.consider_shortcircuit
    if getattr(orig, '_c18_patched', False):
        return

    def consider_shortcircuit(fn, *a, **kw):
        if (getattr(fn, '__module__', '') or '').startswith('crosshair.') and kw.get('allow_interpretation', True):
            return None
        return orig(fn, *a, **kw)

    consider_shortcircuit._c18_patched = True
    consider_shortcircuit._c15_patched = True
    core.consider_shortcircuit = consider_shortcircuit


_chfix_builtin_contracts()
