"""C16  Suite run: every case once, verdict OK iff all succeed, reporters agree.

Kernels (DESIGN.md section 4, C16):
  K1  reporters.  A hierarchy of <= 3 suites (concrete layout per obligation) is run through the REAL
      SuitesExecutor / DepthFirstEnumerator with the real progress / JUnit reporter.  The outcome of every
      case is a symbolic selector into the catalogue of 14 outcomes (the nine executed verdicts incl. the
      act-phase SYNTAX_ERROR - each a FullExeResult produced by the real executor -, the three access errors,
      an internal error of the processor and a processor that raises).
  K2  hierarchy.  Suite files on disk (plain names, glob patterns, quoted names, directories with default
      suite file, repeated / cyclic references, missing files, syntax errors) are run through the REAL
      MainProgram.execute(['suite', ...]); only the case processor is a recording stub.  Which reference each
      [suites] / [cases] line holds is a symbolic selector into a catalogue of lines; the order in which
      pathlib's glob yields its matches is symbolic (environment non-determinism).
      K2 glob family (k2_glob, harness/_C16_glob.py): ONE reference line built from the constructs of the documented
      pattern syntax - directory part x first character x second character of the file name, each a literal or one of
      `?`, `*`, `[seq]`, `[!seq]`, `[a-b]`, `[?]`, `*/`, `**/` ... -, unquoted / quoted with ' or ", relative or
      ABSOLUTE (the scratch directory of the fixture, known at run time), in [cases] or [suites] of the root suite or of a
      suite in a sub directory; every selector symbolic, made concrete, then the real program runs untraced.
  K3  whole program, nothing stubbed but the sandbox directory names: real case files with real instructions,
      one per outcome the real program can produce, both reporters.

All symbolic variables are selectors over finite catalogues (DESIGN.md: [selector]): the certificate is the
exhaustion of the path tree.

Regions (switched on by known_findings.json while a defect is listed there; all of them are repaired in /repo now):
  junit-act-syntax-error          JUnit reporter + a case that ends with the act-phase SYNTAX_ERROR (fixed a4585db)
  case-listed-twice               a case file named by two lines of one [cases] section is processed once per line
                                  (decided: that is what "listed" means - _C16_lib.LITERAL_ONCE_EACH = False)
  reference-through-regular-file  a reference like `1.case/x` below a regular file (fixed b4c577f)
  overlong-file-name              a plain reference longer than NAME_MAX: OSError escaped (K2 long-name; fixed c3cda56)
  suite-file-not-utf8             a suite file that is not valid UTF-8: UnicodeDecodeError escaped (K2 broken; fixed 6de5e53)
  junit-control-characters        JUnit report not well-formed when a message holds a control character (K3; fixed a842fe5)
  glob-adjacent-stars             an unquoted reference with two adjacent `*` inside a path component (`**.case`): pathlib's
                                  ValueError escapes (K2 glob family)
  (an ABSOLUTE glob pattern made pathlib raise NotImplementedError - fixed ca6d079; the K2 glob family covers it)
"""
from typing import List

from vsym import ob
from vsym.ob import Ob

from harness import _C16_lib as L
from harness import _C16_glob as G

PROPERTY = 'C16'

REGION_JUNIT_ACT_SYNTAX_ERROR = 'junit-act-syntax-error'
REGION_CASE_LISTED_TWICE = 'case-listed-twice'
REGION_NOTADIR = 'reference-through-regular-file'
REGION_OVERLONG = 'overlong-file-name'
REGION_NOT_UTF8 = 'suite-file-not-utf8'
REGION_JUNIT_CTRL = 'junit-control-characters'
REGION_ADJACENT_STARS = 'glob-adjacent-stars'

REAL_K1 = (
    'exactly_lib.test_suite.processing.SuitesExecutor',
    'exactly_lib.test_suite.processing._process_and_time',
    'exactly_lib.test_suite.processing._process_case',
    'exactly_lib.test_suite.enumeration.DepthFirstEnumerator',
    'exactly_lib.test_suite.structure.TestSuiteHierarchy',
    'exactly_lib.test_suite.reporting.SubSuiteReporter',
    'exactly_lib.test_suite.exit_values',
    'exactly_lib.processing.exit_values.from_result',
    'exactly_lib.processing.processing_utils.ProcessorFromAccessorAndExecutor',
    'exactly_lib.processing.processing_utils.AccessorFromParts',
    'exactly_lib.execution.full_execution.execution.execute',
)
REAL_K1_PROGRESS = REAL_K1 + (
    'exactly_lib.test_suite.reporters.simple_progress_reporter.SUCCESS_STATUSES',
    'exactly_lib.test_suite.reporters.simple_progress_reporter.SimpleProgressRootSuiteProcessingReporter',
    'exactly_lib.test_suite.reporters.simple_progress_reporter.SimpleProgressRootSuiteReporter',
    'exactly_lib.test_suite.reporters.simple_progress_reporter.SimpleProgressSubSuiteProgressReporter',
)
REAL_K1_JUNIT = REAL_K1_PROGRESS + (
    'exactly_lib.test_suite.reporters.junit.FAIL_STATUSES',
    'exactly_lib.test_suite.reporters.junit.ERROR_STATUSES',
    'exactly_lib.test_suite.reporters.junit.JUnitRootSuiteProcessingReporter',
    'exactly_lib.test_suite.reporters.junit.JUnitRootSuiteReporter',
)

STUB_PARTS = ('case processor = the real ProcessorFromAccessorAndExecutor around a stub source reader / preprocessor / '
              'parser / executor; the executor returns FullExeResults that the real full_execution.execute produced '
              'on stub instructions (vsym.exeharness)')

STUB_PROCESSOR_CONSTRUCTOR = ('processors.new_processor_that_should_not_pollute_current_process -> constructor of the '
                              'recording stub case processor (K2 only)')
STUB_GLOB_ORDER = ('pathlib.Path.glob -> the real matches, yielded in a symbolic order (contract: the order of glob is '
                   'unspecified)')
STUB_CLOCK = ('datetime.datetime.now in test_suite.processing / reporting / reporters -> deterministic clock '
              '(CrossHair makes time symbolic; timing is outside the claim)')
STUB_PATH_HASH = ('pathlib.PurePath.__hash__ -> str.__hash__(str(path)) (work-around: CrossHair short-circuits the '
                  'builtin hash() inside pathlib into a symbolic int)')
STUB_MKDTEMP = ('sandbox_dir_resolving.mk_tmp_dir_with_prefix and processing.preprocessor.tempfile.TemporaryFile -> '
                'counter-named directories / files (CrossHair makes random symbolic)')

OUTSIDE_REPORT = ('timing fields, time stamps, host name', 'XML formatting beyond the counted attributes and the '
                                                           'testcase / failure / error elements',
                  'the summary the progress reporter writes to stderr', 'ANSI colours (output is not a terminal)')


# --------------------------------------------------------------------------- K1

def _kinds_pre(ks, n: int) -> bool:
    for i, k in enumerate(ks):
        if i < n:
            if not (0 <= k < L.N_KINDS):
                return False
        elif k != 0:
            return False
    return True


def _k1_kinds(c, k0, k1, k2):
    """the concrete outcomes of the cases, in processing order"""
    n = L.n_cases_of(c['layout'])
    return [ob.concrete_int(k, 0, L.N_KINDS - 1) for k in (k0, k1, k2)[:n]]


def _pre_k1(k0: int, k1: int, k2: int) -> bool:
    c = ob.case()
    n = L.n_cases_of(c['layout'])
    if not _kinds_pre((k0, k1, k2), n):
        return False
    if 'k0_range' in c and not (c['k0_range'][0] <= k0 < c['k0_range'][1]):
        return False
    if c['junit'] and ob.excluded(REGION_JUNIT_ACT_SYNTAX_ERROR):
        if L.K_ACT_SYNTAX_ERROR in _k1_kinds(c, k0, k1, k2):
            return False
    return True


def k1_progress(k0: int, k1: int, k2: int) -> bool:
    """
    pre: _pre_k1(k0, k1, k2)
    post: _
    """
    c = ob.case()
    layout = c['layout']
    kinds = _k1_kinds(c, k0, k1, k2)
    obs, exp = L.run_suites_executor(layout, kinds, False)
    ok = L.progress_ok(obs, L.expected_events_of(exp), kinds, bool(c.get('oracle_bug')))
    ok = ok and obs.processed == [L.FAKE_ROOT / cn for _s, cs, _r in exp for cn, _k in cs]
    return ob.post(ok)


def k1_junit(k0: int, k1: int, k2: int) -> bool:
    """
    pre: _pre_k1(k0, k1, k2)
    post: _
    """
    c = ob.case()
    layout = c['layout']
    kinds = _k1_kinds(c, k0, k1, k2)
    obs, exp = L.run_suites_executor(layout, kinds, True)
    ok = L.junit_ok(obs, exp, bool(c.get('oracle_bug')))
    # "the reporters list the same cases": the progress lines (which k1_progress compares with the same expected
    # list) that the JUnit reporter writes to stderr through the progress reporter's own sub-suite reporter
    ev, rest = L.parse_progress(obs.err)
    ok = ok and ev == L.expected_events_of(exp) and rest == []
    ok = ok and obs.processed == [L.FAKE_ROOT / cn for _s, cs, _r in exp for cn, _k in cs]
    return ob.post(ok)


_S = 'r.suite'
LAYOUTS_N01 = [
    ('0', (_S, 0, ())),
    ('1', (_S, 1, ())),
    ('sub1+0', (_S, 0, (('a.suite', 1, ()),))),
    # an intermediate suite that only groups: no case of its own, one sub-suite
    ('sub(sub1+0)+0', (_S, 0, (('a.suite', 0, (('b.suite', 1, ()),)),))),
]
LAYOUTS_N2_QUICK = [
    ('sub1+1', (_S, 1, (('a.suite', 1, ()),))),
]
LAYOUTS_N2_THOROUGH = [
    ('2', (_S, 2, ())),
    ('sub1,sub1+0', (_S, 0, (('a.suite', 1, ()), ('b.suite', 1, ())))),
    ('sub(sub1+0)+1', (_S, 1, (('a.suite', 0, (('b.suite', 1, ()),)),))),
]
LAYOUTS_N3_THOROUGH = [
    ('3', (_S, 3, ())),
    ('sub(sub1+1)+1', (_S, 1, (('a.suite', 1, (('b.suite', 1, ()),)),))),
]


def _layout_text(layout) -> str:
    name, n, subs = layout
    s = '%s[%d case%s]' % (name, n, '' if n == 1 else 's')
    if subs:
        s += ' listing (' + ', '.join(_layout_text(x) for x in subs) + ')'
    return s


def _k1_ob(name, layout, junit, timeout, k0_range=None):
    n = L.n_cases_of(layout)
    c = dict(layout=layout, junit=junit)
    what = 'every assignment of the 14 outcomes (%s) to its %d case(s)' % (', '.join(L.KINDS), n)
    if k0_range is not None:
        c['k0_range'] = k0_range
        name += ':k0=%d..%d' % (k0_range[0], k0_range[1] - 1)
        what += ' in which the first case processed ends with one of ' + ', '.join(L.KINDS[k0_range[0]:k0_range[1]])
    return Ob(
        name='K1:%s:%s' % ('junit' if junit else 'progress', name),
        fn='k1_junit' if junit else 'k1_progress', case=c, kernel='K1',
        bound='hierarchy %s; %s; %s' % (_layout_text(layout), what,
                                        'JUnit reporter: XML report and the progress lines on stderr' if junit else 'progress reporter'),
        timeout=timeout, selector=True,
        real=REAL_K1_JUNIT if junit else REAL_K1_PROGRESS,
        stubs=(STUB_PARTS, STUB_CLOCK, STUB_PATH_HASH), outside=OUTSIDE_REPORT,
        entry='SuitesExecutor.execute_and_report with RootSuiteProcessingReporter.execution_reporter')


def _k1_obligations(tier: str) -> List[Ob]:
    obs = []
    for junit in (False, True):
        f = 3 if junit else 1
        for name, layout in LAYOUTS_N01:
            obs.append(_k1_ob(name, layout, junit, 120 * f))
        for name, layout in LAYOUTS_N2_QUICK + (LAYOUTS_N2_THOROUGH if tier == 'thorough' else []):
            if junit:
                # split in two for wall-clock time
                obs.append(_k1_ob(name, layout, junit, 450, k0_range=(0, 7)))
                obs.append(_k1_ob(name, layout, junit, 450, k0_range=(7, L.N_KINDS)))
            else:
                obs.append(_k1_ob(name, layout, junit, 300))
        if tier == 'thorough':
            for name, layout in LAYOUTS_N3_THOROUGH:
                # split by the outcome of the first case, two outcomes per obligation (no obligation lies completely
                # inside the region junit-act-syntax-error)
                for lo in range(0, L.N_KINDS, 2):
                    obs.append(_k1_ob(name, layout, junit, 500 * f, k0_range=(lo, lo + 2)))
    two = LAYOUTS_N2_QUICK[0][1]
    obs.append(Ob(name='K1:progress:seeded-oracle-error', fn='k1_progress',
                  case=dict(layout=two, junit=False, oracle_bug=True), kernel='K1', expect=ob.REFUTE,
                  bound='seeded oracle error: XPASS taken for a successful outcome', timeout=300, selector=True,
                  real=REAL_K1_PROGRESS, stubs=(STUB_PARTS, STUB_CLOCK, STUB_PATH_HASH)))
    obs.append(Ob(name='K1:junit:seeded-oracle-error', fn='k1_junit',
                  case=dict(layout=two, junit=True, oracle_bug=True), kernel='K1', expect=ob.REFUTE,
                  bound='seeded oracle error: XPASS taken for a successful outcome', timeout=600, selector=True,
                  real=REAL_K1_JUNIT, stubs=(STUB_PARTS, STUB_CLOCK, STUB_PATH_HASH)))
    return obs


# --------------------------------------------------------------------------- K2

REAL_K2 = (
    'exactly_lib.cli.main_program.MainProgram.execute',
    'exactly_lib.cli.main_program.MainProgram.execute_test_suite',
    'exactly_lib.cli.program_modes.test_suite.argument_parsing._Parser',
    'exactly_lib.test_suite.processing.Processor',
    'exactly_lib.test_suite.processing._SuiteExecutionReporter',
    'exactly_lib.test_suite.processing.SuitesExecutor',
    'exactly_lib.test_suite.enumeration.DepthFirstEnumerator',
    'exactly_lib.test_suite.file_reading.suite_hierarchy_reading.Reader',
    'exactly_lib.test_suite.file_reading.suite_hierarchy_reading._SingleFileReader',
    'exactly_lib.test_suite.file_reading.suite_file_reading.read_suite_document',
    'exactly_lib.test_suite.file_reading.suite_file_reading._Parser',
    'exactly_lib.test_suite.instruction_set.utils.parse_file_names_resolver',
    'exactly_lib.test_suite.instruction_set.utils.single_regular_file_resolver',
    'exactly_lib.test_suite.instruction_set.utils.FileNamesResolverForPlainFileName',
    'exactly_lib.test_suite.instruction_set.utils.FileNamesResolverForGlobPattern',
    'exactly_lib.test_suite.instruction_set.utils.is_wildcard_pattern',
    'exactly_lib.test_suite.instruction_set.sections.cases._CasesSectionParser',
    'exactly_lib.test_suite.instruction_set.sections.suites._SuitesSectionParser',
    'exactly_lib.test_suite.instruction_set.sections.suites.regular_file_or_default_suite_file',
    'exactly_lib.test_suite.result_reporters.SuiteReadErrorReporter',
    'exactly_lib.test_suite.exit_values',
    'exactly_lib.test_suite.reporters.simple_progress_reporter.SimpleProgressRootSuiteProcessingReporter',
    'exactly_lib.test_suite.reporters.simple_progress_reporter.SimpleProgressRootSuiteReporter',
    'exactly_lib.test_suite.reporters.junit.JUnitRootSuiteProcessingReporter',
    'exactly_lib.test_suite.reporters.junit.JUnitRootSuiteReporter',
)

# the fixture: files that exist beside the generated suite files
FILES = {'1.case': '', '2.case': '', '3.case': '', 'd/x.case': '', 'd/y.case': '', 'e/z.case': ''}

# catalogue of lines of a [suites] section of a suite file in the fixture's top directory
SL = ('', 'a.suite', 'b.suite', 'd', 'd/exactly.suite', '*[ab].suite', '*.suite', 'nope.suite', 'e', 'r.suite',
      "'a.suite'", 'a.suite b.suite', '*/exactly.suite', '1.case/x', '[ab].suite', "'*[ab].suite'", '?.suite',
      'd/../a.suite', "'d' b.suite")
# catalogue of lines of a [cases] section of a suite file in the fixture's top directory
CL = ('', '1.case', '2.case', '*.case', '*[23].case', '?.case', 'nope.case', "'*.case'", 'd', 'd/x.case', '**/*.case',
      'd/*.case', '*', '1.case 2.case', '1.case/x', '*.nomatch', '[12].case', '"1.case"', 'd/../1.case',
      "'1.case' 2.case", "'2.case'  ", '"1.case" "2.case"')
# text that makes a suite file syntactically invalid
BROKEN = ('[nosuch]\n', '[conf]\nnosuchinstruction\n', '[suites]\n\'unterminated\n', '[cases]\n1.case superfluous\n',
          '[cases\n', '[conf]\npreprocessor =\n', '[setup]\nnosuchinstruction\n',
          "[cases]\n'3.case' superfluous\n", '[suites]\n"d" b.suite\n', '[cases]\n"d/x.case"\t\'d/y.case\'\n',
          b'\xff\xfe\n', b'[cases]\n\xe9.case\n')
NOTADIR_LINE = '1.case/x'


def _lines(*ls):
    return [x for x in ls if x]


def _S(suites=(), cases=(), broken=None):
    return L.SuiteSpec(_lines(*suites), _lines(*cases), broken)


def _sc_root_suites(x, y):
    """root [suites] holds line SL[x]; the sub-suites list one case each"""
    return dict(specs={'r.suite': _S([SL[x]], ['1.case']), 'a.suite': _S([], ['2.case']), 'b.suite': _S([], ['3.case']),
                       'd/exactly.suite': _S([], ['x.case'])})


def _sc_root_suites2(x, y):
    """root [suites] holds the lines SL[x], SL[y]"""
    return dict(specs={'r.suite': _S([SL[x], SL[y]], ['1.case']), 'a.suite': _S([], ['2.case']),
                       'b.suite': _S([], ['3.case']), 'd/exactly.suite': _S([], ['x.case', 'y.case'])})


def _sc_sub_suites(x, y):
    """root lists a.suite and b.suite; a.suite's [suites] holds SL[x] and b.suite's holds SL[y]"""
    return dict(specs={'r.suite': _S(['a.suite', 'b.suite'], ['1.case']), 'a.suite': _S([SL[x]], ['2.case']),
                       'b.suite': _S([SL[y]], ['3.case']), 'd/exactly.suite': _S([], ['*.case'])})


def _sc_chain(x, y):
    """chain r -> a -> b; b.suite's [suites] holds SL[x]"""
    return dict(specs={'r.suite': _S(['a.suite'], ['1.case']), 'a.suite': _S(['b.suite'], ['2.case']),
                       'b.suite': _S([SL[x]], ['3.case']), 'd/exactly.suite': _S([], ['y.case', 'x.case'])})


def _sc_root_cases(x, y):
    """root [cases] holds the lines CL[x], CL[y]; one sub-suite"""
    return dict(specs={'r.suite': _S(['a.suite'], [CL[x], CL[y]]), 'a.suite': _S([], ['3.case', '2.case'])})


def _sc_sub_cases(x, y):
    """a.suite (listed by the root) holds the [cases] lines CL[x]; root holds CL[y]"""
    return dict(specs={'r.suite': _S(['a.suite'], [CL[y]]), 'a.suite': _S([], [CL[x]])})


def _sc_globs(x, y):
    """suites and cases given by glob patterns with 2 - 3 matches each"""
    return dict(specs={'r.suite': _S(['*[ab].suite', 'd'], ['*.case']), 'a.suite': _S([], ['d/?.case']),
                       'b.suite': _S([], ['*[13].case', '**/z.case']), 'd/exactly.suite': _S([], ['*.case'])})


def _sc_broken(x, y):
    """syntax error BROKEN[x] in the root suite file (y = 0), in a sub-suite (y = 1) or in a sub-sub-suite (y = 2)"""
    b = [None, None, None]
    b[y] = BROKEN[x]
    return dict(specs={'r.suite': _S(['a.suite'], ['1.case'], b[0]), 'a.suite': _S(['b.suite'], ['2.case'], b[1]),
                       'b.suite': _S([], ['3.case'], b[2])})


def _sc_dir_arg(x, y):
    """the suite is given as a directory on the command line (default suite file); its [suites] holds SDL[x]"""
    sdl = ('', 's.suite', '*.suite', 'exactly.suite', 'sub', 'sub/exactly.suite', 'nope', '../d/s.suite', '../d')
    return dict(specs={'d/exactly.suite': _S([sdl[x]], ['*.case']), 'd/s.suite': _S([], ['y.case']),
                       'd/sub/exactly.suite': _S([], ['w.case'])},
                files={'d/sub/w.case': ''}, root='d/exactly.suite', via_dir_arg=True)


# [cases] of a suite that only groups other suites: absent, or a glob pattern without matches
GROUP_CASES = ('', '*.nomatch')


def _sc_grouping(x, y):
    """a.suite (listed by the root) has no case of its own (GROUP_CASES[y]) and its [suites] holds SL[x]; b.suite is a
    pure grouping suite too (lists the directory d): r -> a -> (b ->) d, cases only at the ends"""
    return dict(specs={'r.suite': _S(['a.suite'], ['1.case']), 'a.suite': _S([SL[x]], [GROUP_CASES[y]]),
                       'b.suite': _S(['d'], []), 'd/exactly.suite': _S([], ['y.case', 'x.case'])})


# lengths of a file name (one path component); NAME_MAX is 255, PATH_MAX 4096
NAME_LENGTHS = (1, 6, 254, 255, 256, 257, 300, 4090, 5000)
NAME_MAX = 255


def _long_name(n: int, suffix: str) -> str:
    return ('n' * n + suffix)[-n:] if n >= len(suffix) else 'n' * n


def _sc_long_name(x, y):
    """a reference that is a plain file name of NAME_LENGTHS[x] characters: y = 0 in [cases], the file exists if a file
    of that name can exist; y = 1 in [cases], missing; y = 2 in [suites], missing; y = 3 quoted, in [cases], missing"""
    n = NAME_LENGTHS[x]
    name = _long_name(n, '.case' if y != 2 else '.suite')
    files = {}
    if y == 0 and n <= NAME_MAX:
        files[name] = ''
    line = "'%s'" % name if y == 3 else name
    if y == 2:
        specs = {'r.suite': _S([line], ['1.case'])}
    else:
        specs = {'r.suite': _S([], ['1.case', line])}
    return dict(specs=specs, files=files, name_length=n)


def _sc_outcome(x, y):
    """a valid two-suite hierarchy in which case 2.case ends with outcome x and 1.case with outcome y"""
    return dict(specs={'r.suite': _S(['a.suite'], ['1.case', '3.case']), 'a.suite': _S([], ['2.case'])},
                kinds={'2.case': x, '1.case': y})


# name -> (builder, size of x, size of y, number of glob orders, description of the symbolic selectors)
SCENARIOS = {
    'root-suites': (_sc_root_suites, len(SL), 1, 2),
    'root-suites-x2': (_sc_root_suites2, len(SL), len(SL), 2),
    'sub-suites': (_sc_sub_suites, len(SL), len(SL), 1),
    'chain': (_sc_chain, len(SL), 1, 2),
    'root-cases': (_sc_root_cases, len(CL), len(CL), 2),
    'sub-cases': (_sc_sub_cases, len(CL), 4, 2),
    'globs': (_sc_globs, 1, 1, 6),
    'broken': (_sc_broken, len(BROKEN), 3, 1),
    'dir-arg': (_sc_dir_arg, 9, 1, 2),
    'outcome': (_sc_outcome, L.N_KINDS, 3, 1),
    'grouping': (_sc_grouping, len(SL), len(GROUP_CASES), 2),
    'long-name': (_sc_long_name, len(NAME_LENGTHS), 4, 1),
}


def _scenario(c, x: int, y: int):
    build = SCENARIOS[c['scenario']][0]
    if 'xs' in c:
        x = c['xs'][x]
    if 'ys' in c:
        y = c['ys'][y]
    sc = build(x, y)
    specs = sc['specs']
    entries = dict(FILES)
    entries.update(sc.get('files', {}))
    entries.update({p: s.text() for p, s in specs.items()})
    tree = L.Tree(entries)
    root = sc.get('root', 'r.suite')
    return sc, specs, tree, root


def _dims(c):
    _b, nx, ny, ng = SCENARIOS[c['scenario']]
    if 'xs' in c:
        nx = len(c['xs'])
    if 'ys' in c:
        ny = len(c['ys'])
    if 'ng' in c:
        ng = c['ng']
    return nx, ny, ng


def _uses_notadir(specs) -> bool:
    return any(NOTADIR_LINE in (s.suites + s.cases) for s in specs.values())


def _pre_k2(x: int, y: int, g: int) -> bool:
    c = ob.case()
    nx, ny, ng = _dims(c)
    if not (0 <= x < nx and 0 <= y < ny and 0 <= g < ng):
        return False
    if c.get('junit') and ob.excluded(REGION_JUNIT_ACT_SYNTAX_ERROR) and c['scenario'] == 'outcome':
        sc, _sp, _t, _r = _scenario(c, ob.concrete_int(x, 0, nx - 1), ob.concrete_int(y, 0, ny - 1))
        if L.K_ACT_SYNTAX_ERROR in sc['kinds'].values():
            return False
    if (ob.excluded(REGION_CASE_LISTED_TWICE) or ob.excluded(REGION_NOTADIR) or ob.excluded(REGION_OVERLONG)
            or ob.excluded(REGION_NOT_UTF8)):
        sc, specs, tree, root = _scenario(c, ob.concrete_int(x, 0, nx - 1), ob.concrete_int(y, 0, ny - 1))
        if ob.excluded(REGION_NOTADIR) and _uses_notadir(specs):
            return False
        if ob.excluded(REGION_OVERLONG) and sc.get('name_length', 0) > NAME_MAX:
            return False
        if ob.excluded(REGION_NOT_UTF8) and any(isinstance(sp.broken, bytes) for sp in specs.values()):
            return False
        if ob.excluded(REGION_CASE_LISTED_TWICE) and L.has_case_listed_twice(L.expected_run(tree, specs, root)):
            return False
    return True


def k2_hierarchy(x: int, y: int, g: int) -> bool:
    """
    pre: _pre_k2(x, y, g)
    post: _
    """
    c = ob.case()
    nx, ny, ng = _dims(c)
    x = ob.concrete_int(x, 0, nx - 1)
    y = ob.concrete_int(y, 0, ny - 1)
    g = ob.concrete_int(g, 0, ng - 1)
    sc, specs, tree, root = _scenario(c, x, y)
    kinds = sc.get('kinds', {})

    def kind_of(rel: str) -> int:
        return kinds.get(rel, 0)

    junit = bool(c.get('junit'))
    order = L.once_each(L.expected_run(tree, specs, root))
    obs = L.run_main_program_on_suite(tree, root, junit, kind_of, glob_rot=g // 2, glob_rev=(g % 2 == 1),
                                      via_dir_arg=bool(sc.get('via_dir_arg')))
    return ob.post(L.hierarchy_ok(obs, order, root, junit, kind_of, bool(c.get('oracle_bug'))))


def _k2_ob(name, scenario, timeout, bound, junit=False, **case):
    c = dict(scenario=scenario, junit=junit)
    c.update(case)
    return Ob(name='K2:' + name, fn='k2_hierarchy', case=c, kernel='K2', timeout=timeout, selector=True,
              bound=bound + '; %s reporter; fixture files %s' % ('JUnit' if junit else 'progress', ', '.join(sorted(FILES))),
              real=REAL_K2, stubs=(STUB_PROCESSOR_CONSTRUCTOR, STUB_PARTS, STUB_GLOB_ORDER, STUB_CLOCK, STUB_PATH_HASH),
              outside=OUTSIDE_REPORT + OUTSIDE_K2,
              entry="MainProgram.execute(['suite', '--reporter', R, FILE])")


OUTSIDE_K2 = (
    'the text of the error message of an invalid suite (stderr)',
    'symbolic links, unreadable (permission) files, file names with special characters; how a file name is spelled in the '
    'reports (names are compared after removing `x/..`)',
    'a root suite file that does not exist (a command line usage error, exit 64)',
    'hierarchies deeper than 3 suite files / wider than the catalogue lines allow',
    'the same case file listed by two different suites counts as two listed cases (each is processed once per listing suite)',
)


# --------------------------------------------------------------------------- K2, glob family

def _glob_dims(c):
    """the concrete values each selector ranges over: (directory parts, first chars, second chars, places, quotings,
    absolute?, glob orders).  With `pats` in the case - a list of (directory part, first char, second char) - the first
    selector ranges over that list and the next two are pinned to 0."""
    if 'pats' in c:
        first3 = (list(range(len(c['pats']))), [0], [0])
    else:
        first3 = (c.get('ds', list(range(len(G.DIRP)))), c.get('as', list(range(len(G.LETTER)))),
                  c.get('bs', list(range(len(G.DIGIT)))))
    return first3 + (c.get('ws', list(range(len(G.WHERE)))), c.get('qs', list(range(len(G.QUOTE)))),
                     c.get('abs', [0, 1]), list(range(c.get('ng', 2))))


def _glob_args(c, d, a, b, w, q, ab, g):
    """the concrete constructs selected"""
    d, a, b, w, q, ab, g = [ob.pick(dim, v) for v, dim in zip((d, a, b, w, q, ab, g), _glob_dims(c))]
    if 'pats' in c:
        d, a, b = c['pats'][d]
    return d, a, b, w, q, ab, g


def _pre_k2_glob(d: int, a: int, b: int, w: int, q: int, ab: int, g: int) -> bool:
    c = ob.case()
    for v, dim in zip((d, a, b, w, q, ab, g), _glob_dims(c)):
        if not (0 <= v < len(dim)):
            return False
    if ob.excluded(REGION_ADJACENT_STARS) or c.get('no_adjacent_stars'):
        # `no_adjacent_stars`: the lines with `**` inside a path component are the business of K2:glob:adjacent-stars
        _d, av, bv, _w, qv, _ab, _g = _glob_args(c, d, a, b, w, q, ab, g)
        if G.LETTER[av].endswith('*') and G.DIGIT[bv].startswith('*') and (qv == 0 or c.get('no_adjacent_stars')):
            return False
    return True


def k2_glob(d: int, a: int, b: int, w: int, q: int, ab: int, g: int) -> bool:
    """
    pre: _pre_k2_glob(d, a, b, w, q, ab, g)
    post: _
    """
    c = ob.case()
    d, a, b, w, q, ab, g = _glob_args(c, d, a, b, w, q, ab, g)
    junit = bool(c.get('junit'))
    with ob.untraced():  # every selector is concrete by now
        specs, tree, root = G.scenario(w, G.line(d, a, b, w, q, bool(ab)))
        if c.get('oracle_bug'):
            # seeded oracle error: the oracle takes a quoted name for a pattern
            specs = G.scenario(w, G.line(d, a, b, w, 0, bool(ab)))[0]
        order = L.expected_run(tree, specs, root)
        obs = L.run_main_program_on_suite(tree, root, junit, G.kind_of, glob_rot=g // 2, glob_rev=(g % 2 == 1))
        ok = L.hierarchy_ok(obs, order, root, junit, G.kind_of)
        if not ok and q == 0 and G.LETTER[a].endswith('*') and G.DIGIT[b].startswith('*') and not c.get('oracle_bug'):
            # `**` that is not an entire path component: the pattern syntax is documented by examples only ("a single file name
            # glob pattern"); reading it as `*` (the expectation above) and rejecting it as an invalid suite - nothing run,
            # exit 3 - both agree with the statement; an escaping exception (before fix 78ff6c7) does not
            ok = L.hierarchy_ok(obs, None, root, junit, G.kind_of)
    return ob.post(ok)


def _one_construct():
    """the lines with a wildcard construct in at most one of the three positions"""
    return [(d, a, b) for d in range(len(G.DIRP)) for a in range(len(G.LETTER)) for b in range(len(G.DIGIT))
            if G.n_wild(d, a, b) <= 1]


def _glob_ob(name, timeout, bound, junit=False, **case):
    c = dict(junit=junit)
    c.update(case)
    return Ob(name='K2:glob:' + name, fn='k2_glob', case=c, kernel='K2', timeout=timeout, selector=True,
              expect=ob.REFUTE if case.get('oracle_bug') else ob.CONFIRM,
              bound=bound + '; %s reporter; %s' % ('JUnit' if junit else 'progress', GLOB_FIXTURE_TEXT),
              real=REAL_K2, stubs=(STUB_PROCESSOR_CONSTRUCTOR, STUB_PARTS, STUB_GLOB_ORDER, STUB_CLOCK, STUB_PATH_HASH),
              outside=OUTSIDE_REPORT + OUTSIDE_K2 + OUTSIDE_GLOB,
              entry="MainProgram.execute(['suite', '--reporter', R, FILE])")


GLOB_FIXTURE_TEXT = ('fixture: STEM.case and STEM.suite for STEM in %r, and below sub/ in %r (a case named %s ends FAIL)'
                     % (G.TOP_STEMS, G.SUB_STEMS, G.FAILING_CASE))
GLOB_LINE_TEXT = ('a reference line [ABSOLUTE-DIR/] DIR-PART C1 C2 .case|.suite with DIR-PART in %r, C1 in %r, C2 in %r'
                  % (G.DIRP, G.LETTER, G.DIGIT))
OUTSIDE_GLOB = (
    'pattern forms that are not documented: an unclosed `[`, `[]...]`, `**` that is not a whole path component '
    '(region glob-adjacent-stars), brace expansion, `~`; hidden files; character classes of more than two members',
    'absolute references other than below the directory of the fixture; `..` inside a pattern',
)


def _glob_obligations(tier: str) -> List[Ob]:
    obs = []
    where_all = 'standing in each of: ' + '; '.join(G.WHERE_TEXT)
    quote_all = 'unquoted, quoted with \' and quoted with "'
    abs_all = 'relative and absolute'
    T = 300
    if tier == 'quick':
        for ws in ([0, 1], [2, 3]):
            obs.append(_glob_ob('combinations:%d%d' % tuple(ws), 2 * T,
                                'every combination of constructs: %s - except C1 = `*` with C2 = `*`; unquoted, relative, '
                                '%s; both orders of glob matches'
                                % (GLOB_LINE_TEXT, 'standing in each of: ' + '; '.join(G.WHERE_TEXT[w] for w in ws)),
                                ws=ws, qs=[0], abs=[0], no_adjacent_stars=True))
        obs.append(_glob_ob('one-construct', T,
                            '%s with a wildcard construct in at most one of the three positions; %s; %s; %s; both orders '
                            'of glob matches' % (GLOB_LINE_TEXT, where_all, quote_all, abs_all), pats=_one_construct()))
        obs.append(_glob_ob('one-construct:junit', T,
                            '%s with a wildcard construct in at most one of the three positions; %s; unquoted; %s'
                            % (GLOB_LINE_TEXT, where_all, abs_all), junit=True, pats=_one_construct(), qs=[0], ng=1))
        obs.append(_glob_ob('absolute', T,
                            'every combination of constructs: %s - except C1 = `*` with C2 = `*`; unquoted, ABSOLUTE; %s'
                            % (GLOB_LINE_TEXT, '; '.join(G.WHERE_TEXT[1:3])), ws=[1, 2], qs=[0], abs=[1], ng=1,
                            no_adjacent_stars=True))
    else:
        for w in range(len(G.WHERE)):
            for ab in (0, 1):
                for junit in (False, True):
                    obs.append(_glob_ob('combinations:%d:%s%s' % (w, 'abs' if ab else 'rel', ':junit' if junit else ''),
                                        3 * T,
                                        'every combination of constructs: %s - except C1 = `*` with C2 = `*`; %s; %s; %s; '
                                        'both orders of glob matches'
                                        % (GLOB_LINE_TEXT, quote_all, 'absolute' if ab else 'relative', G.WHERE_TEXT[w]),
                                        junit=junit, ws=[w], abs=[ab], no_adjacent_stars=True))
    # two adjacent `*` inside a path component (`**.case`, `t**.case` ...): by the documented syntax the same as one `*`
    a_star, b_star = G.LETTER.index('*'), G.DIGIT.index('*')
    for junit in ((False,) if tier == 'quick' else (False, True)):
        obs.append(_glob_ob('adjacent-stars' + (':junit' if junit else ''), T,
                            'C1 in (`t`, `*`) and C2 in (`1`, `*`) - `t1`, `t*`, `*1` and two adjacent stars `**` -, DIR-PART '
                            'in %r; %s; %s; %s' % (tuple(G.DIRP[i] for i in (0, 1, 8)), where_all, quote_all, abs_all),
                            junit=junit, ds=[0, 1, 8], bs=[0, b_star], ng=1, **{'as': [0, a_star]}))
    obs.append(_glob_ob('seeded-oracle-error', T,
                        'seeded oracle error: the oracle takes a quoted name for a pattern', oracle_bug=True,
                        ws=[0], qs=[1], abs=[0], ng=1, pats=_one_construct()))
    return obs


# --------------------------------------------------------------------------- K3

REAL_K3 = REAL_K2 + (
    'exactly_lib.processing.processors.new_processor_that_should_not_pollute_current_process',
    'exactly_lib.processing.processing_utils.ProcessorFromAccessorAndExecutor',
    'exactly_lib.processing.processing_utils.AccessorFromParts',
    'exactly_lib.processing.processors._Executor',
    'exactly_lib.processing.exit_values.from_result',
    'exactly_lib.test_suite.processing._process_and_time',
    'exactly_lib.test_suite.reporters.simple_progress_reporter.SUCCESS_STATUSES',
    'exactly_lib.test_suite.reporters.junit.FAIL_STATUSES',
    'exactly_lib.test_suite.reporters.junit.ERROR_STATUSES',
)

# real test case files: (name, text of the case file, index of the outcome in L.KINDS, text for the [conf] of its suite)
REAL_CASES = (
    ('PASS', '[assert]\nexit-code == 0\n', 0, ''),
    ('FAIL', '[assert]\nexit-code == 1\n', 1, ''),
    ('XFAIL', '[conf]\nstatus = FAIL\n[assert]\nexit-code == 1\n', 2, ''),
    ('XPASS', '[conf]\nstatus = FAIL\n[assert]\nexit-code == 0\n', 3, ''),
    ('SKIPPED', '[conf]\nstatus = SKIP\n[assert]\nexit-code == 1\n', 4, ''),
    ('VALIDATION_ERROR', '[setup]\ncopy non-existing-file\n', 5, ''),
    ('HARD_ERROR', '[setup]\nfile f.txt = "a"\nfile f.txt = "b"\n', 6, ''),
    ('act-phase SYNTAX_ERROR', '[act]\na\nb\n', 8, ''),
    ('FILE_ACCESS_ERROR', '[setup]\nincluding non-existing.xly\n', 9, ''),
    ('PRE_PROCESS_ERROR', '[assert]\nexit-code == 0\n', 10, '[conf]\npreprocessor = false\n'),
    ('SYNTAX_ERROR', '[setup]\nnosuchinstruction\n', 11, ''),
    ('unreadable (not UTF-8)', b'\xff\xfe[assert]\n', 9, ''),  # FILE_ACCESS_ERROR since fix 6de5e53 (INTERNAL_ERROR before)
    ('VALIDATION_ERROR whose message holds a control character (quoted from the case file)',
     '[setup]\ncopy non-existing-\x01file\n', 5, ''),
)
K3_ACT_SYNTAX_ERROR = 7  # index into REAL_CASES
K3_CONTROL_CHARACTER = 12  # index into REAL_CASES


def _pre_k3(k0: int, k1: int) -> bool:
    c = ob.case()
    n0 = len(c.get('k0s', REAL_CASES))
    n1 = len(c.get('k1s', REAL_CASES))
    if not (0 <= k0 < n0 and 0 <= k1 < n1):
        return False
    if c['junit'] and ob.excluded(REGION_JUNIT_ACT_SYNTAX_ERROR):
        a, b = _k3_kinds(c, ob.concrete_int(k0, 0, n0 - 1), ob.concrete_int(k1, 0, n1 - 1))
        if K3_ACT_SYNTAX_ERROR in (a, b):
            return False
    if c['junit'] and ob.excluded(REGION_JUNIT_CTRL):
        a, b = _k3_kinds(c, ob.concrete_int(k0, 0, n0 - 1), ob.concrete_int(k1, 0, n1 - 1))
        if K3_CONTROL_CHARACTER in (a, b):
            return False
    return True


def _k3_kinds(c, k0: int, k1: int):
    a = c['k0s'][k0] if 'k0s' in c else k0
    b = c['k1s'][k1] if 'k1s' in c else k1
    return a, b


def k3_whole_program(k0: int, k1: int) -> bool:
    """
    pre: _pre_k3(k0, k1)
    post: _
    """
    c = ob.case()
    n0 = len(c.get('k0s', REAL_CASES))
    n1 = len(c.get('k1s', REAL_CASES))
    a, b = _k3_kinds(c, ob.concrete_int(k0, 0, n0 - 1), ob.concrete_int(k1, 0, n1 - 1))
    ca, cb = REAL_CASES[a], REAL_CASES[b]
    specs = {'r.suite': L.SuiteSpec(['s.suite'], ['c1.case', 'z.case'], conf=cb[3]),
             's.suite': L.SuiteSpec([], ['c0.case'], conf=ca[3])}
    entries = {p: s.text() for p, s in specs.items()}
    entries['c0.case'] = ca[1]
    entries['c1.case'] = cb[1]
    entries['z.case'] = cb[1] if cb[3] else REAL_CASES[0][1]
    tree = L.Tree(entries)
    kinds = {'c0.case': ca[2], 'c1.case': cb[2], 'z.case': cb[2] if cb[3] else 0}
    junit = bool(c['junit'])
    order = L.expected_run(tree, specs, 'r.suite')
    obs = L.run_main_program_on_suite(tree, 'r.suite', junit, None)
    return ob.post(L.hierarchy_ok(obs, order, 'r.suite', junit, lambda rel: kinds[rel], bool(c.get('oracle_bug'))))


# --------------------------------------------------------------------------- obligations

def _idx(cat, *lines):
    return [cat.index(x) for x in lines]


def _chunks(cat):
    """index lists that split a catalogue into one obligation per line - except that the line that lies inside the
    region reference-through-regular-file shares an obligation with its predecessor (no obligation may lie completely
    inside a region)"""
    out = []
    for i, line in enumerate(cat):
        if line == NOTADIR_LINE and out:
            out[-1].append(i)
        else:
            out.append([i])
    return out


def _lines_text(cat, idxs):
    return ' or '.join(repr(cat[i]) for i in idxs)


def _k2_obligations(tier: str) -> List[Ob]:
    obs = []
    all_sl = 'every line of the catalogue SL = %r' % (SL,)
    all_cl = 'every line of the catalogue CL = %r' % (CL,)
    order2 = 'both orders of glob matches'
    T = 400
    if tier == 'quick':
        obs.append(_k2_ob('root-suites', 'root-suites', T,
                          'root suite whose [suites] section holds one line: ' + all_sl + '; ' + order2))
        obs.append(_k2_ob('root-suites:junit', 'root-suites', T,
                          'root suite whose [suites] section holds one line out of 6 of SL; ' + order2, junit=True,
                          xs=_idx(SL, '', 'a.suite', 'd', '*[ab].suite', '*.suite', 'nope.suite')))
        obs.append(_k2_ob('sub-suites', 'sub-suites', T,
                          'root lists a.suite, b.suite; [suites] of a.suite holds one of 6 lines of SL, that of b.suite one '
                          'of 5 (reached twice - also under another spelling -, cycle, self reference, directory, missing, glob)',
                          xs=_idx(SL, '', 'b.suite', 'r.suite', 'a.suite', 'd', 'nope.suite'),
                          ys=_idx(SL, '', 'a.suite', 'd', '*.suite', 'd/../a.suite')))
        obs.append(_k2_ob('chain', 'chain', T, 'chain r.suite -> a.suite -> b.suite; [suites] of b.suite holds one line: '
                          + all_sl, ng=1))
        obs.append(_k2_ob('root-cases', 'root-cases', T,
                          'root suite (one sub-suite) whose [cases] section holds one line: ' + all_cl + '; ' + order2,
                          ys=[0]))
        obs.append(_k2_ob('root-cases-pairs', 'root-cases', T,
                          'root suite whose [cases] section holds two lines: one of 5 x one of 4 lines of CL',
                          xs=_idx(CL, '1.case', '*.case', '*[23].case', 'nope.case', 'd/x.case'),
                          ys=_idx(CL, '2.case', '*.case', '**/*.case', '"1.case"'), ng=1))
    else:
        for xs in _chunks(SL):
            i, line = xs[0], _lines_text(SL, xs)
            obs.append(_k2_ob('root-suites-x2:%d' % i, 'root-suites-x2', 2 * T,
                              'root suite whose [suites] section holds the line %s and then one more line: %s; %s' % (
                                  line, all_sl, order2), xs=xs))
            obs.append(_k2_ob('sub-suites:%d' % i, 'sub-suites', T,
                              'root lists a.suite, b.suite; [suites] of a.suite holds the line %s, that of b.suite one line: %s' % (
                                  line, all_sl), xs=xs))
        for xs in _chunks(CL):
            i, line = xs[0], _lines_text(CL, xs)
            obs.append(_k2_ob('root-cases:%d' % i, 'root-cases', 2 * T,
                              'root suite (one sub-suite) whose [cases] section holds the line %s and then one more line: %s; %s' % (
                                  line, all_cl, order2), xs=xs))
        for j in range(4):
            obs.append(_k2_ob('sub-cases:%d' % j, 'sub-cases', 2 * T,
                              'sub-suite whose [cases] section holds one line: %s; the root\'s holds %r; %s' % (
                                  all_cl, CL[j], order2), ys=[j]))
        obs.append(_k2_ob('chain', 'chain', 2 * T, 'chain r.suite -> a.suite -> b.suite; [suites] of b.suite holds one line: '
                          + all_sl + '; ' + order2))
        obs.append(_k2_ob('root-suites:junit', 'root-suites', 2 * T,
                          'root suite whose [suites] section holds one line: ' + all_sl + '; ' + order2, junit=True))
        obs.append(_k2_ob('chain:junit', 'chain', T, 'chain r.suite -> a.suite -> b.suite; [suites] of b.suite holds one '
                                                     'line: ' + all_sl, junit=True, ng=1))
        obs.append(_k2_ob('root-cases:junit', 'root-cases', 2 * T,
                          'root suite (one sub-suite) whose [cases] section holds one line: ' + all_cl + '; ' + order2,
                          junit=True, ys=[0]))
    for junit in (False, True):
        j = ':junit' if junit else ''
        obs.append(_k2_ob('globs' + j, 'globs', T,
                          'three-level hierarchy given by glob patterns with 2 - 3 matches each; all 6 orders in which glob may '
                          'yield 3 matches', junit=junit))
        obs.append(_k2_ob('outcome' + j, 'outcome', T,
                          'valid two-suite hierarchy; the case of the sub-suite ends with each of the 14 outcomes' + (
                              ', the first case of the root with PASS, FAIL or XFAIL' if tier == 'thorough' else ''),
                          junit=junit, **({} if tier == 'thorough' else dict(ys=[0]))))
    group_bound = ('a.suite (listed by the root) only groups - its [cases] is absent or a pattern without matches - and its '
                   '[suites] holds %s; b.suite only groups too (r -> a -> b -> d/exactly.suite is a chain of 4)')
    if tier == 'quick':
        obs.append(_k2_ob('grouping', 'grouping', T, group_bound % 'one of 6 lines of SL',
                          xs=_idx(SL, '', 'b.suite', 'd', "'a.suite'", 'nope.suite', '*/exactly.suite'), ng=1))
        obs.append(_k2_ob('long-name', 'long-name', T,
                          'a plain file name of 6, 255, 256, 300 or 5000 characters as reference: in [cases] (existing if it '
                          'can exist / missing / quoted) or in [suites]',
                          xs=[NAME_LENGTHS.index(n) for n in (6, 255, 256, 300, 5000)]))
    else:
        for junit in (False, True):
            j = ':junit' if junit else ''
            obs.append(_k2_ob('grouping' + j, 'grouping', 2 * T, group_bound % ('one line: ' + all_sl) + '; ' + order2,
                              junit=junit))
            obs.append(_k2_ob('long-name' + j, 'long-name', T,
                              'a plain file name of %s characters as reference: in [cases] (existing if it can exist / '
                              'missing / quoted) or in [suites]' % (NAME_LENGTHS,), junit=junit))
    obs.append(_k2_ob('broken', 'broken', T, 'each of %d syntax errors %r in the root suite file, in a sub-suite or in a '
                                             'sub-sub-suite' % (len(BROKEN), BROKEN)))
    obs.append(_k2_ob('dir-arg', 'dir-arg', T,
                      'suite given as a directory on the command line; its default suite file lists one of 9 references '
                      '(plain, glob matching itself, itself, sub directory, missing, through `..`); ' + order2))
    if tier == 'thorough':
        obs.append(_k2_ob('broken:junit', 'broken', T, 'each of %d syntax errors in the root suite file, in a sub-suite or '
                                                       'in a sub-sub-suite' % len(BROKEN), junit=True))
        obs.append(_k2_ob('dir-arg:junit', 'dir-arg', T, 'suite given as a directory on the command line', junit=True))
    obs.append(Ob(name='K2:seeded-oracle-error', fn='k2_hierarchy', case=dict(scenario='globs', junit=False, oracle_bug=True),
                  kernel='K2', expect=ob.REFUTE, timeout=T, selector=True, real=REAL_K2,
                  bound='seeded oracle error: the listing suite expected before its sub-suites',
                  stubs=(STUB_PROCESSOR_CONSTRUCTOR, STUB_PARTS, STUB_GLOB_ORDER, STUB_CLOCK, STUB_PATH_HASH)))
    return obs


def _k3_ob(name, timeout, bound, junit, **case):
    c = dict(junit=junit)
    c.update(case)
    return Ob(name='K3:' + name, fn='k3_whole_program', case=c, kernel='K3', timeout=timeout, selector=True,
              bound=bound + '; %s reporter' % ('JUnit' if junit else 'progress'),
              real=REAL_K3, stubs=(STUB_MKDTEMP, STUB_CLOCK, STUB_PATH_HASH, STUB_GLOB_ORDER + ' (identity order here)'),
              outside=OUTSIDE_REPORT + ('outcomes the real program cannot be made to produce from a case file '
                                        '(INTERNAL_ERROR of an instruction, a raising processor): K1',),
              entry="MainProgram.execute(['suite', '--reporter', R, FILE]) on real case files")


def _k3_obligations(tier: str) -> List[Ob]:
    obs = []
    names = ', '.join(c[0] for c in REAL_CASES)
    for junit in (False, True):
        j = ':junit' if junit else ':progress'
        if tier == 'quick':
            half = len(REAL_CASES) // 2
            for h, k0s in enumerate((list(range(half)), list(range(half, len(REAL_CASES))))):
                obs.append(_k3_ob('sub-%d%s' % (h, j), 400,
                                  'r.suite [PASS case, PASS case] listing s.suite [one real case file for each of: %s]' % (
                                      ', '.join(REAL_CASES[i][0] for i in k0s)), junit, k0s=k0s, k1s=[0]))
        else:
            for b in range(0, len(REAL_CASES) - 1, 2):
                # two outcomes of the root's case per obligation, three in the last (no obligation lies completely
                # inside a region)
                k1s = [b, b + 1] + ([b + 2] if b + 3 == len(REAL_CASES) else [])
                obs.append(_k3_ob('%d-%d%s' % (b, k1s[-1], j), 1200,
                                  'r.suite [%s case, PASS case] listing s.suite [one real case file for each of: %s]' % (
                                      ' or '.join(REAL_CASES[i][0] for i in k1s), names), junit, k1s=k1s))
    obs.append(Ob(name='K3:seeded-oracle-error', fn='k3_whole_program', case=dict(junit=False, oracle_bug=True, k1s=[1]),
                  kernel='K3', expect=ob.REFUTE, timeout=600, selector=True, real=REAL_K3,
                  bound='seeded oracle error: the listing suite expected before its sub-suites',
                  stubs=(STUB_MKDTEMP, STUB_CLOCK, STUB_PATH_HASH)))
    return obs


def obligations(tier: str) -> List[Ob]:
    return _k1_obligations(tier) + _k2_obligations(tier) + _glob_obligations(tier) + _k3_obligations(tier)


# --------------------------------------------------------------------------- self-test (stubs and reference oracles)

def selftest(tier) -> int:
    """Concrete comparison of the stubs / reference oracles with the real things they stand for:
    the reference glob + ordering against pathlib on the fixture written to disk, the path hash and the clock
    stubs against their contracts, the result catalogue against the real executor, the report parsers on real reports."""
    import os
    import pathlib
    from vsym import scratch
    n = 0
    # reference glob vs pathlib.Path.glob (real, unpatched), and the order against sorted(Path)
    entries = dict(FILES)
    entries.update({'r.suite': '', 'a.suite': '', 'b.suite': '', 'd/exactly.suite': '', 'd/s.suite': '',
                    'd/sub/exactly.suite': '', 'd/sub/w.case': ''})
    tree = L.Tree(entries)
    work = scratch.new_dir('selftest')
    tree.write(work)
    patterns = [x.strip('\'"') for x in SL + CL if any(w in x for w in '*?[') and ' ' not in x]
    patterns += ['*', '**', '**/*', 'd/*', '*/*', '?', '*.suite', 'sub/*', '[de]/*.case']
    for base in ('', 'd'):
        for pat in patterns:
            real = sorted(pathlib.Path(work, base).glob(pat))
            real_rel = [os.path.relpath(str(p), work).replace(os.sep, '/') for p in real]
            real_rel = [p for p in real_rel if p != '.']
            ref = sorted(L._glob(tree, base, pat), key=lambda p: tuple(p.split('/')))
            ref = [p for p in ref if p != '']
            if real_rel != ref:
                raise AssertionError('reference glob differs from pathlib for %r in %r: %r vs %r' % (pat, base, ref, real_rel))
            n += 1
    scratch.remove(work)
    # ... and on the fixture and the patterns of the glob family (but `**` inside a path component, which pathlib rejects)
    _specs, gtree, _root = G.scenario(0, '')
    work = scratch.new_dir('selftest')
    gtree.write(work)
    for base in ('', 'sub'):
        for d in range(len(G.DIRP)):
            for a in range(len(G.LETTER)):
                for b in range(len(G.DIGIT)):
                    for ext in ('.case', '.suite'):
                        pat = G.pattern(d, a, b, ext)
                        if '**' in pat.replace('**/', ''):
                            continue
                        real = sorted(pathlib.Path(work, base).glob(pat))
                        real_rel = [os.path.relpath(str(p), work).replace(os.sep, '/') for p in real]
                        ref = sorted(L._glob(gtree, base, pat), key=lambda p: tuple(p.split('/')))
                        if real_rel != ref:
                            raise AssertionError('reference glob differs from pathlib for %r in %r: %r vs %r' % (
                                pat, base, ref, real_rel))
                        n += 1
    scratch.remove(work)
    # path hash stub: equal paths hash equal, dict look-up by an equal path works
    L.install_clock()
    a, b = pathlib.Path('/x/y/../z.case'), pathlib.Path('/x', 'y', '..', 'z.case')
    if hash(a) != hash(b) or {a: 1}.get(b) != 1 or hash(pathlib.Path('/x/y')) == hash(pathlib.Path('/x/z')):
        raise AssertionError('path hash stub broken')
    n += 1
    # clock stub: strictly increasing readings within a run
    t = [L._now() for _ in range(5)]
    if not all(x < y for x, y in zip(t, t[1:])):
        raise AssertionError('clock stub not increasing')
    n += 1
    # result catalogue: the real executor produced the named status
    for k in range(9):
        if L._full_exe_result(k).status.name != L.KINDS[k]:
            raise AssertionError('result catalogue')
        n += 1
    # report parsers on real reports
    layout = ('r.suite', 1, (('a.suite', 2, ()),))
    obs, exp = L.run_suites_executor(layout, [1, 0, 6], False)
    ev, rest = L.parse_progress(obs.out)
    if [e[0] for e in ev] != ['begin', 'case', 'case', 'end', 'begin', 'case', 'end'] or rest != ['ERROR']:
        raise AssertionError('progress parser: %r' % (obs.out,))
    obs, exp = L.run_suites_executor(layout, [1, 0, 6], True)
    suites = L.parse_junit(obs.out)
    if [(s['tests'], s['failures'], s['errors'], len(s['cases'])) for s in suites] != [(2, 1, 0, 2), (1, 0, 1, 1)]:
        raise AssertionError('junit parser: %r' % (obs.out,))
    n += 2
    return n


ASSUMPTIONS = [
    'K1, K2: the outcome of a case does not depend on the suite machinery - the case processor is a stub that returns, per '
    'case file, a result object produced by exactly_lib itself (real executor on stub instructions / real '
    'ProcessorFromAccessorAndExecutor on stub parts); K3 removes the stub for the outcomes a case file can produce',
    'glob yields every match exactly once, in an unspecified order (the order is symbolic in K2)',
    'a deterministic clock replaces datetime.now in the suite machinery (CrossHair makes time symbolic); PurePath.__hash__ is '
    'computed by str.__hash__ (CrossHair 0.0.110 short-circuits the builtin hash() called inside pathlib); sandbox '
    'directories and the preprocessor\'s temporary files get counter-based names (CrossHair makes random symbolic)',
    'all symbolic variables are selectors over finite catalogues: the verdict is the exhaustion certificate of the path tree',
    'the statement "each listed test case exactly once" is read literally (harness/_C16_lib.LITERAL_ONCE_EACH); the same '
    'case file listed by two different suites counts as two listed cases',
]

OUTSIDE = [
    'timing fields, time stamps, host name; XML formatting beyond the counted attributes and the testcase / failure / error elements',
    'the exit code of a valid run and the stdout of an invalid run under the JUnit reporter (not part of the statement)',
    'suite hierarchies outside the generated family: more than 4 suite files, depth > 3, reference lines outside the '
    'catalogues SL / CL and the generated glob family (harness/_C16_glob.py), symbolic links, permissions',
    'marker files written by the cases: executions are counted at the case processor (a recording wrapper in K3)',
]
