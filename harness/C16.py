"""C16  Suite run: every case once, verdict OK iff all succeed, reporters agree.

Kernels (DESIGN.md section 4, C16):
  K1  reporters.  A hierarchy of <= 3 suites (concrete layout per obligation) is run through the REAL
      SuitesExecutor / DepthFirstEnumerator with the real progress / JUnit reporter.  The outcome of every
      case is a symbolic selector into the catalogue of 14 outcomes (the nine executed verdicts incl. the
      act-phase SYNTAX_ERROR - each a FullExeResult produced by the real executor -, the three access errors,
      an internal error of the processor and a processor that raises).
  K2  hierarchy.  Suite files on disk (plain names, glob patterns, quoted names, directories with default
      suite file, repeated / cyclic references, missing files, syntax errors) are run through the REAL
      MainProgram.execute(['suite', ...]); only the case processor is a recording stub.  Which reference each
      [suites] / [cases] line holds is a symbolic selector into a catalogue of lines; the order in which
      pathlib's glob yields its matches is symbolic (environment non-determinism).
  K3  whole program, nothing stubbed but the sandbox directory names: real case files with real instructions,
      one per outcome the real program can produce, both reporters.

All symbolic variables are selectors over finite catalogues (DESIGN.md: [selector]): the certificate is the
exhaustion of the path tree.
"""
from typing import List

from vsym import ob
from vsym.ob import Ob

from harness import _C16_lib as L

PROPERTY = 'C16'

REGION_JUNIT_ACT_SYNTAX_ERROR = 'junit-act-syntax-error'
REGION_CASE_LISTED_TWICE = 'case-listed-twice'

REAL_K1 = (
    'exactly_lib.test_suite.processing.SuitesExecutor',
    'exactly_lib.test_suite.processing._process_and_time',
    'exactly_lib.test_suite.processing._process_case',
    'exactly_lib.test_suite.enumeration.DepthFirstEnumerator',
    'exactly_lib.test_suite.structure.TestSuiteHierarchy',
    'exactly_lib.test_suite.reporting.SubSuiteReporter',
    'exactly_lib.test_suite.exit_values',
    'exactly_lib.processing.exit_values.from_result',
    'exactly_lib.processing.processing_utils.ProcessorFromAccessorAndExecutor',
    'exactly_lib.processing.processing_utils.AccessorFromParts',
    'exactly_lib.execution.full_execution.execution.execute',
)
REAL_K1_PROGRESS = REAL_K1 + (
    'exactly_lib.test_suite.reporters.simple_progress_reporter.SUCCESS_STATUSES',
    'exactly_lib.test_suite.reporters.simple_progress_reporter.SimpleProgressRootSuiteProcessingReporter',
    'exactly_lib.test_suite.reporters.simple_progress_reporter.SimpleProgressRootSuiteReporter',
    'exactly_lib.test_suite.reporters.simple_progress_reporter.SimpleProgressSubSuiteProgressReporter',
)
REAL_K1_JUNIT = REAL_K1_PROGRESS + (
    'exactly_lib.test_suite.reporters.junit.FAIL_STATUSES',
    'exactly_lib.test_suite.reporters.junit.ERROR_STATUSES',
    'exactly_lib.test_suite.reporters.junit.JUnitRootSuiteProcessingReporter',
    'exactly_lib.test_suite.reporters.junit.JUnitRootSuiteReporter',
)

STUB_PARTS = ('case processor = the real ProcessorFromAccessorAndExecutor around a stub source reader / preprocessor / '
              'parser / executor; the executor returns FullExeResults that the real full_execution.execute produced '
              'on stub instructions (vsym.exeharness)')

OUTSIDE_REPORT = ('timing fields, time stamps, host name', 'XML formatting beyond the counted attributes and the '
                                                           'testcase / failure / error elements',
                  'the summary the progress reporter writes to stderr', 'ANSI colours (output is not a terminal)')


# --------------------------------------------------------------------------- K1

def _kinds_pre(ks, n: int) -> bool:
    for i, k in enumerate(ks):
        if i < n:
            if not (0 <= k < L.N_KINDS):
                return False
        elif k != 0:
            return False
    return True


def _pre_k1(k0: int, k1: int, k2: int) -> bool:
    c = ob.case()
    n = L.n_cases_of(c['layout'])
    if not _kinds_pre((k0, k1, k2), n):
        return False
    if c['junit'] and ob.excluded(REGION_JUNIT_ACT_SYNTAX_ERROR):
        if any(k == L.K_ACT_SYNTAX_ERROR for k in (k0, k1, k2)[:n]):
            return False
    return True


def k1_progress(k0: int, k1: int, k2: int) -> bool:
    """
    pre: _pre_k1(k0, k1, k2)
    post: _
    """
    c = ob.case()
    layout = c['layout']
    n = L.n_cases_of(layout)
    kinds = [ob.concrete_int(k, 0, L.N_KINDS - 1) for k in (k0, k1, k2)[:n]]
    obs, exp = L.run_suites_executor(layout, kinds, False)
    ok = L.progress_ok(obs, L.expected_events_of(exp), kinds, bool(c.get('oracle_bug')))
    ok = ok and obs.processed == [L.FAKE_ROOT / cn for _s, cs, _r in exp for cn, _k in cs]
    return ob.post(ok)


def k1_junit(k0: int, k1: int, k2: int) -> bool:
    """
    pre: _pre_k1(k0, k1, k2)
    post: _
    """
    c = ob.case()
    layout = c['layout']
    n = L.n_cases_of(layout)
    kinds = [ob.concrete_int(k, 0, L.N_KINDS - 1) for k in (k0, k1, k2)[:n]]
    obs_p, _ = L.run_suites_executor(layout, kinds, False)
    obs_j, exp = L.run_suites_executor(layout, kinds, True)
    ok = L.junit_ok(obs_j, exp, bool(c.get('oracle_bug')))
    ok = ok and L.same_cases_listed(obs_p.out, obs_j)
    ok = ok and obs_j.processed == obs_p.processed
    return ob.post(ok)


_S = 'r.suite'
LAYOUTS_QUICK = [
    ('0', (_S, 0, ())),
    ('1', (_S, 1, ())),
    ('2', (_S, 2, ())),
    ('sub1+1', (_S, 1, (('a.suite', 1, ()),))),
    ('sub1,sub1+0', (_S, 0, (('a.suite', 1, ()), ('b.suite', 1, ())))),
]
LAYOUTS_THOROUGH = [
    ('3', (_S, 3, ())),
    ('sub2+1', (_S, 1, (('a.suite', 2, ()),))),
    ('sub1,sub1+1', (_S, 1, (('a.suite', 1, ()), ('b.suite', 1, ())))),
    ('sub(sub1+1)+1', (_S, 1, (('a.suite', 1, (('b.suite', 1, ()),)),))),
    ('sub0,sub2+0', (_S, 0, (('a.suite', 0, ()), ('b.suite', 2, ())))),
]


def _layout_text(layout) -> str:
    name, n, subs = layout
    s = '%s[%d case%s]' % (name, n, '' if n == 1 else 's')
    if subs:
        s += ' listing (' + ', '.join(_layout_text(x) for x in subs) + ')'
    return s


def _k1_obligations(tier: str) -> List[Ob]:
    obs = []
    layouts = list(LAYOUTS_QUICK) + (LAYOUTS_THOROUGH if tier == 'thorough' else [])
    for name, layout in layouts:
        n = L.n_cases_of(layout)
        t = {0: 60, 1: 90, 2: 300, 3: 2400}[n]
        for junit in (False, True):
            obs.append(Ob(
                name='K1:%s:%s' % ('junit' if junit else 'progress', name),
                fn='k1_junit' if junit else 'k1_progress',
                case=dict(layout=layout, junit=junit), kernel='K1',
                bound='hierarchy %s; every assignment of the 14 outcomes (%s) to its %d case(s); %s' % (
                    _layout_text(layout), ', '.join(L.KINDS), n,
                    'JUnit reporter compared with the progress reporter on the same run' if junit else 'progress reporter'),
                timeout=t * (2 if junit else 1), selector=True,
                real=REAL_K1_JUNIT if junit else REAL_K1_PROGRESS,
                stubs=(STUB_PARTS,), outside=OUTSIDE_REPORT,
                entry='SuitesExecutor.execute_and_report with RootSuiteProcessingReporter.execution_reporter',
            ))
    two = LAYOUTS_QUICK[3][1]
    obs.append(Ob(name='K1:progress:seeded-oracle-error', fn='k1_progress',
                  case=dict(layout=two, junit=False, oracle_bug=True), kernel='K1', expect=ob.REFUTE,
                  bound='seeded oracle error: XPASS taken for a successful outcome', timeout=300, selector=True,
                  real=REAL_K1_PROGRESS, stubs=(STUB_PARTS,)))
    obs.append(Ob(name='K1:junit:seeded-oracle-error', fn='k1_junit',
                  case=dict(layout=two, junit=True, oracle_bug=True), kernel='K1', expect=ob.REFUTE,
                  bound='seeded oracle error: XPASS taken for a successful outcome', timeout=600, selector=True,
                  real=REAL_K1_JUNIT, stubs=(STUB_PARTS,)))
    return obs


# --------------------------------------------------------------------------- obligations

def obligations(tier: str) -> List[Ob]:
    return _k1_obligations(tier)


ASSUMPTIONS = [
    'the outcomes of the cases are independent of the suite machinery: the case processor is a stub that returns, '
    'per case file, a result object produced by exactly_lib itself (real executor on stub instructions / real '
    'ProcessorFromAccessorAndExecutor on stub parts)',
]

OUTSIDE = [
    'timing fields, time stamps, host name; XML formatting beyond the counted attributes',
]
