"""C07-K9: the source lines of an instruction syntax error.

An instruction `f` that consumes a symbolic number of characters of the source and then reports an invalid argument
(as a real instruction parser does when it finds a mistake after having read tokens from several lines), preceded by
a symbolic indentation.  Observed: the source lines of the error report of the real processors._Parser.

Added in the fourth round of seeded changes: the defect repaired by 2ea3889 (the report lost the lines after the
first when the indentation was at least as long as the text consumed from them) was invisible to K3/K4/K6, whose
multi-line stub instruction `m` always fails at end of file."""
import pathlib

from harness import _C07_k4 as _k4

_STATE = {}
K9 = {'c': 0, 'end': None}

STUB = ('instruction `f` of [setup]: consumes min(c, remaining) characters of the source with ParseSource.consume and raises '
        'SingleInstructionInvalidArgumentException (c is the symbolic integer of the obligation)')


def parser():
    if 'parser' not in _STATE:
        from exactly_lib.common import instruction_name_and_argument_splitter
        from exactly_lib.common.instruction_setup import SingleInstructionSetup
        from exactly_lib.processing import processors
        from exactly_lib.processing.instruction_setup import TestCaseParsingSetup, InstructionsSetup
        from exactly_lib.processing.parse.act_phase_source_parser import ActPhaseParser
        from exactly_lib.section_document.element_parsers.instruction_parser_exceptions import \
            SingleInstructionInvalidArgumentException
        from exactly_lib.section_document.element_parsers.section_element_parsers import \
            InstructionParserWithoutSourceFileLocationInfo

        class Failing(InstructionParserWithoutSourceFileLocationInfo):
            def parse_from_source(self, source):
                n = K9['c']
                rem = len(source.remaining_source)
                if n > rem:
                    n = rem
                source.consume(n)
                K9['end'] = len(source.remaining_source)   # the remaining source is a suffix of the document
                raise SingleInstructionInvalidArgumentException('bad argument')

        f = {'f': SingleInstructionSetup(Failing(), None)}
        setup = TestCaseParsingSetup(instruction_name_and_argument_splitter.splitter,
                                     InstructionsSetup({}, f, {}, {}, {}), ActPhaseParser())
        _STATE['parser'] = processors._Parser(setup)
    return _STATE['parser']


def real_error(text: str):
    """-> (first line number, lines) of the syntax error of the real parser, or None if there is none"""
    d = _k4.write_files({})
    K9['end'] = None
    out = _k4.real_outcome(d, text, parser())
    if out[0] != 'syntax' or K9['end'] is None:
        return None
    K9['end'] = len(text) - K9['end']
    return out[1][0], out[1][1]


def report_is_right(text: str, start: int, end: int, first: int, lines, oracle_bug=None) -> bool:
    """start: offset of the instruction name in text; end: offset just after the last consumed character.
    The reported lines begin at the line of the instruction name, include every line from which a character other
    than white space was consumed, do not go beyond the last line touched, and carry the text of those lines (the
    first possibly without its indentation, the last possibly cut where the parser stopped)."""
    all_lines = text.split('\n')
    line_of = []                                   # offset -> index of the line
    for i, ln in enumerate(all_lines):
        line_of.extend([i] * (len(ln) + 1))
    l0 = line_of[start]
    if first != l0 + 1 or len(lines) < 1:
        return False
    must = l0
    for off in range(start, end):
        if not text[off].isspace():
            must = line_of[off]
    may = line_of[end - 1] if end > start else l0
    if oracle_bug == 'first-line-only':
        may = l0
    n = len(lines)
    if not (must - l0 + 1 <= n <= may - l0 + 1):
        return False
    for k in range(n):
        true = all_lines[l0 + k]
        rep = lines[k]
        if k == 0 and n == 1:
            ok = true.strip().startswith(rep.strip()) and rep.strip() != ''
        elif k == 0:
            ok = true.strip() == rep.strip()
        elif k == n - 1:
            ok = true.startswith(rep) or true.rstrip() == rep.rstrip()
        else:
            ok = true == rep
        if not ok:
            return False
    return True
