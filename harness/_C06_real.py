"""Real-side helpers of the C06 harness: the host types that use the expression grammar, the
REAL parsers of each, stub leaves (symbols bound to matchers / transformers of a class unknown
to exactly_lib) and resolution sdv -> ddv -> adv -> primitive by the repository's own code.

Nothing here models exactly_lib.
"""
from typing import Dict, List, Sequence

from exactly_lib.section_document.element_parsers.instruction_parser_exceptions import \
    SingleInstructionInvalidArgumentException
from exactly_lib.section_document.element_parsers.token_stream_parser import new_token_parser
from exactly_lib.symbol.sdv_structure import SymbolContainer
from exactly_lib.symbol.value_type import ValueType
from exactly_lib.type_val_prims.string_transformer import StringTransformer
from exactly_lib.util.description_tree import renderers
from exactly_lib.util.symbol_table import SymbolTable
from vsym import xly

MATCHER_HOSTS = ('integer', 'line', 'string', 'file', 'files')
TRANSFORMER_HOST = 'transformer'
ALL_HOSTS = MATCHER_HOSTS + (TRANSFORMER_HOST,)


def _module(host: str):
    if host == 'integer':
        from exactly_lib.impls.types.integer_matcher import parse_integer_matcher as m
    elif host == 'line':
        from exactly_lib.impls.types.line_matcher import parse_line_matcher as m
    elif host == 'string':
        from exactly_lib.impls.types.string_matcher import parse_string_matcher as m
    elif host == 'file':
        from exactly_lib.impls.types.file_matcher import parse_file_matcher as m
    elif host == 'files':
        from exactly_lib.impls.types.files_matcher import parse_files_matcher as m
    elif host == 'transformer':
        from exactly_lib.impls.types.string_transformer import parse_string_transformer as m
    else:
        raise ValueError(host)
    return m


VALUE_TYPE = {
    'integer': ValueType.INTEGER_MATCHER,
    'line': ValueType.LINE_MATCHER,
    'string': ValueType.STRING_MATCHER,
    'file': ValueType.FILE_MATCHER,
    'files': ValueType.FILES_MATCHER,
    'transformer': ValueType.STRING_TRANSFORMER,
}

PARSER_MODULE = {
    'integer': 'exactly_lib.impls.types.integer_matcher.parse_integer_matcher',
    'line': 'exactly_lib.impls.types.line_matcher.parse_line_matcher',
    'string': 'exactly_lib.impls.types.string_matcher.parse_string_matcher',
    'file': 'exactly_lib.impls.types.file_matcher.parse_file_matcher',
    'files': 'exactly_lib.impls.types.files_matcher.parse_files_matcher',
    'transformer': 'exactly_lib.impls.types.string_transformer.parse_string_transformer',
}


def real_parser(host: str, simple: bool, must_be_on_current_line: bool):
    """The repository's parser object of the host type: parsers(b).simple / .full"""
    ps = _module(host).parsers(must_be_on_current_line)
    return ps.simple if simple else ps.full


_PARSE_CACHE: Dict = {}


def real_parse(host: str, simple: bool, cur: bool, source: str):
    """Runs the REAL parser on `source`.
    -> ('ok', sdv, number of whitespace separated tokens left unconsumed, remaining source)
     | ('err', message)   iff SingleInstructionInvalidArgumentException (the syntax error of an instruction argument)
    Any other exception propagates (and so falsifies the obligation).
    Cached per concrete (host, simple, cur, source): the sdv is immutable."""
    key = (host, simple, cur, source)
    r = _PARSE_CACHE.get(key)
    if r is None:
        r = _real_parse(host, simple, cur, source)
        _PARSE_CACHE[key] = r
    return r


def _real_parse(host, simple, cur, source):
    p = real_parser(host, simple, cur)
    try:
        tp = new_token_parser(source)
        sdv = p.parse_from_token_parser(tp)
    except SingleInstructionInvalidArgumentException as e:
        return ('err', str(e.error_message))
    rest = tp.token_stream.remaining_source
    return ('ok', sdv, len(rest.split()), rest)


# --------------------------------------------------------------------------- the whole-text route: `def TYPE NAME = EXPR`

DEF_TYPE = {
    'integer': 'integer-matcher',
    'line': 'line-matcher',
    'string': 'text-matcher',
    'file': 'file-matcher',
    'files': 'files-matcher',
    'transformer': 'text-transformer',
}

_FS_LOCATION = []


def real_def_parse(host: str, source: str):
    """Runs the REAL parser of the symbol-definition instruction on `TYPE M = <source>` (the text that follows the
    instruction name `def`): the public route on which the WHOLE rest of the line must be an expression of the type.
    -> ('ok', sdv of the defined value, remaining source) | ('err', message)  iff the instruction's syntax error"""
    from exactly_lib.impls.instructions.multi_phase.define_symbol import parser as def_parser
    from exactly_lib.section_document.parse_source import ParseSource
    if not _FS_LOCATION:
        import pathlib
        from exactly_lib.section_document.source_location import FileSystemLocationInfo, FileLocationInfo
        _FS_LOCATION.append(FileSystemLocationInfo(FileLocationInfo(pathlib.Path('/'))))
    ps = ParseSource('%s M = %s' % (DEF_TYPE[host], source))
    try:
        embryo = def_parser.EmbryoParser().parse(_FS_LOCATION[0], ps)
    except SingleInstructionInvalidArgumentException as e:
        return ('err', str(e.error_message))
    return ('ok', embryo.symbol.symbol_container.sdv, ps.remaining_source)


# --------------------------------------------------------------------------- concrete stage

def concrete():
    """Context manager for computations on CONCRETE data only (rendering, the real parser on concrete text, the
    reference recogniser): CrossHair's tracing is suspended, the code runs natively.  Nothing symbolic may be
    touched inside.  Outside CrossHair (replay, self-test) it is a no-op."""
    import contextlib
    try:
        from crosshair.tracers import NoTracing
    except ImportError:
        return contextlib.nullcontext()
    return NoTracing()


def fingerprint(o, opaque=(), _stack=None):
    """Structural fingerprint of an object graph: type and complete instance state, recursively; functions,
    classes and anything without an instance dict by identity; a reference back to an object under
    construction by its position on the stack.  Two objects with equal fingerprints are indistinguishable by
    deterministic code (that does not look at id())."""
    import enum
    import types
    if o is None or isinstance(o, (bool, int, str, float, bytes)):
        return (type(o).__name__, o)
    if isinstance(o, enum.Enum):
        return ('enum', type(o).__module__, type(o).__qualname__, o.name)
    if isinstance(o, (type, types.BuiltinFunctionType, types.ModuleType)) or isinstance(o, opaque):
        return ('id', id(o))
    if isinstance(o, types.FunctionType) and not o.__closure__ and not o.__defaults__ and not o.__kwdefaults__ \
            and not getattr(o, '__dict__', None):
        # a plain function: the same code in the same globals is the same function (a lambda / local def that is
        # created anew on every parse has a new identity but not a new behaviour)
        return ('fn', id(o.__code__), id(o.__globals__))
    if _stack is None:
        _stack = []
    if id(o) in _stack:
        return ('back', len(_stack) - _stack.index(id(o)))
    if len(_stack) > 200:
        return ('id', id(o))
    _stack.append(id(o))
    try:
        if isinstance(o, (list, tuple)):
            return (type(o).__name__, tuple(fingerprint(x, opaque, _stack) for x in o))
        if isinstance(o, dict):
            return ('dict', tuple((fingerprint(k, opaque, _stack), fingerprint(v, opaque, _stack)) for k, v in o.items()))
        if isinstance(o, types.MethodType):
            return ('method', fingerprint(o.__func__, opaque, _stack), fingerprint(o.__self__, opaque, _stack))
        if isinstance(o, types.FunctionType):
            # behaviour = code + globals + closure cells + defaults + function attributes
            cells = []
            for c in (o.__closure__ or ()):
                try:
                    cells.append(fingerprint(c.cell_contents, opaque, _stack))
                except ValueError:
                    cells.append(('empty-cell',))
            return ('fn', id(o.__code__), id(o.__globals__), tuple(cells),
                    fingerprint(o.__defaults__, opaque, _stack), fingerprint(o.__kwdefaults__, opaque, _stack),
                    fingerprint(dict(getattr(o, '__dict__', None) or {}), opaque, _stack))
        d = getattr(o, '__dict__', None)
        if isinstance(d, dict):
            state = dict(d)
            for cls in type(o).__mro__:
                slots = cls.__dict__.get('__slots__', ())
                if isinstance(slots, str):
                    slots = (slots,)
                for name in slots:
                    if name not in ('__dict__', '__weakref__') and hasattr(o, name):
                        state['<slot>' + name] = getattr(o, name)
            return ('obj', type(o).__module__, type(o).__qualname__,
                    tuple((k, fingerprint(v, opaque, _stack)) for k, v in sorted(state.items())))
        return ('id', id(o))
    finally:
        _stack.pop()


def digest(o, opaque=()) -> str:
    import hashlib
    return hashlib.sha256(repr(fingerprint(o, opaque)).encode()).hexdigest()


# --------------------------------------------------------------------------- models

class FreezableModel:
    """Stands for the model handed to a text (string) matcher by its caller: the combinators of that
    type call model.freeze() before asking their operands.  The stub leaves do not look at the model."""

    def __init__(self):
        self.freezes = 0

    def freeze(self):
        self.freezes += 1


def model_for(host: str, x=0):
    if host == 'integer':
        return x
    if host == 'line':
        return (x, 'l')
    if host == 'string':
        return FreezableModel()
    return None  # file / files: opaque to the combinators and to the stub leaves


OPAQUE = ()


# --------------------------------------------------------------------------- stub leaves

def matcher_symbols(host: str, names: Sequence[str], values: Sequence, log: List[str]) -> SymbolTable:
    """names[i] is bound to a matcher (of a class unknown to exactly_lib) whose verdict is values[i]"""
    vt = VALUE_TYPE[host]
    d = {}
    for n, v in zip(names, values):
        d[n] = xly.matcher_symbol(xly.StubMatcher(n, _const(v), log), vt)
    return xly.symbol_table(d)


def _const(v):
    return lambda model: v


# Leaves whose verdicts are read from a table at the time they are asked: the resolved primitive then does not
# depend on the verdicts and is built once (natively) for all paths; the table is refilled on every path.
VERDICTS = {}
LOG: List[str] = []
_TABLE_SYMBOLS: Dict = {}
_PRIM_CACHE: Dict = {}


def _from_table(name):
    return lambda model: VERDICTS[name]


def table_symbols(host: str, names: Sequence[str]) -> SymbolTable:
    key = (host, tuple(names))
    if key not in _TABLE_SYMBOLS:
        vt = VALUE_TYPE[host]
        _TABLE_SYMBOLS[key] = xly.symbol_table({
            n: xly.matcher_symbol(xly.StubMatcher(n, _from_table(n), LOG), vt) for n in names})
    return _TABLE_SYMBOLS[key]


def table_primitive(host: str, names: Sequence[str], sdv):
    """The primitive of `sdv` (real resolution chain) with table-backed stub leaves; cached per sdv object.
    Call inside concrete()."""
    key = (host, tuple(names), id(sdv))
    r = _PRIM_CACHE.get(key)
    if r is None:
        r = (sdv, matcher_primitive(sdv, table_symbols(host, names)))
        _PRIM_CACHE[key] = r
    return r[1]


def matcher_primitive(sdv, symbols: SymbolTable):
    return sdv.resolve(symbols).value_of_any_dependency(None).primitive(None)


class StubTransformer(StringTransformer):
    """A transformer of a class unknown to exactly_lib.  The model is opaque to the `|` operator; here it is
    a tuple to which the transformer appends its tag.  A transformer that declares itself the identity
    returns its input (the contract of is_identity_transformer)."""

    def __init__(self, name: str, tag, is_identity):
        self._name = name
        self._tag = tag
        self._is_identity = is_identity

    @property
    def name(self) -> str:
        return self._name

    def structure(self):
        return renderers.header_only(self._name)

    @property
    def is_identity_transformer(self) -> bool:
        return bool(self._is_identity)

    def transform(self, model):
        if self._is_identity:
            return model
        return model + (self._tag,)


def transformer_symbols(names: Sequence[str], tags: Sequence, identities: Sequence) -> SymbolTable:
    from exactly_lib.impls.types.string_transformer import sdvs
    d = {}
    for n, t, i in zip(names, tags, identities):
        d[n] = SymbolContainer(sdvs.StringTransformerSdvConstant(StubTransformer(n, t, i)),
                               ValueType.STRING_TRANSFORMER, None)
    return xly.symbol_table(d)


def transformer_primitive(sdv, symbols: SymbolTable):
    return sdv.resolve(symbols).value_of_any_dependency(None).primitive(None)


# --------------------------------------------------------------------------- K3b: simple contexts of the text matcher

class _OneLine:
    def __init__(self, text: str):
        self._text = text

    @property
    def as_lines(self):
        import contextlib

        @contextlib.contextmanager
        def cm():
            yield iter([self._text + '\n'])

        return cm()


class TaggedText:
    """In-memory model of a text matcher: one line, `l` followed by one `T` per transformation applied.
    Offers what the text-matcher combinators (freeze), `-transformed-by` (nothing: the transformer gets the model)
    and the line quantifiers (contents().as_lines) use."""

    def __init__(self, tags=()):
        self.tags = tuple(tags)

    def freeze(self):
        pass

    def contents(self):
        return _OneLine('l' + 'T' * len(self.tags))


class TagTransformer(StringTransformer):
    """The transformer bound to the symbol T: a transformation of a class unknown to exactly_lib; appends its tag."""

    @property
    def name(self) -> str:
        return 'T'

    def structure(self):
        return renderers.header_only('T')

    def transform(self, model):
        return TaggedText(model.tags + ('T',))


CTX_VERDICTS: Dict = {}   # leaf -> (verdict on an untransformed model, verdict on a transformed model); refilled per path
CTX_LOG: List = []


class CtxStubMatcher(xly.MatcherWTrace):
    """A text matcher or line matcher of a class unknown to exactly_lib: logs (its name, the model it was asked
    about); its verdict may depend on whether the model has been transformed."""

    def __init__(self, name: str):
        self._name = name

    @property
    def name(self) -> str:
        return self._name

    def structure(self):
        return renderers.header_only(self._name)

    def matches_w_trace(self, model):
        if isinstance(model, tuple):
            text = model[1].rstrip('\n')
            seen = ('line', model[0], text)
            transformed = 'T' in text
        else:
            seen = ('text', model.tags)
            transformed = len(model.tags) > 0
        v = bool(CTX_VERDICTS[self._name][1 if transformed else 0])
        CTX_LOG.append((self._name, seen))
        return xly.MatchingResult(v, renderers.Constant(xly.tree.Node(self._name, v, (), ())))


_CTX_SYMBOLS = []
_CTX_PRIMS: Dict = {}


def ctx_symbols(text_names: Sequence[str], line_names: Sequence[str]) -> SymbolTable:
    if not _CTX_SYMBOLS:
        from exactly_lib.impls.types.string_transformer import sdvs
        d = {'T': SymbolContainer(sdvs.StringTransformerSdvConstant(TagTransformer()), ValueType.STRING_TRANSFORMER, None)}
        for n in text_names:
            d[n] = xly.matcher_symbol(CtxStubMatcher(n), ValueType.STRING_MATCHER)
        for n in line_names:
            d[n] = xly.matcher_symbol(CtxStubMatcher(n), ValueType.LINE_MATCHER)
        _CTX_SYMBOLS.append(xly.symbol_table(d))
    return _CTX_SYMBOLS[0]


def ctx_primitive(sdv, text_names, line_names):
    """Primitive of a text-matcher sdv (real resolution chain), leaves read CTX_VERDICTS when asked; cached per sdv.
    Call inside concrete()."""
    r = _CTX_PRIMS.get(id(sdv))
    if r is None:
        r = (sdv, matcher_primitive(sdv, ctx_symbols(text_names, line_names)))
        _CTX_PRIMS[id(sdv)] = r
    return r[1]
