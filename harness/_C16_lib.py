"""Helpers of harness/C16.py (suite run).  No model of exactly_lib lives here:

* the *case results* fed to the reporters are produced by exactly_lib's own machinery - the nine
  executed verdicts by the real `full_execution.execute` on stub instructions (vsym.exeharness), the
  access errors and the internal error by the real `ProcessorFromAccessorAndExecutor` /
  `AccessorFromParts` around a stub reader / preprocessor / parser / executor;
* suites are run through the real `SuitesExecutor` (K1) or the real `MainProgram.execute(['suite', ...])`
  (K2, K3);
* what IS written here independently of the implementation is the reference oracle: which kinds are
  successful, which identifier each kind is shown as, how a [suites] / [cases] line denotes files
  (plain name / glob pattern), which hierarchies are invalid and the order in which cases must run.
"""
import fnmatch
import io
import os
import pathlib
import re
from typing import Callable, Dict, List, Optional, Sequence, Tuple
from xml.etree import ElementTree as ET

from vsym import scratch

# ----------------------------------------------------------------------------- the verdict catalogue

KINDS = (
    'PASS', 'FAIL', 'XFAIL', 'XPASS', 'SKIPPED',  # 0-4   executed
    'VALIDATION_ERROR', 'HARD_ERROR', 'INTERNAL_ERROR',  # 5-7   executed
    'SYNTAX_ERROR',  # 8     executed: act-phase syntax error
    'FILE_ACCESS_ERROR', 'PRE_PROCESS_ERROR', 'ACCESS_SYNTAX_ERROR',  # 9-11  not executed (access errors); 9 = unreadable case
    'PROCESSOR_INTERNAL_ERROR',  # 12    executor raises -> Status.INTERNAL_ERROR
    'PROCESSOR_RAISES',  # 13    the case processor itself raises -> test_suite.processing._process_case
)
N_KINDS = len(KINDS)
K_ACT_SYNTAX_ERROR = 8

# reference oracle (property statement): the successful outcomes
SUCCESSFUL = (0, 2, 4)  # PASS, XFAIL, SKIPPED

# reference oracle (manual, "exit identifiers"): how each outcome is named in the progress output
IDENTIFIER = ('PASS', 'FAIL', 'XFAIL', 'XPASS', 'SKIPPED', 'VALIDATION_ERROR', 'HARD_ERROR', 'INTERNAL_ERROR',
              'SYNTAX_ERROR', 'FILE_ACCESS_ERROR', 'PRE_PROCESS_ERROR', 'SYNTAX_ERROR', 'INTERNAL_ERROR',
              'INTERNAL_ERROR')


def is_successful(kind: int, oracle_bug: bool = False) -> bool:
    if oracle_bug:
        # seeded oracle error: XPASS taken for a success
        return kind in (0, 2, 3, 4)
    return kind in SUCCESSFUL


_EXE_RESULTS: Dict[int, object] = {}


def _full_exe_result(kind: int):
    """FullExeResult of outcome `kind` (0..8), produced once per process by the REAL executor."""
    if kind not in _EXE_RESULTS:
        from vsym import exeharness as xh
        from exactly_lib.test_case.test_case_status import TestCaseStatus
        status = None
        faulty = None
        if kind == 1:
            faulty = (('assert', 'main', 0), xh.FAIL)
        elif kind == 2:
            status, faulty = TestCaseStatus.FAIL, (('assert', 'main', 0), xh.FAIL)
        elif kind == 3:
            status = TestCaseStatus.FAIL
        elif kind == 4:
            status = TestCaseStatus.SKIP
        elif kind == 5:
            faulty = (('setup', 'pre', 0), xh.VAL)
        elif kind == 6:
            faulty = (('setup', 'main', 0), xh.HARD)
        elif kind == 7:
            faulty = (('setup', 'main', 0), xh.EXC)
        elif kind == 8:
            faulty = (('act', 'parse', 0), xh.VAL)

        def kind_of(cell):
            if faulty is not None and cell == faulty[0]:
                return faulty[1]
            return xh.OK

        plan = xh.Plan(kind_of)
        run = xh.execute(plan, xh.stub_test_case(plan, (0, 1, 0, 1, 1), status))
        if run.exception is not None or run.result is None:
            raise RuntimeError('harness error: executor did not produce a result for kind %d: %r' % (kind, run.exception))
        if run.result.status.name != KINDS[kind]:
            raise RuntimeError('harness error: executor produced %s for kind %s' % (run.result.status, KINDS[kind]))
        _EXE_RESULTS[kind] = run.result
    return _EXE_RESULTS[kind]


class StubCaseError(RuntimeError):
    pass


_STUB_CLASSES = []


def _stub_classes():
    """The stub parts of the case processor (classes are created once per process)."""
    if _STUB_CLASSES:
        return _STUB_CLASSES[0]
    from exactly_lib.processing import processing_utils as pu
    from exactly_lib.processing import test_case_processing as tcp
    from exactly_lib.processing.test_case_handling_setup import TestCaseTransformer
    from exactly_lib.test_case import error_description

    def err(msg: str):
        return tcp.ProcessError(tcp.ErrorInfo(error_description.of_constant_message(msg)))

    class Reader(pu.SourceReader):
        def __init__(self, kind_of_path):
            self.kind_of_path = kind_of_path

        def apply(self, test_case_file_path):
            if self.kind_of_path(test_case_file_path) == 9:
                raise err('stub: case file cannot be read')
            return 'stub source'

    class Pre(tcp.Preprocessor):
        def __init__(self, kind_of_path):
            self.kind_of_path = kind_of_path

        def apply(self, test_case_file_path, test_case_source):
            if self.kind_of_path(test_case_file_path) == 10:
                raise err('stub: preprocessor failed')
            return test_case_source

    class Parser(pu.Parser):
        def __init__(self, kind_of_path):
            self.kind_of_path = kind_of_path

        def apply(self, test_case, test_case_plain_source):
            if self.kind_of_path(test_case.file_path) == 11:
                raise err('stub: syntax error in case file')
            return test_case

    class Identity(TestCaseTransformer):
        def transform(self, test_case):
            return test_case

    class Exe(pu.Executor):
        def __init__(self, kind_of_path):
            self.kind_of_path = kind_of_path

        def apply(self, test_case_file_path, test_case):
            k = self.kind_of_path(test_case_file_path)
            if k == 12:
                raise StubCaseError('stub: executor raises')
            return _full_exe_result(k)

    class P(tcp.Processor):
        def __init__(self, kind_of_path, log):
            self.kind_of_path = kind_of_path
            self.log = log
            self.inner = pu.ProcessorFromAccessorAndExecutor(
                pu.AccessorFromParts(Reader(kind_of_path), Pre(kind_of_path), Parser(kind_of_path), Identity()),
                Exe(kind_of_path))

        def apply(self, test_case):
            self.log.append(test_case.file_path)
            if self.kind_of_path(test_case.file_path) == 13:
                raise StubCaseError('stub: processor raises')
            return self.inner.apply(test_case)

    _STUB_CLASSES.append(P)
    return P


def new_kind_processor(kind_of_path: Callable[[pathlib.Path], int], log: List):
    """A case processor whose outcome for a case file is kind_of_path(file).  It is the REAL
    ProcessorFromAccessorAndExecutor around stub parts; every processed file is appended to `log`."""
    return _stub_classes()(kind_of_path, log)


# ----------------------------------------------------------------------------- the clock

class _Clock:
    """Environment stub: CrossHair makes time.time() symbolic, and with it datetime.now(); durations and time
    stamps are outside the claim, so the suite machinery gets a deterministic clock (1 ms per reading)."""
    n = 0


import datetime as _real_datetime

# built at import time (outside symbolic tracing): genuine C datetime objects
_TICKS = [_real_datetime.datetime(2020, 1, 2, 3, 4, 5) + _real_datetime.timedelta(milliseconds=i) for i in range(4096)]


def _now():
    if _Clock.n < len(_TICKS) - 1:
        _Clock.n += 1
    return _TICKS[_Clock.n]


class _DatetimeClassStub:
    now = staticmethod(_now)
    today = staticmethod(_now)


class _DatetimeModuleStub:
    datetime = _DatetimeClassStub
    timedelta = _real_datetime.timedelta


_CLOCK_MODULES = ('exactly_lib.test_suite.processing', 'exactly_lib.test_suite.reporting',
                  'exactly_lib.test_suite.reporters.simple_progress_reporter', 'exactly_lib.test_suite.reporters.junit',
                  'exactly_lib.cli_default.program_modes.test_suite')


def _path_hash(self):
    # same value for equal paths as pathlib's own __hash__ (POSIX flavour: equality of the normalised parts <=>
    # equality of str()), but computed without calling the builtin hash() from traced Python code
    try:
        return self._hash
    except AttributeError:
        self._hash = str.__hash__(str(self))
        return self._hash


def install_clock():
    """Installs the environment stubs needed under CrossHair: the deterministic clock and a PurePath.__hash__
    that does not go through the builtin hash() (CrossHair 0.0.110 short-circuits hash(tuple(...)) inside
    pathlib into a symbolic int with probability 0.3, which the C dict code rejects with TypeError)."""
    import importlib
    _Clock.n = 0
    if pathlib.PurePath.__hash__ is not _path_hash:
        pathlib.PurePath.__hash__ = _path_hash
    for m in _CLOCK_MODULES:
        mod = importlib.import_module(m)
        if mod.datetime is not _DatetimeModuleStub:
            mod.datetime = _DatetimeModuleStub


# ----------------------------------------------------------------------------- observations

class Observed:
    def __init__(self, exit_code, out: str, err: str, processed: List, constructed: int):
        self.exit_code = exit_code
        self.out = out
        self.err = err
        self.processed = processed  # file paths handed to the case processor, in order
        self.constructed = constructed  # number of case processors constructed (one per suite run)

    def __repr__(self):
        return 'Observed(exit=%r, out=%r, err=%r, processed=%r)' % (self.exit_code, self.out, self.err, self.processed)


_CASE_LINE = re.compile(r'^case  (.*): \(\d+\.\d+s\) (\w+)$')
_SUITE_LINE = re.compile(r'^suite (.*): (begin|end)$')


def parse_progress(text: str):
    """-> (events, trailing lines).  events: ('begin', suite) | ('end', suite) | ('case', name, identifier).
    A line that is none of these ends the event list; the rest is returned as it is."""
    events = []
    lines = text.split('\n')
    if lines and lines[-1] == '':
        lines = lines[:-1]
    i = 0
    while i < len(lines):
        m = _CASE_LINE.match(lines[i])
        if m:
            events.append(('case', m.group(1), m.group(2)))
        else:
            m = _SUITE_LINE.match(lines[i])
            if not m:
                break
            events.append((m.group(2), m.group(1)))
        i += 1
    return events, lines[i:]


def parse_junit(text: str):
    """-> list of suites; suite = dict(name, tests, failures, errors, cases=[(name, n_failure, n_error)])"""
    root = ET.fromstring(text)
    if root.tag == 'testsuite':
        suites = [root]
    elif root.tag == 'testsuites':
        suites = list(root)
        if any(s.tag != 'testsuite' for s in suites):
            raise ValueError('unexpected child of testsuites')
    else:
        raise ValueError('unexpected root element ' + root.tag)
    ret = []
    for s in suites:
        cases = []
        for c in s.findall('testcase'):
            cases.append((c.get('name'), len(c.findall('failure')), len(c.findall('error'))))
        ret.append(dict(name=s.get('name'), package=s.get('package'), tests=int(s.get('tests')),
                        failures=int(s.get('failures')), errors=int(s.get('errors')), cases=cases))
    return ret


# ----------------------------------------------------------------------------- oracles on the reports

def norm_name(name: str) -> str:
    """a presented file name with `x/..` and `.` components removed (names are compared as files, not as spellings)"""
    import posixpath
    return posixpath.normpath(name) if name else name


def _norm_event(e: tuple, canon=norm_name) -> tuple:
    return (e[0], canon(e[1])) + tuple(e[2:])


def canon_rel_to(root_dir: str):
    """-> function that maps a file name presented relative to root_dir (possibly spelled through `..`) to its
    normalised form relative to root_dir"""
    import posixpath

    def canon(name: str) -> str:
        if not name or name.startswith('/'):
            return name
        full = posixpath.normpath(posixpath.join('/R', root_dir, name))
        return posixpath.relpath(full, posixpath.join('/R', root_dir))

    return canon


def progress_ok(obs: Observed, expected_events: Sequence[tuple], kinds_in_order: Sequence[int],
                oracle_bug: bool = False, canon=norm_name) -> bool:
    """progress reporter, valid suite: the events on stdout are the expected ones (suites in order, every
    case once, each with the identifier of its outcome); the last line and the exit code are OK/0 iff
    every outcome is successful, else ERROR/4."""
    events, rest = parse_progress(obs.out)
    if [_norm_event(e, canon) for e in events] != list(expected_events):
        return False
    all_ok = all(is_successful(k, oracle_bug) for k in kinds_in_order)
    if all_ok:
        return rest == ['OK'] and obs.exit_code == 0
    return rest == ['ERROR'] and obs.exit_code == 4


def junit_ok(obs: Observed, expected_suites: Sequence[Tuple[str, Sequence[Tuple[str, int]]]],
             oracle_bug: bool = False, canon=norm_name) -> bool:
    """JUnit reporter, valid suite.  expected_suites: [(suite name, [(case name, kind), ...], is the root suite)] in
    processing order (a root suite without cases may be left out of a multi-suite report).
    tests = number of cases, failures + errors = number of unsuccessful ones, every unsuccessful case has a
    failure or error child and no successful one has; same cases, same order."""
    try:
        suites = parse_junit(obs.out)
    except Exception:  # noqa
        return False
    exp = [s for s in expected_suites]
    if len(suites) != len(exp):
        # the root suite may be omitted iff it has no cases and there is more than one suite
        exp = [s for s in exp if not (s[2] and not s[1])] if len(exp) > 1 else exp
        if len(suites) != len(exp):
            return False
    for got, (name, cases, _is_root) in zip(suites, exp):
        if [canon(c[0]) for c in got['cases']] != [c[0] for c in cases]:
            return False
        if got['tests'] != len(cases):
            return False
        n_bad = 0
        for (cname, nf, ne), (_, kind) in zip(got['cases'], cases):
            if is_successful(kind, oracle_bug):
                if nf + ne != 0:
                    return False
            else:
                n_bad += 1
                if nf + ne < 1:
                    return False
        if got['failures'] + got['errors'] != n_bad:
            return False
    return True


# ----------------------------------------------------------------------------- K1: SuitesExecutor on built hierarchies

# layout: (suite file name, number of cases, (sub layouts...))
FAKE_ROOT = pathlib.Path('/vsym-c16-nonexisting')


def n_cases_of(layout) -> int:
    return layout[1] + sum(n_cases_of(s) for s in layout[2])


def build_hierarchy(layout, counter: List[int], inclusions=()):
    """-> (TestSuiteHierarchy, expected suites [(rel name, [(case rel name, index)], is_root)] in processing order)"""
    from exactly_lib.test_suite import structure
    from exactly_lib.processing.test_case_processing import test_case_reference_of_source_file
    name, n, subs = layout
    path = FAKE_ROOT / name
    sub_objs = []
    expected = []
    for s in subs:
        h, e = build_hierarchy(s, counter, tuple(inclusions) + (path,))
        sub_objs.append(h)
        expected += e
    cases = []
    mine = []
    stem = name.rsplit('.', 1)[0]
    for i in range(n):
        cname = '%s-%d.case' % (stem, i)
        cases.append(test_case_reference_of_source_file(FAKE_ROOT / cname))
        mine.append((cname, counter[0]))
        counter[0] += 1
    expected.append((name, mine, len(inclusions) == 0))
    return structure.TestSuiteHierarchy(path, list(inclusions), None, sub_objs, cases), expected


def _new_reporter(junit: bool):
    from exactly_lib.test_suite.reporters import junit as junit_mod, simple_progress_reporter as spr
    return junit_mod.JUnitRootSuiteProcessingReporter() if junit else spr.SimpleProgressRootSuiteProcessingReporter()


def run_suites_executor(layout, kinds: Sequence[int], junit: bool):
    """Runs the REAL SuitesExecutor / DepthFirstEnumerator / reporter on a hierarchy built from `layout`;
    case number i (processing order) ends with outcome kinds[i]."""
    from exactly_lib.common.process_result_reporter import Environment
    from exactly_lib.processing import processors
    from exactly_lib.test_suite import enumeration, processing
    from exactly_lib.util.file_utils.std import StdOutputFiles
    install_clock()
    root, expected = build_hierarchy(layout, [0])
    kind_by_path = {}
    for _, cases, _r in expected:
        for cname, idx in cases:
            kind_by_path[FAKE_ROOT / cname] = kinds[idx]
    log = []
    n_constructed = [0]

    def constructor(configuration):
        n_constructed[0] += 1
        return new_kind_processor(lambda p: kind_by_path[p], log)

    out, err = io.StringIO(), io.StringIO()
    env = Environment.new_plain(StdOutputFiles(out, err))
    default_conf = processors.Configuration(None, None, None, 2 ** 10, False, None)
    root_path = FAKE_ROOT / layout[0]
    reporter = _new_reporter(junit).execution_reporter(root, env, root_path)
    executor = processing.SuitesExecutor(reporter, default_conf, constructor)
    exit_code = executor.execute_and_report(enumeration.DepthFirstEnumerator().apply(root))
    obs = Observed(exit_code, out.getvalue(), err.getvalue(), log, n_constructed[0])
    expected_k = [(name, [(c, kinds[i]) for c, i in cases], is_root) for name, cases, is_root in expected]
    return obs, expected_k


def expected_events_of(expected_suites) -> List[tuple]:
    ev = []
    for name, cases, _r in expected_suites:
        ev.append(('begin', name))
        for cname, kind in cases:
            ev.append(('case', cname, IDENTIFIER[kind]))
        ev.append(('end', name))
    return ev


# ----------------------------------------------------------------------------- K2/K3: suites on disk, whole program

# In the text of a generated suite file: stands for the absolute path of the directory the fixture is written to (known
# at run time only) - `@ABS@/d/x.case` is an ABSOLUTE reference line
ABS_MARK = '@ABS@'


class Tree:
    """An abstract directory tree: rel path (posix, no leading slash) -> None for a directory, str for a file."""

    def __init__(self, entries: Dict[str, Optional[str]]):
        self.entries = dict(entries)
        for p in list(self.entries):
            parts = p.split('/')
            for i in range(1, len(parts)):
                self.entries.setdefault('/'.join(parts[:i]), None)

    def is_file(self, p: str) -> bool:
        return isinstance(self.entries.get(p), (str, bytes))

    def is_dir(self, p: str) -> bool:
        return p == '' or (p in self.entries and self.entries[p] is None)

    def exists(self, p: str) -> bool:
        return p == '' or p in self.entries

    def children(self, d: str) -> List[str]:
        pre = d + '/' if d else ''
        return sorted(p[len(pre):] for p in self.entries if p.startswith(pre) and '/' not in p[len(pre):] and p != d)

    def write(self, root: str):
        for p, c in sorted(self.entries.items()):
            ap = os.path.join(root, p)
            if c is None:
                os.makedirs(ap, exist_ok=True)
            else:
                os.makedirs(os.path.dirname(ap), exist_ok=True)
                if isinstance(c, str) and ABS_MARK in c:
                    # an absolute reference: the absolute path of the directory the fixture is written to
                    c = c.replace(ABS_MARK, root)
                with open(ap, 'wb' if isinstance(c, bytes) else 'w') as f:
                    f.write(c)


def suite_text(suites: Sequence[str], cases: Sequence[str], extra: str = '') -> str:
    ls = []
    if suites:
        ls.append('[suites]')
        ls += list(suites)
    if cases:
        ls.append('[cases]')
        ls += list(cases)
    return '\n'.join(ls) + '\n' + extra


class Invalid(Exception):
    pass


def _norm(p: str) -> str:
    out = []
    for part in p.split('/'):
        if part in ('', '.'):
            continue
        if part == '..':
            if not out:
                raise Invalid('escapes the fixture')
            out.pop()
        else:
            out.append(part)
    return '/'.join(out)


def _glob(tree: Tree, base: str, pattern: str) -> List[str]:
    """Reference glob (documented shell-style semantics; fnmatch per path component; `**` = this directory
    and all sub directories).  Returns normalised rel paths, unsorted duplicates removed."""
    comps = [c for c in pattern.split('/') if c != '']
    found = [base]
    for i, c in enumerate(comps):
        nxt = []
        for d in found:
            if not tree.is_dir(d):
                continue
            if c == '**':
                stack = [d]
                while stack:
                    x = stack.pop()
                    nxt.append(x)
                    for ch in tree.children(x):
                        p = (x + '/' + ch) if x else ch
                        if tree.is_dir(p):
                            stack.append(p)
            else:
                for ch in tree.children(d):
                    if fnmatch.fnmatchcase(ch, c):
                        nxt.append((d + '/' + ch) if d else ch)
        found = nxt
    seen = []
    for p in found:
        if p not in seen:
            seen.append(p)
    return seen


_WILD = ('*', '?', '[')


def denoted_files(tree: Tree, suite_dir: str, line: str, for_suites: bool) -> List[str]:
    """Reference semantics of one line of a [suites] / [cases] section (manual: "Each line consists of a single
    file name glob pattern", relative to the location of the suite file; a quoted name is taken literally).
    A name that starts with ABS_MARK is an absolute path: it denotes the same files wherever the suite file is.
    -> list of rel paths in the order they are to be processed; raises Invalid."""
    text = line.strip()
    if text.startswith('['):
        # a line that starts with `[` is a section header, whatever follows; none of the lines generated here is a
        # valid one
        raise Invalid('section header syntax')
    # the line is ONE token: either quoted as a whole ('...' or "...", taken literally) or free of white space and
    # quote characters; anything after the token but white space is a superfluous argument
    if text[0] in '\'"':
        end = text.find(text[0], 1)
        if end == -1:
            raise Invalid('missing end quote')
        quoted, name, rest = True, text[1:end], text[end + 1:]
        if rest and not rest[0].isspace():
            raise ValueError('harness: line form outside the reference semantics: ' + line)
    else:
        parts = text.split(None, 1)
        quoted, name, rest = False, parts[0], (parts[1] if len(parts) > 1 else '')
        if '\'' in name or '"' in name:
            raise ValueError('harness: line form outside the reference semantics: ' + line)
    if rest.strip():
        raise Invalid('superfluous argument')
    if name.startswith(ABS_MARK):
        # an absolute path: not relative to the location of the suite file
        if name[len(ABS_MARK):len(ABS_MARK) + 1] != '/':
            raise ValueError('harness: line form outside the reference semantics: ' + line)
        name = name[len(ABS_MARK) + 1:]
        suite_dir = ''
    if quoted or not any(w in name for w in _WILD):
        cands = [_norm((suite_dir + '/' + name) if suite_dir else name)]
        if not tree.exists(cands[0]):
            raise Invalid('does not exist')
    else:
        cands = sorted(_glob(tree, suite_dir, name), key=lambda p: tuple(p.split('/')))
    out = []
    for p in cands:
        if tree.is_file(p):
            out.append(p)
        elif for_suites and tree.is_dir(p) and tree.is_file(p + '/exactly.suite'):
            out.append(p + '/exactly.suite')
        else:
            raise Invalid('not a regular file' + (' / dir w default suite' if for_suites else ''))
    return out


class SuiteSpec:
    def __init__(self, suites: Sequence[str] = (), cases: Sequence[str] = (), broken: Optional[str] = None,
                 conf: str = ''):
        self.suites = tuple(suites)
        self.cases = tuple(cases)
        self.broken = broken  # text appended that is a syntax error in a suite file
        self.conf = conf  # valid text put before the [suites] / [cases] sections (a [conf] section)

    def text(self):
        if isinstance(self.broken, bytes):
            # a suite file that is not text (not valid UTF-8)
            return (self.conf + suite_text(self.suites, self.cases, '')).encode('utf-8') + self.broken
        return self.conf + suite_text(self.suites, self.cases, self.broken or '')


def expected_run(tree: Tree, specs: Dict[str, SuiteSpec], root: str):
    """Reference oracle for a hierarchy.  -> None if the hierarchy is invalid, else the list of
    (suite rel path, [case rel paths]) in the order in which they must be processed (sub-suites first, listing
    order, glob matches sorted).  A suite file reached twice (incl. the root, incl. cycles), a reference to a
    file that does not exist / is of the wrong type, and a syntax error make the hierarchy invalid."""
    seen = {root}
    order = []

    def visit(s: str):
        spec = specs.get(s)
        if spec is None:
            # a file that is not one of the generated suite files: treated as an empty suite iff it has no
            # content we would have to interpret
            if tree.entries.get(s, None) == '':
                order.append((s, []))
                return
            raise Invalid('harness: no spec for ' + s)
        if spec.broken:
            raise Invalid('syntax error')
        d = s.rsplit('/', 1)[0] if '/' in s else ''
        subs = []
        for line in spec.suites:
            for p in denoted_files(tree, d, line, True):
                if p in seen:
                    raise Invalid('double inclusion')
                seen.add(p)
                subs.append(p)
        cases = []
        for line in spec.cases:
            cases += denoted_files(tree, d, line, False)
        for p in subs:
            visit(p)
        order.append((s, cases))

    try:
        visit(root)
    except Invalid:
        return None
    return order


def has_case_listed_twice(order) -> bool:
    """some suite lists the same case file more than once (by two lines of its [cases] section)"""
    if order is None:
        return False
    for _s, cases in order:
        if len(set(cases)) != len(cases):
            return True
    return False


# The statement says "processes each listed test case exactly once".  Read literally, a case file that one suite
# names on two lines of its [cases] section (`1.case` and `*.case`) must still be processed once; exactly processes
# it once per line.  True: the literal reading is the oracle (region `case-listed-twice` of harness/C16.py holds the
# inputs on which exactly differs).  False: one processing per listing line is expected.
LITERAL_ONCE_EACH = False  # decided: a case named by two lines of one [cases] section is listed twice; one processing per listing
# is what the statement's "each listed test case exactly once" demands (the literal-once reading asked for more than it states)


def once_each(order):
    """The property read literally: "each listed test case exactly once" - a case that a suite lists more than
    once is processed once, at its first position."""
    if order is None:
        return None
    if not LITERAL_ONCE_EACH:
        return order
    out = []
    for s, cases in order:
        seen = []
        for c in cases:
            if c not in seen:
                seen.append(c)
        out.append((s, seen))
    return out


class _TempfileStub:
    """Environment stub for exactly_lib.processing.preprocessor.tempfile: anonymous temporary files with
    counter-based names (CrossHair makes `random`, and with it the names tempfile chooses, symbolic)."""
    n = 0

    @staticmethod
    def TemporaryFile(prefix: str = 'tmp', mode: str = 'w+b', **kw):
        _TempfileStub.n += 1
        path = os.path.join(scratch.root(), '%s%d' % (prefix, _TempfileStub.n))
        f = open(path, mode)
        os.unlink(path)
        return f


_MAIN_PROGRAM = []


def main_program():
    """The default MainProgram of exactly (built once per process; it is immutable)."""
    if not _MAIN_PROGRAM:
        from exactly_lib.cli_default import default_main_program_setup as dmps
        _MAIN_PROGRAM.append(dmps.default_main_program())
    return _MAIN_PROGRAM[0]


class _GlobOrder:
    """Environment stub: pathlib's glob yields its matches in an unspecified order.  While installed,
    Path.glob yields the real matches rotated by `rot` and, if `rev`, reversed (all 6 orders of <= 3 matches)."""

    def __init__(self, rot: int, rev: bool):
        self.rot, self.rev = rot, rev
        self._orig = None

    def __enter__(self):
        orig = pathlib.Path.glob
        self._orig = orig
        rot, rev = self.rot, self.rev

        def glob(self_path, pattern, *a, **k):
            ms = sorted(orig(self_path, pattern, *a, **k))
            if ms:
                r = rot % len(ms)
                ms = ms[r:] + ms[:r]
            if rev:
                ms.reverse()
            return iter(ms)

        pathlib.Path.glob = glob
        return self

    def __exit__(self, *exc):
        pathlib.Path.glob = self._orig
        return False


def _new_work_dir() -> str:
    """scratch.new_dir, tolerant of a stale directory of the same name (left by a killed worker whose pid this process
    got: the scratch root is named after the pid and its counter restarts at 1)"""
    for _ in range(1000):
        try:
            return scratch.new_dir('suite')
        except FileExistsError:
            continue
    raise RuntimeError('harness error: no free scratch directory')


def run_main_program_on_suite(tree: Tree, root: str, junit: bool, kind_of_rel: Optional[Callable[[str], int]],
                              glob_rot: int = 0, glob_rev: bool = False, via_dir_arg: bool = False) -> Observed:
    """Writes `tree` into a fresh scratch directory and runs the REAL MainProgram.execute(['suite', ...]).
    With kind_of_rel the case processor constructor is replaced by the recording stub processor (outcome of the
    case with rel path p = kind_of_rel(p)); with None the real case processor runs the case files."""
    from exactly_lib.processing import processors, preprocessor
    from exactly_lib.execution import sandbox_dir_resolving
    from exactly_lib.util.file_utils.std import StdOutputFiles
    install_clock()
    real_tempfile = preprocessor.tempfile
    work = _new_work_dir()
    work_real = os.path.realpath(work)
    tree.write(work)
    log = []
    n_constructed = [0]
    real_constructor = processors.new_processor_that_should_not_pollute_current_process
    real_mk_tmp = sandbox_dir_resolving.mk_tmp_dir_with_prefix

    def rel_of(p: pathlib.Path) -> str:
        ap = os.path.realpath(str(p))
        return os.path.relpath(ap, work_real).replace(os.sep, '/')

    def constructor(configuration):
        n_constructed[0] += 1
        if kind_of_rel is None:
            inner = real_constructor(configuration)
            from exactly_lib.processing import test_case_processing as tcp

            class Rec(tcp.Processor):
                def apply(self, test_case):
                    log.append(test_case.file_path)
                    return inner.apply(test_case)

            return Rec()
        return new_kind_processor(lambda p: kind_of_rel(rel_of(p)), log)

    sds_n = [0]

    def mk_tmp_dir_with_prefix(prefix: str):
        def ret_val() -> str:
            sds_n[0] += 1
            d = os.path.join(work, '.sandboxes', 'sds-%d' % sds_n[0])
            os.makedirs(d)
            return d

        return ret_val

    out, err = io.StringIO(), io.StringIO()
    arg = os.path.join(work, root)
    if via_dir_arg:
        arg = os.path.dirname(arg)
    argv = ['suite'] + (['--reporter', 'junit'] if junit else []) + [arg]
    cwd = os.getcwd()
    processors.new_processor_that_should_not_pollute_current_process = constructor
    sandbox_dir_resolving.mk_tmp_dir_with_prefix = mk_tmp_dir_with_prefix
    preprocessor.tempfile = _TempfileStub
    try:
        with _GlobOrder(glob_rot, glob_rev):
            try:
                exit_code = main_program().execute(argv, StdOutputFiles(out, err))
            except Exception as e:  # noqa  an escaping exception is an observation (what the user sees: a traceback)
                exit_code = 'EXCEPTION %s: %s' % (type(e).__name__, e)
    finally:
        processors.new_processor_that_should_not_pollute_current_process = real_constructor
        sandbox_dir_resolving.mk_tmp_dir_with_prefix = real_mk_tmp
        preprocessor.tempfile = real_tempfile
        try:
            os.chdir(cwd)
        except OSError:
            pass
    processed = [rel_of(p) for p in log]
    text_out = out.getvalue().replace(work_real + os.sep, '').replace(work + os.sep, '')
    text_err = err.getvalue().replace(work_real + os.sep, '').replace(work + os.sep, '')
    scratch.remove(work)
    return Observed(exit_code, text_out, text_err, processed, n_constructed[0])


def hierarchy_ok(obs: Observed, order, root: str, junit: bool, kind_of_rel: Callable[[str], int],
                 oracle_bug: bool = False) -> bool:
    """The whole oracle of K2 for one run.  `order` is expected_run(...)."""
    if order is None:
        # INVALID_SUITE, exit 3, nothing processed
        if obs.exit_code != 3 or obs.processed or obs.constructed:
            return False
        if junit:
            # the identifier is the progress reporter's; the statement says nothing about the JUnit reporter's stdout
            return True
        return obs.out == 'INVALID_SUITE\n'
    if oracle_bug:
        # seeded oracle error: the listing suite before its sub-suites
        order = list(reversed(order))
    exp_processed = [c for _s, cases in order for c in cases]
    if obs.processed != exp_processed:
        return False
    if obs.constructed != len(order):
        return False
    root_dir = root.rsplit('/', 1)[0] if '/' in root else ''

    def pres(p: str) -> str:
        # files are presented relative to the directory of the root suite
        import posixpath
        return posixpath.relpath(posixpath.join('/R', p), posixpath.join('/R', root_dir))

    exp_suites = [(pres(s), [(pres(c), kind_of_rel(c)) for c in cases], s == root) for s, cases in order]
    canon = canon_rel_to(root_dir)
    if junit:
        # (the exit code of a valid run under the JUnit reporter is not part of the statement)
        ev, rest = parse_progress(obs.err)
        if [_norm_event(e, canon) for e in ev] != expected_events_of(exp_suites) or rest:
            return False
        return junit_ok(obs, exp_suites, canon=canon)
    return progress_ok(obs, expected_events_of(exp_suites), [k for _n, cs, _r in exp_suites for _c, k in cs],
                       canon=canon)
