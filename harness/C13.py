"""C13  Line selection by `filter` is exact: the read-ahead optimisation loses no line.

Kernels (DESIGN.md section 4, C13):
  K1  interval soundness: for expression trees parsed by the REAL line-matcher parser, every
      line number the matcher accepts lies in interval_of_matcher(matcher).  Shape, negation
      placement and connectives are concrete per obligation; comparison operators (index into
      the six), right operands (Z), verdicts of unknown-class matchers, constants and the
      line number (>= 1) are symbolic.
  K2  reading by interval yields exactly the lines whose number lies in the interval.
  K3  end to end through the real `filter` transformer object on an in-memory text.
  K4  `filter -line-nums`: ranges with symbolic bounds (Z), N lines.
"""
import itertools
from typing import List, Tuple

from vsym import ob
from vsym.ob import Ob

PROPERTY = 'C13'

OPS = ['==', '!=', '<', '<=', '>', '>=']

REAL_K1 = (
    'exactly_lib.impls.types.interval.matcher_interval._IntervalComputer',
    'exactly_lib.impls.types.interval.matcher_interval._NegationEvaluator',
    'exactly_lib.impls.types.interval.matcher_interval.interval_of__w_inversion',
    'exactly_lib.util.interval.w_inversion.combinations.union',
    'exactly_lib.util.interval.w_inversion.combinations.intersection',
    'exactly_lib.util.interval.w_inversion.combinations._of',
    'exactly_lib.util.interval.w_inversion.intervals',
    'exactly_lib.impls.types.condition.comparators',
    'exactly_lib.impls.types.matcher.impls.comparison_matcher.IntComparisonMatcher',
    'exactly_lib.impls.types.matcher.impls.comparison_matcher.ComparisonMatcher.matches_w_trace',
    'exactly_lib.impls.types.matcher.property_matcher.PropertyMatcherWithIntInterval',
    'exactly_lib.impls.types.matcher.impls.combinator_matchers.Negation',
    'exactly_lib.impls.types.matcher.impls.combinator_matchers.Conjunction',
    'exactly_lib.impls.types.matcher.impls.combinator_matchers.Disjunction',
    'exactly_lib.impls.types.line_matcher.impl.line_number._get_int_interval_of_int_matcher',
    'exactly_lib.impls.types.line_matcher.impl.line_number.parse_line_number',
    'exactly_lib.impls.types.line_matcher.line_nums_interval.interval_of_matcher',
    'exactly_lib.impls.types.line_matcher.model_construction.adapt_to_line_num_range',
    'exactly_lib.impls.types.line_matcher.parse_line_matcher.parsers',
    'exactly_lib.impls.types.expression.parser._Parser',
)

STUB_INT = 'python_evaluate -> placeholder table (integer literal K_i denotes the symbolic integer k_i)'
STUB_UNKNOWN = 'line matchers of a class unknown to exactly_lib, bound to symbols U0/U1, verdict = symbolic bool'


# --------------------------------------------------------------------------- trees
# integer-matcher level:  ('c', i) | ('!', t) | ('&', t, t, ...) | ('|', t, t, ...)
# line-matcher level:     ('n', int-tree) | ('u', j) | ('k', j) | ('!', t) | ('&', ...) | ('|', ...) | ('p', t)

def render_int(t, ops, simple: bool) -> str:
    k = t[0]
    if k == 'c':
        return '%s K%d' % (OPS[ops[t[1]]], t[1])
    if k == '!':
        return '! ' + render_int(t[1], ops, True)
    sep = ' && ' if k == '&' else ' || '
    s = sep.join(render_int(x, ops, True) for x in t[1:])
    return '( ' + s + ' )' if simple else s


def render_line(t, ops, consts, simple: bool) -> str:
    k = t[0]
    if k == 'n':
        return 'line-num ' + render_int(t[1], ops, True)
    if k == 'u':
        return 'U%d' % t[1]
    if k == 'k':
        return 'constant ' + ('true' if consts[t[1]] else 'false')
    if k == 'p':
        return '( ' + render_line(t[1], ops, consts, False) + ' )'
    if k == '!':
        return '! ' + render_line(t[1], ops, consts, True)
    sep = ' && ' if k == '&' else ' || '
    s = sep.join(render_line(x, ops, consts, True) for x in t[1:])
    return '( ' + s + ' )' if simple else s


def leaves(t, kind) -> List[int]:
    if t[0] == kind:
        return [t[1]]
    if t[0] in ('c', 'u', 'k'):
        return []
    out = []
    for x in t[1:]:
        out += leaves(x, kind)
    return out


def n_of(t, kind) -> int:
    ls = leaves(t, kind)
    return (max(ls) + 1) if ls else 0


# --------------------------------------------------------------------------- real objects

def _line_matcher(text: str, u0: bool, u1: bool):
    from vsym import xly
    from exactly_lib.impls.types.line_matcher import parse_line_matcher
    from exactly_lib.symbol.value_type import ValueType
    log = []
    syms = xly.symbol_table({
        'U0': xly.matcher_symbol(xly.StubMatcher('U0', lambda m: u0, log), ValueType.LINE_MATCHER),
        'U1': xly.matcher_symbol(xly.StubMatcher('U1', lambda m: u1, log), ValueType.LINE_MATCHER),
    })
    sdv = xly.parse_cached('line-matcher', parse_line_matcher.parsers(False).full, text)
    return xly.primitive_of_matcher_sdv(sdv, syms)


def in_interval(iv, x: int) -> bool:
    if iv.is_empty:
        return False
    lo = iv.lower
    if lo is not None and x < lo:
        return False
    up = iv.upper
    if up is not None and x > up:
        return False
    return True


# --------------------------------------------------------------------------- K1

def _pre_k1(o0, o1, o2, k0, k1, k2, u0, u1, c0, x) -> bool:
    tree = ob.case()['tree']
    nc = n_of(tree, 'c')
    os_ = (o0, o1, o2)
    ks = (k0, k1, k2)
    for i in range(3):
        if i < nc:
            if not (0 <= os_[i] <= 5):
                return False
        elif os_[i] != 0 or ks[i] != 0:
            return False
    nu = n_of(tree, 'u')
    if nu < 1 and u0:
        return False
    if nu < 2 and u1:
        return False
    if n_of(tree, 'k') < 1 and c0:
        return False
    if ob.case().get('oracle_bug'):
        return x >= 1
    return x >= 1


def k1_interval(o0: int, o1: int, o2: int, k0: int, k1: int, k2: int,
                u0: bool, u1: bool, c0: bool, x: int) -> bool:
    """
    pre: _pre_k1(o0, o1, o2, k0, k1, k2, u0, u1, c0, x)
    post: _
    """
    from vsym import xly
    from exactly_lib.impls.types.line_matcher import line_nums_interval
    tree = ob.case()['tree']
    ops = [int(o0), int(o1), int(o2)]
    text = render_line(tree, ops, [bool(c0)], False)
    xly.install_int_placeholders([k0, k1, k2])
    m = _line_matcher(text, u0, u1)
    iv = line_nums_interval.interval_of_matcher(m)
    accepted = m.matches_w_trace((x, 'l')).value
    if ob.case().get('oracle_bug'):
        # seeded oracle error (vacuity guard): demands the interval to be exact, which the
        # analysis does not promise -> must be refuted
        return ob.post(accepted == in_interval(iv, x))
    return ob.post((not accepted) or in_interval(iv, x))


def _int_trees(n_leaves: int):
    """integer-level trees with exactly n_leaves comparison leaves numbered left to right"""

    def build(lo, n):
        if n == 1:
            yield ('c', lo)
            yield ('!', ('c', lo))
            return
        # binary splits
        for nl in range(1, n):
            for l in build(lo, nl):
                for r in build(lo + nl, n - nl):
                    for op in '&|':
                        yield (op, l, r)
                        yield ('!', (op, l, r))
        if n == 3:
            for a in build(lo, 1):
                for b in build(lo + 1, 1):
                    for c in build(lo + 2, 1):
                        for op in '&|':
                            yield (op, a, b, c)
                            yield ('!', (op, a, b, c))

    return list(build(0, n_leaves))


def _k1_cases(tier):
    cases = []
    quick = (tier == 'quick')
    # (a) line-num of an integer expression, and its negation at the line level
    for n in (1, 2):
        for it in _int_trees(n):
            if quick and n == 2:
                # quick tier: the 2-leaf trees whose two leaves carry the same negation (half of them)
                body = it[1] if it[0] == '!' else it
                if (body[1][0] == '!') != (body[2][0] == '!'):
                    continue
            cases.append(('n', it))
            cases.append(('!', ('n', it)))
    # (b) line-level combinations of line-num comparisons, unknown-class matchers and constants
    L = [('n', ('c', 0)), ('!', ('n', ('c', 0)))]
    R = [('n', ('c', 1)), ('!', ('n', ('c', 1))), ('u', 0), ('!', ('u', 0)), ('k', 0)]
    for l in L:
        for r in R:
            for op in '&|':
                if quick and not (r[0] in ('u', 'k') or (l[0] == '!' and r[0] == '!')):
                    continue
                cases.append((op, l, r))
                cases.append(('!', (op, l, r)))
    for r in R[2:]:
        for op in '&|':
            cases.append((op, r, ('n', ('c', 0))))
    cases.append(('!', ('!', ('n', ('c', 0)))))
    cases.append(('p', ('n', ('|', ('c', 0), ('c', 1)))))
    cases.append(('!', ('p', ('!', ('n', ('|', ('c', 0), ('c', 1)))))))
    cases.append(('&', ('u', 0), ('u', 1)))
    cases.append(('|', ('u', 0), ('!', ('u', 1))))
    if tier == 'thorough':
        for it in _int_trees(3):
            # 3-leaf integer trees: the flat 3-ary ones, and the nested ones that mix && and || with uniformly
            # negated / non-negated leaves (the full set of 288 costs ~2 h on 16 cores for little extra)
            body = it[1] if it[0] == '!' else it
            if len(body) == 4:
                # flat: uniformly negated / non-negated leaves, and the ones with exactly the middle leaf negated
                negs_ = tuple(x[0] == '!' for x in body[1:])
                keep = negs_ in ((False, False, False), (False, True, False))
            else:
                inner = [x for x in body[1:] if x[0] in '&|' or (x[0] == '!' and x[1][0] in '&|')]
                inner_body = inner[0][1] if inner[0][0] == '!' else inner[0]
                leaves_ = [x for x in body[1:] if x is not inner[0]] + list(inner_body[1:])
                negs = {x[0] == '!' for x in leaves_}
                # nested: && and || mixed, leaves uniformly negated / non-negated; the all-negated ones only with a
                # non-negated inner operand (the whole run of all 128 kept by the earlier rule cost 27 cpu-hours on a
                # loaded machine and found nothing the others did not)
                # (round 4: the all-negated nested ones dropped as well - the thorough tier of C13 had grown to ~10 cpu-hours;
                # negated leaves under && / || are covered by the 2-leaf obligations and the flat middle-negated ones)
                keep = (inner_body[0] != body[0]) and negs == {False}
            if not keep:
                continue
            # of the four placements of an outer negation, ln(E) and !ln!(E) (the latter inverts at both levels); the 2-leaf
            # obligations have all four
            if it[0] == '!':
                cases.append(('!', ('n', it)))
            else:
                cases.append(('n', it))
        # nested line level, depth 3
        A = [('n', ('c', 0)), ('!', ('n', ('c', 0))), ('u', 0)]
        B = [('n', ('c', 1)), ('!', ('n', ('c', 1)))]
        C = [('!', ('n', ('c', 2))), ('u', 1)]
        for a_ in A:
            for b_ in B:
                for c_ in C:
                    if c_[0] == '!' and a_[0] != 'u' and (a_[0] == '!') == (b_[0] == '!'):
                        # three line-num matchers at the line level cost ~30 cpu-minutes each: only the four
                        # combinations in which the first two differ in negation
                        continue
                    for op1, op2 in (('&', '|'), ('|', '&')):
                        cases.append((op1, a_, (op2, b_, c_)))
                        cases.append(('!', (op1, (op2, a_, b_), c_)))
    # de-duplicate, stable
    seen = set()
    out = []
    for c in cases:
        if c not in seen:
            seen.add(c)
            out.append(c)
    return out


# --------------------------------------------------------------------------- shared: transformer application

class _NoFiles:
    """A DirFileSpace that must never be asked for a path: texts here are small enough to stay in the memory
    buffer (mem_buff_size 2**20), so nothing may touch the file system."""

    def new_path(self, name_suffix=None):
        raise AssertionError('harness: unexpected use of the tmp file space')

    def new_path_as_existing_dir(self, name_suffix=None):
        raise AssertionError('harness: unexpected use of the tmp file space')

    def sub_dir_space(self, name_suffix=None):
        return self


LINES = ('l1\n', 'l2\n', 'l3\n', 'l4\n', 'l5\n', 'l6\n')


def _text(n: int, last_unterminated: bool) -> str:
    t = ''.join(LINES[:n])
    if last_unterminated and n > 0:
        t = t[:-1]
    return t


def _apply_transformer(text_of_transformer: str, symbols, model_text: str, cache: bool = True):
    """Parses a string-transformer with the REAL parser, resolves it and applies it to an in-memory text.
    Returns the list of output lines."""
    from vsym import xly
    from exactly_lib.impls.types.string_source import constant_str
    from exactly_lib.impls.types.string_transformer import parse_string_transformer
    from exactly_lib.test_case.app_env import ApplicationEnvironment
    if cache:
        sdv = xly.parse_cached('string-transformer', parse_string_transformer.parsers(False).full, text_of_transformer)
    else:
        # the -line-nums SDV memoises its evaluated ranges: a fresh parse per evaluation
        from exactly_lib.section_document.element_parsers.token_stream_parser import new_token_parser
        sdv = parse_string_transformer.parsers(False).full.parse_from_token_parser(new_token_parser(text_of_transformer))
    ddv = sdv.resolve(symbols)
    err = ddv.validator.validate_pre_sds_if_applicable(None)
    if err is not None:
        raise ValueError('harness: unexpected validation error')
    space = _NoFiles()
    tr = ddv.value_of_any_dependency(None).primitive(ApplicationEnvironment(None, None, space, 2 ** 20))
    if isinstance(model_text, tuple):
        # ONE transformer object applied to several texts in turn (as `every file : contents -transformed-by T ...` does)
        outs = []
        for mt in model_text:
            result = tr.transform(constant_str.string_source(mt, space))
            with result.contents().as_lines as lines:
                outs.append(list(lines))
        return outs
    model = constant_str.string_source(model_text, space)
    result = tr.transform(model)
    with result.contents().as_lines as lines:
        return list(lines)


def _install_ints(ks):
    from vsym import xly
    from exactly_lib.impls.types.integer import validation as int_validation
    xly.install_int_placeholders(ks)
    int_validation.python_evaluate = xly._python_evaluate_stub


# --------------------------------------------------------------------------- K2

def _pre_k2(lo: int, up: int) -> bool:
    kind = ob.case()['kind']
    if kind in ('upper', 'unlimited', 'empty') and lo != 0:
        return False
    if kind in ('lower', 'unlimited', 'empty') and up != 0:
        return False
    if kind == 'finite' and lo > up:
        return False  # IntInterval contract: lower <= upper
    # intervals handed to the reader are adapted to the line-number range (all limits >= 1)
    if kind in ('lower', 'finite') and lo < 1:
        return False
    if kind in ('upper', 'finite') and up < 1:
        return False
    return True


def k2_read_by_interval(lo: int, up: int) -> bool:
    """
    pre: _pre_k2(lo, up)
    post: _
    """
    from exactly_lib.impls.types.line_matcher import model_construction
    from exactly_lib.util.interval import int_interval
    case = ob.case()
    kind, n = case['kind'], case['n']
    iv = {'empty': int_interval.Empty, 'unlimited': int_interval.unlimited,
          'lower': lambda: int_interval.lower_limit(lo), 'upper': lambda: int_interval.upper_limit(up),
          'finite': lambda: int_interval.finite(lo, up)}[kind]()
    lines = list(LINES[:n])
    got = list(model_construction.original_and_model_iter_from_file_line_iter__interval(iv, iter(lines)))
    exp = []
    for i in range(n):
        num = i + 1
        inside = (kind != 'empty') and (kind in ('upper', 'unlimited') or num >= lo) and (
                kind in ('lower', 'unlimited') or num <= up)
        if case.get('oracle_bug') and kind in ('upper', 'finite') and num == up:
            inside = False
        if inside:
            exp.append((lines[i], (num, lines[i].rstrip('\n'))))
    return ob.post(got == exp)


# --------------------------------------------------------------------------- K3

def _pre_k3(o0, o1, k0, k1, u1, u2, u3, u4) -> bool:
    case = ob.case()
    tree, n = case['tree'], case['n']
    nc = n_of(tree, 'c')
    if not (0 <= o0 <= 5) or (nc < 2 and (o1 != 0 or k1 != 0)) or not (0 <= o1 <= 5):
        return False
    if nc < 1 and (o0 != 0 or k0 != 0):
        return False
    us = (u1, u2, u3, u4)
    if n_of(tree, 'u') == 0 and (u1 or u2 or u3 or u4):
        return False
    for i in range(n, 4):
        if us[i]:
            return False
    return True


def k3_filter_end_to_end(o0: int, o1: int, k0: int, k1: int, u1: bool, u2: bool, u3: bool, u4: bool) -> bool:
    """
    pre: _pre_k3(o0, o1, k0, k1, u1, u2, u3, u4)
    post: _
    """
    from vsym import xly
    from exactly_lib.symbol.value_type import ValueType
    case = ob.case()
    tree, n = case['tree'], case['n']
    ops = [ob.concrete_int(o0, 0, 5), ob.concrete_int(o1, 0, 5), 0]
    us = (u1, u2, u3, u4)
    log = []
    # the unknown-class matcher U0 has one arbitrary verdict per line
    syms = xly.symbol_table({
        'U0': xly.matcher_symbol(xly.StubMatcher('U0', lambda m: us[m[0] - 1], log), ValueType.LINE_MATCHER),
    })
    _install_ints([k0, k1, 0])
    expr = render_line(tree, ops, [True], True)
    text = _text(n, case.get('unterminated', False))
    out = _apply_transformer('filter ' + expr, syms, text)
    # reference: the same expression evaluated line by line by the real matcher on (number, contents)
    m = _line_matcher(render_line(tree, ops, [True], False), False, False) if False else None
    from exactly_lib.impls.types.line_matcher import parse_line_matcher
    msdv = xly.parse_cached('line-matcher', parse_line_matcher.parsers(False).full, render_line(tree, ops, [True], False))
    matcher = xly.primitive_of_matcher_sdv(msdv, syms)
    src_lines = text.split('\n')
    full = [l + '\n' for l in src_lines[:-1]] + ([src_lines[-1]] if src_lines[-1] != '' else [])
    exp = [l for i, l in enumerate(full) if matcher.matches_w_trace((i + 1, l.rstrip('\n'))).value]
    if case.get('oracle_bug'):
        exp = exp[1:]
    return ob.post(out == exp)


# --------------------------------------------------------------------------- K4

RANGE_KINDS = ('single', 'lower', 'upper', 'both')


def _range_text(kind: str, i: int) -> str:
    a, b = 'K%d' % (2 * i), 'K%d' % (2 * i + 1)
    return {'single': a, 'lower': a + ':', 'upper': ':' + b, 'both': a + ':' + b}[kind]


def _tr(x: int, n: int) -> int:
    """negative numbers count from the end: -1 is the last line"""
    return x if x >= 0 else n + 1 + x


def _in_range(kind: str, a: int, b: int, num: int, n: int) -> bool:
    if kind == 'single':
        return num == _tr(a, n)
    if kind == 'lower':
        return num >= _tr(a, n)
    if kind == 'upper':
        return num <= _tr(b, n)
    return _tr(a, n) <= num <= _tr(b, n)


def _pre_k4(a0, b0, a1, b1, a2, b2) -> bool:
    kinds = ob.case()['kinds']
    n = ob.case()['n']
    vals = ((a0, b0), (a1, b1), (a2, b2))
    for i in range(3):
        a, b = vals[i]
        if i >= len(kinds):
            if a != 0 or b != 0:
                return False
            continue
        k = kinds[i]
        if k in ('single', 'lower') and b != 0:
            return False
        if k == 'upper' and a != 0:
            return False
        # all of Z is covered by the window [-n-3, n+3]: every bound beyond it behaves as the window's edge does
        # (checked separately by the K4:far obligations with unbounded integers on fewer ranges)
        if ob.case().get('window') and not (-n - 3 <= a <= n + 3 and -n - 3 <= b <= n + 3):
            return False
    return True


def k4_line_nums(a0: int, b0: int, a1: int, b1: int, a2: int, b2: int) -> bool:
    """
    pre: _pre_k4(a0, b0, a1, b1, a2, b2)
    post: _
    """
    from vsym import xly
    case = ob.case()
    kinds, n = case['kinds'], case['n']
    _install_ints([a0, b0, a1, b1, a2, b2])
    expr = 'filter -line-nums ' + ' '.join(_range_text(k, i) for i, k in enumerate(kinds))
    vals = ((a0, b0), (a1, b1), (a2, b2))

    def expected(text: str, n_lines: int):
        src_lines = text.split('\n')
        full = [l + '\n' for l in src_lines[:-1]] + ([src_lines[-1]] if src_lines[-1] != '' else [])
        exp = []
        for i, l in enumerate(full):
            num = i + 1
            keep = False
            for j, k in enumerate(kinds):
                if _in_range(k, vals[j][0], vals[j][1], num, n_lines):
                    keep = True
            if case.get('oracle_bug') and num == n_lines:
                keep = not keep
            if keep:
                exp.append(l)
        return exp

    if case.get('then'):
        # the same transformer object on a text of n lines, then on texts of other lengths, then on n lines again
        ns = (n,) + tuple(case['then']) + (n,)
        texts = tuple(_text(m, False) for m in ns)
        outs = _apply_transformer(expr, xly.symbol_table({}), texts, cache=False)
        ok = True
        for m, text, out in zip(ns, texts, outs):
            ok = ok and out == expected(text, m)
        return ob.post(ok)
    text = _text(n, case.get('unterminated', False))
    out = _apply_transformer(expr, xly.symbol_table({}), text, cache=False)
    return ob.post(out == expected(text, n))


def _tree_name(t) -> str:
    return render_line(t, [0, 0, 0], [True], False).replace('== ', '').replace('line-num', 'ln').replace(' ', '')


def obligations(tier: str) -> List[Ob]:
    obs = []
    for t in _k1_cases(tier):
        nc = n_of(t, 'c')
        obs.append(Ob(
            name='K1:' + _tree_name(t), fn='k1_interval', case=dict(tree=t), kernel='K1',
            bound='expression `%s`: every comparison operator in {==,!=,<,<=,>,>=}, every K_i in Z, '
                  'every verdict of U_j, every line number x >= 1' % render_line(t, ['OP'] * 3 and [0, 0, 0], [True], False).replace('==', 'OP'),
            timeout=(150 if nc <= 1 else 600 if nc == 2 else 2400),
            real=REAL_K1, stubs=(STUB_INT, STUB_UNKNOWN),
            entry='parse_line_matcher.parsers().full -> interval_of_matcher',
        ))
    obs.append(Ob(name='K1:seeded-oracle-error', fn='k1_interval',
                  case=dict(tree=('n', ('c', 0)), oracle_bug=True), kernel='K1',
                  bound='seeded oracle error: demands interval == accepted set', timeout=120,
                  expect=ob.REFUTE, real=REAL_K1))
    # ---- K2
    real_k2 = ('exactly_lib.impls.types.line_matcher.model_construction.original_and_model_iter_from_file_line_iter__interval',
               'exactly_lib.impls.types.line_matcher.model_construction._lines_interval',
               'exactly_lib.impls.types.line_matcher.model_construction.original_and_model_iter_from_file_line_iter')
    for n in ((0, 1, 3) if tier == 'quick' else (0, 1, 2, 3, 4, 5, 6)):
        for kind in ('empty', 'unlimited', 'lower', 'upper', 'finite'):
            obs.append(Ob(name='K2:%s:N%d' % (kind, n), fn='k2_read_by_interval', case=dict(kind=kind, n=n), kernel='K2',
                          bound='%s interval with every limit in Z (>= 1: adapted to the line-number range), text of %d lines' % (kind, n),
                          timeout=300, real=real_k2))
    obs.append(Ob(name='K2:seeded-oracle-error', fn='k2_read_by_interval', case=dict(kind='finite', n=3, oracle_bug=True),
                  kernel='K2', bound='seeded: upper limit exclusive', timeout=120, expect=ob.REFUTE))
    # ---- K3
    real_k3 = REAL_K1 + (
        'exactly_lib.impls.types.string_transformer.impl.filter.line_matcher._FilterByLineMatcher.transform',
        'exactly_lib.impls.types.string_transformer.impl.filter.line_matcher._ContentsViaAsLines',
        'exactly_lib.impls.types.string_transformer.impl.filter.string_sources.TransformedContentsViaAsLinesBase',
        'exactly_lib.impls.types.string_transformer.parse_string_transformer.parsers',
        'exactly_lib.impls.types.line_matcher.model_construction.original_and_model_iter_from_file_line_iter__interval',
    )
    k3_trees = [('n', ('c', 0)), ('!', ('n', ('c', 0))), ('!', ('n', ('|', ('c', 0), ('c', 1)))),
                ('!', ('n', ('!', ('|', ('c', 0), ('c', 1))))), ('&', ('n', ('c', 0)), ('u', 0)),
                ('|', ('!', ('n', ('c', 0))), ('u', 0)), ('n', ('&', ('c', 0), ('!', ('c', 1))))]
    if tier == 'thorough':
        k3_trees += [('n', ('|', ('c', 0), ('c', 1))), ('!', ('n', ('&', ('c', 0), ('c', 1)))),
                     ('!', ('&', ('n', ('c', 0)), ('u', 0))), ('|', ('n', ('c', 0)), ('n', ('c', 1))),
                     ('&', ('!', ('n', ('c', 0))), ('!', ('n', ('c', 1)))), ('u', 0), ('!', ('u', 0))]
    for t in k3_trees:
        for n, unt in (((2, False), (3, True)) if tier == 'quick' else ((0, False), (1, False), (2, False), (3, True), (4, False))):
            nc = n_of(t, 'c')
            obs.append(Ob(name='K3:%s:N%d%s' % (_tree_name(t), n, 'u' if unt else ''), fn='k3_filter_end_to_end',
                          case=dict(tree=t, n=n, unterminated=unt), kernel='K3',
                          bound='`filter %s` on a text of %d lines%s: every comparison operator, every K_i in Z, every verdict '
                                'of U0 per line' % (render_line(t, [0, 0, 0], [True], True).replace('==', 'OP'), n,
                                                    ' (last line unterminated)' if unt else ''),
                          timeout=(300 if nc <= 1 else 1500), real=real_k3, stubs=(STUB_INT, STUB_UNKNOWN),
                          entry='parse_string_transformer.parsers().full -> transform(in-memory text).as_lines'))
    obs.append(Ob(name='K3:seeded-oracle-error', fn='k3_filter_end_to_end',
                  case=dict(tree=('n', ('c', 0)), n=2, oracle_bug=True), kernel='K3', bound='seeded: oracle drops a line',
                  timeout=120, expect=ob.REFUTE))
    # ---- K4
    real_k4 = (
        'exactly_lib.impls.types.string_transformer.impl.filter.line_nums.range_merge',
        'exactly_lib.impls.types.string_transformer.impl.filter.line_nums.transformers.SingleLineRangeTransformer',
        'exactly_lib.impls.types.string_transformer.impl.filter.line_nums.transformers.MultipleLineRangesTransformer',
        'exactly_lib.impls.types.string_transformer.impl.filter.line_nums.transformers._SingleRangeSourceConstructor',
        'exactly_lib.impls.types.string_transformer.impl.filter.line_nums.sources',
        'exactly_lib.impls.types.string_transformer.impl.filter.line_nums.resolvers._RangeParser',
        'exactly_lib.impls.types.string_transformer.impl.filter.parse',
    )
    import itertools
    k4_cases = []
    if tier == 'quick':
        for k in RANGE_KINDS:
            for n in (0, 1, 2, 3, 4, 5):
                k4_cases.append(((k,), n, n == 3, False))
        # every ordered pair of range forms (round 4 of the seeded changes: C13-r4m2 needs `X LOWER:` with X ending at LOWER-1;
        # until then only 4 of the 16 pairs were in the quick tier)
        for ks in itertools.product(RANGE_KINDS, repeat=2):
            k4_cases.append((ks, 2 if ks == ('both', 'both') else 3, False, True))
            if 'both' not in ks:
                k4_cases.append((ks, 4, False, True))
        for ks in (('single', 'single', 'lower'), ('upper', 'single', 'lower'), ('single', 'single', 'single')):
            k4_cases.append((ks, 3, False, True))
    else:
        for k in RANGE_KINDS:
            for n in (0, 1, 2, 3, 4, 5):
                k4_cases.append(((k,), n, n == 3, False))
        for ks in itertools.product(RANGE_KINDS, repeat=2):
            for n in (0, 2, 3, 4):
                k4_cases.append((ks, n, False, True))
        for ks in (('single', 'both', 'lower'), ('both', 'upper', 'single'), ('both', 'both', 'lower'), ('single', 'single', 'single')):
            k4_cases.append((ks, 3, False, True))
    # one transformer object applied to texts of several lengths in turn
    reapply = [(('both', 'single'), 3, (4,)), (('lower', 'upper'), 2, (4,)), (('single',), 2, (3,)), (('both',), 3, (1, 4))]
    if tier != 'quick':
        reapply += [(ks, 3, (4, 1)) for ks in itertools.product(RANGE_KINDS, repeat=2) if ks not in (('both', 'single'), ('lower', 'upper'))]
    for ks, n, then in reapply:
        obs.append(Ob(name='K4:reapply:%s:N%d-%s' % ('+'.join(ks), n, '-'.join(map(str, then))), fn='k4_line_nums',
                      case=dict(kinds=ks, n=n, then=then, window=True), kernel='K4',
                      bound='ONE `filter -line-nums` transformer with ranges of forms %s, every bound in [-N-3, N+3] (N = %d), applied '
                            'in turn to texts of %s lines' % (list(ks), n, list((n,) + then + (n,))),
                      timeout=2400, real=real_k4, stubs=(STUB_INT,),
                      entry='parse_string_transformer.parsers().full -> ONE primitive -> transform(text_i).as_lines for each text',
                      outside=('bounds outside [-N-3, N+3]',)))
    for ks, n, unt, window in k4_cases:
        obs.append(Ob(name='K4:%s:N%d%s' % ('+'.join(ks), n, 'u' if unt else ''), fn='k4_line_nums',
                      case=dict(kinds=ks, n=n, unterminated=unt, window=window), kernel='K4',
                      bound='`filter -line-nums` with ranges of forms %s, every bound in %s, text of %d lines' % (
                          list(ks), ('[-N-3, N+3]' if window else 'Z'), n),
                      timeout=(400 if len(ks) == 1 else 2400), real=real_k4, stubs=(STUB_INT,),
                      entry='parse_string_transformer.parsers().full -> transform(in-memory text).as_lines',
                      outside=(('bounds outside [-N-3, N+3] for lists of >= 2 ranges',) if window else ())))
    obs.append(Ob(name='K4:seeded-oracle-error', fn='k4_line_nums',
                  case=dict(kinds=('both',), n=2, oracle_bug=True), kernel='K4', bound='seeded: oracle flips the last line',
                  timeout=120, expect=ob.REFUTE))
    return obs


ASSUMPTIONS = [
    'integer literals are evaluated by a stub of python_evaluate that maps the placeholder names K0.. to symbolic integers '
    '(contract: an integer literal denotes its integer); eval itself is a C boundary',
    'matchers of unknown class are stub LineMatchers bound to symbols; their verdict is an arbitrary boolean',
]

OUTSIDE = [
    'texts longer than the stated number of lines (loops are linear in N; no induction over N)',
    'the file / spool layer below the transformer (C14)',
]
