"""C13  Line selection by `filter` is exact: the read-ahead optimisation loses no line.

Kernels (DESIGN.md section 4, C13):
  K1  interval soundness: for expression trees parsed by the REAL line-matcher parser, every
      line number the matcher accepts lies in interval_of_matcher(matcher).  Shape, negation
      placement and connectives are concrete per obligation; comparison operators (index into
      the six), right operands (Z), verdicts of unknown-class matchers, constants and the
      line number (>= 1) are symbolic.
  K2  reading by interval yields exactly the lines whose number lies in the interval.
  K3  end to end through the real `filter` transformer object on an in-memory text.
  K4  `filter -line-nums`: ranges with symbolic bounds (Z), N lines.
"""
import itertools
from typing import List, Tuple

from vsym import ob
from vsym.ob import Ob

PROPERTY = 'C13'

OPS = ['==', '!=', '<', '<=', '>', '>=']

REAL_K1 = (
    'exactly_lib.impls.types.interval.matcher_interval._IntervalComputer',
    'exactly_lib.impls.types.interval.matcher_interval._NegationEvaluator',
    'exactly_lib.impls.types.interval.matcher_interval.interval_of__w_inversion',
    'exactly_lib.util.interval.w_inversion.combinations.union',
    'exactly_lib.util.interval.w_inversion.combinations.intersection',
    'exactly_lib.util.interval.w_inversion.combinations._of',
    'exactly_lib.util.interval.w_inversion.intervals',
    'exactly_lib.impls.types.condition.comparators',
    'exactly_lib.impls.types.matcher.impls.comparison_matcher.IntComparisonMatcher',
    'exactly_lib.impls.types.matcher.impls.comparison_matcher.ComparisonMatcher.matches_w_trace',
    'exactly_lib.impls.types.matcher.property_matcher.PropertyMatcherWithIntInterval',
    'exactly_lib.impls.types.matcher.impls.combinator_matchers.Negation',
    'exactly_lib.impls.types.matcher.impls.combinator_matchers.Conjunction',
    'exactly_lib.impls.types.matcher.impls.combinator_matchers.Disjunction',
    'exactly_lib.impls.types.line_matcher.impl.line_number._get_int_interval_of_int_matcher',
    'exactly_lib.impls.types.line_matcher.impl.line_number.parse_line_number',
    'exactly_lib.impls.types.line_matcher.line_nums_interval.interval_of_matcher',
    'exactly_lib.impls.types.line_matcher.model_construction.adapt_to_line_num_range',
    'exactly_lib.impls.types.line_matcher.parse_line_matcher.parsers',
    'exactly_lib.impls.types.expression.parser._Parser',
)

STUB_INT = 'python_evaluate -> placeholder table (integer literal K_i denotes the symbolic integer k_i)'
STUB_UNKNOWN = 'line matchers of a class unknown to exactly_lib, bound to symbols U0/U1, verdict = symbolic bool'


# --------------------------------------------------------------------------- trees
# integer-matcher level:  ('c', i) | ('!', t) | ('&', t, t, ...) | ('|', t, t, ...)
# line-matcher level:     ('n', int-tree) | ('u', j) | ('k', j) | ('!', t) | ('&', ...) | ('|', ...) | ('p', t)

def render_int(t, ops, simple: bool) -> str:
    k = t[0]
    if k == 'c':
        return '%s K%d' % (OPS[ops[t[1]]], t[1])
    if k == '!':
        return '! ' + render_int(t[1], ops, True)
    sep = ' && ' if k == '&' else ' || '
    s = sep.join(render_int(x, ops, True) for x in t[1:])
    return '( ' + s + ' )' if simple else s


def render_line(t, ops, consts, simple: bool) -> str:
    k = t[0]
    if k == 'n':
        return 'line-num ' + render_int(t[1], ops, True)
    if k == 'u':
        return 'U%d' % t[1]
    if k == 'k':
        return 'constant ' + ('true' if consts[t[1]] else 'false')
    if k == 'p':
        return '( ' + render_line(t[1], ops, consts, False) + ' )'
    if k == '!':
        return '! ' + render_line(t[1], ops, consts, True)
    sep = ' && ' if k == '&' else ' || '
    s = sep.join(render_line(x, ops, consts, True) for x in t[1:])
    return '( ' + s + ' )' if simple else s


def leaves(t, kind) -> List[int]:
    if t[0] == kind:
        return [t[1]]
    if t[0] in ('c', 'u', 'k'):
        return []
    out = []
    for x in t[1:]:
        out += leaves(x, kind)
    return out


def n_of(t, kind) -> int:
    ls = leaves(t, kind)
    return (max(ls) + 1) if ls else 0


# --------------------------------------------------------------------------- real objects

def _line_matcher(text: str, u0: bool, u1: bool):
    from vsym import xly
    from exactly_lib.impls.types.line_matcher import parse_line_matcher
    from exactly_lib.symbol.value_type import ValueType
    log = []
    syms = xly.symbol_table({
        'U0': xly.matcher_symbol(xly.StubMatcher('U0', lambda m: u0, log), ValueType.LINE_MATCHER),
        'U1': xly.matcher_symbol(xly.StubMatcher('U1', lambda m: u1, log), ValueType.LINE_MATCHER),
    })
    sdv = xly.parse_cached('line-matcher', parse_line_matcher.parsers(False).full, text)
    return xly.primitive_of_matcher_sdv(sdv, syms)


def in_interval(iv, x: int) -> bool:
    if iv.is_empty:
        return False
    lo = iv.lower
    if lo is not None and x < lo:
        return False
    up = iv.upper
    if up is not None and x > up:
        return False
    return True


# --------------------------------------------------------------------------- K1

def _pre_k1(o0, o1, o2, k0, k1, k2, u0, u1, c0, x) -> bool:
    tree = ob.case()['tree']
    nc = n_of(tree, 'c')
    os_ = (o0, o1, o2)
    ks = (k0, k1, k2)
    for i in range(3):
        if i < nc:
            if not (0 <= os_[i] <= 5):
                return False
        elif os_[i] != 0 or ks[i] != 0:
            return False
    nu = n_of(tree, 'u')
    if nu < 1 and u0:
        return False
    if nu < 2 and u1:
        return False
    if n_of(tree, 'k') < 1 and c0:
        return False
    if ob.case().get('oracle_bug'):
        return x >= 1
    return x >= 1


def k1_interval(o0: int, o1: int, o2: int, k0: int, k1: int, k2: int,
                u0: bool, u1: bool, c0: bool, x: int) -> bool:
    """
    pre: _pre_k1(o0, o1, o2, k0, k1, k2, u0, u1, c0, x)
    post: _
    """
    from vsym import xly
    from exactly_lib.impls.types.line_matcher import line_nums_interval
    tree = ob.case()['tree']
    ops = [int(o0), int(o1), int(o2)]
    text = render_line(tree, ops, [bool(c0)], False)
    xly.install_int_placeholders([k0, k1, k2])
    m = _line_matcher(text, u0, u1)
    iv = line_nums_interval.interval_of_matcher(m)
    accepted = m.matches_w_trace((x, 'l')).value
    if ob.case().get('oracle_bug'):
        # seeded oracle error (vacuity guard): demands the interval to be exact, which the
        # analysis does not promise -> must be refuted
        return ob.post(accepted == in_interval(iv, x))
    return ob.post((not accepted) or in_interval(iv, x))


def _int_trees(n_leaves: int):
    """integer-level trees with exactly n_leaves comparison leaves numbered left to right"""

    def build(lo, n):
        if n == 1:
            yield ('c', lo)
            yield ('!', ('c', lo))
            return
        # binary splits
        for nl in range(1, n):
            for l in build(lo, nl):
                for r in build(lo + nl, n - nl):
                    for op in '&|':
                        yield (op, l, r)
                        yield ('!', (op, l, r))
        if n == 3:
            for a in build(lo, 1):
                for b in build(lo + 1, 1):
                    for c in build(lo + 2, 1):
                        for op in '&|':
                            yield (op, a, b, c)
                            yield ('!', (op, a, b, c))

    return list(build(0, n_leaves))


def _k1_cases(tier):
    cases = []
    # (a) line-num of an integer expression, and its negation at the line level
    for n in (1, 2):
        for it in _int_trees(n):
            cases.append(('n', it))
            cases.append(('!', ('n', it)))
    # (b) line-level combinations of line-num comparisons, unknown-class matchers and constants
    L = [('n', ('c', 0)), ('!', ('n', ('c', 0)))]
    R = [('n', ('c', 1)), ('!', ('n', ('c', 1))), ('u', 0), ('!', ('u', 0)), ('k', 0)]
    for l in L:
        for r in R:
            for op in '&|':
                cases.append((op, l, r))
                cases.append(('!', (op, l, r)))
    for r in R[2:]:
        for op in '&|':
            cases.append((op, r, ('n', ('c', 0))))
    cases.append(('!', ('!', ('n', ('c', 0)))))
    cases.append(('p', ('n', ('|', ('c', 0), ('c', 1)))))
    cases.append(('!', ('p', ('!', ('n', ('|', ('c', 0), ('c', 1)))))))
    cases.append(('&', ('u', 0), ('u', 1)))
    cases.append(('|', ('u', 0), ('!', ('u', 1))))
    if tier == 'thorough':
        for it in _int_trees(3):
            cases.append(('n', it))
            cases.append(('!', ('n', it)))
        # nested line level, depth 3
        A = [('n', ('c', 0)), ('!', ('n', ('c', 0))), ('u', 0)]
        B = [('n', ('c', 1)), ('!', ('n', ('c', 1)))]
        C = [('n', ('c', 2)), ('!', ('n', ('c', 2))), ('u', 1), ('k', 0)]
        for a_ in A:
            for b_ in B:
                for c_ in C:
                    for op1 in '&|':
                        for op2 in '&|':
                            cases.append((op1, a_, (op2, b_, c_)))
                            cases.append(('!', (op1, (op2, a_, b_), c_)))
    # de-duplicate, stable
    seen = set()
    out = []
    for c in cases:
        if c not in seen:
            seen.add(c)
            out.append(c)
    return out


def _tree_name(t) -> str:
    return render_line(t, [0, 0, 0], [True], False).replace('== ', '').replace('line-num', 'ln').replace(' ', '')


def obligations(tier: str) -> List[Ob]:
    obs = []
    for t in _k1_cases(tier):
        nc = n_of(t, 'c')
        obs.append(Ob(
            name='K1:' + _tree_name(t), fn='k1_interval', case=dict(tree=t), kernel='K1',
            bound='expression `%s`: every comparison operator in {==,!=,<,<=,>,>=}, every K_i in Z, '
                  'every verdict of U_j, every line number x >= 1' % render_line(t, ['OP'] * 3 and [0, 0, 0], [True], False).replace('==', 'OP'),
            timeout=(150 if nc <= 1 else 600 if nc == 2 else 2400),
            real=REAL_K1, stubs=(STUB_INT, STUB_UNKNOWN),
            entry='parse_line_matcher.parsers().full -> interval_of_matcher',
        ))
    obs.append(Ob(name='K1:seeded-oracle-error', fn='k1_interval',
                  case=dict(tree=('n', ('c', 0)), oracle_bug=True), kernel='K1',
                  bound='seeded oracle error: demands interval == accepted set', timeout=120,
                  expect=ob.REFUTE, real=REAL_K1))
    return obs


ASSUMPTIONS = [
    'integer literals are evaluated by a stub of python_evaluate that maps the placeholder names K0.. to symbolic integers '
    '(contract: an integer literal denotes its integer); eval itself is a C boundary',
    'matchers of unknown class are stub LineMatchers bound to symbols; their verdict is an arbitrary boolean',
]

OUTSIDE = [
    'texts longer than the stated number of lines (loops are linear in N; no induction over N)',
    'the file / spool layer below the transformer (C14)',
]
