"""C06  Expression grammar: precedence, associativity, parentheses and layout.

Kernels (DESIGN.md section 4, C06):
  K1   generated trees, matcher hosts: every tree up to a bound (n-ary && / ||, !, redundant
       parentheses) is rendered to text under every layout up to a bound (line breaks at ANY gap,
       extra blanks / tabs), read by the REAL parser of the host type (full and simple, any-line
       and on-current-line variants), resolved by the real sdv -> ddv -> adv -> primitive chain and
       applied.  Where the layout is a permitted one the verdict AND the sequence of leaves asked
       must equal those of the generating tree evaluated lazily left to right, and nothing may be
       left unconsumed; where it is not (a line break outside parentheses after a complete operand)
       the reading must be the one of the reference recogniser (the expression ends at the line
       end; or a syntax error).  Leaves: symbols bound to matchers of a class unknown to
       exactly_lib whose verdicts are symbolic booleans.
  K1c  the same with leaves that are integer comparisons `OP K_i` (symbolic K_i, symbolic model x),
       `constant true|false` and stub symbols (integer host).
  K1t  text transformers: trees of `|` and parentheses; leaves are stub transformers with symbolic
       tags and symbolic is-identity flags; `a | b | c` applies a, then b, then c.
  K2   all token strings: every sequence of <= L tokens over {A, B, !, &&, ||, (, ), line break}
       (transformers: {A, B, |, (, ), line break, !}) is given to the real parser (full / simple x
       on-current-line / any-line) and to the reference recogniser written from the documented
       grammar (harness/_C06_ref.py): accepted iff accepted ("never silently re-read"), same
       unconsumed rest (in a simple context a top-level infix operator is left unconsumed), same
       verdict and asking order for all leaf values.  K2q / K2q1: the same with soft- ("||") and hard-quoted
       ('||') forms of the operator, parenthesis and symbol-name tokens in the alphabet (K2q), or replacing exactly one
       token of a longer plain string (K2q1): a quoted token is never an operator, a parenthesis or a symbol name.
       K2n1 / K2nc: malformed / near-miss operator tokens (every string of <= 3 characters of {&, |, !} that is not an operator
       of the host's grammar: `&`, `|`, `&&&`, `|||`, `&|`, `!!`, the operators of the OTHER grammar; K2nc also the quoted
       operators) - K2n1: replacing exactly one operator token of every plain token string; K2nc: at each single operator
       position, and at all infix positions at once, of every generated chain of up to 3 operators (needed and redundant
       parentheses, line breaks at any gap).  Oracle: the reference recogniser (such a token is neither operator nor
       operand) for the four parser variants, and on the whole-text route `def TYPE M = TEXT` "a text the documented grammar
       does not derive is a syntax error" (a derived one is read as the expression parser reads it).
       Every resolved primitive (all kernels) is applied twice - matchers to a second model, transformers to a second,
       different model - and both results are compared with the oracle.
  K3   contexts restricted to a simple expression: `line-num INTEGER-MATCHER` inside line-matcher
       expressions; `line-num == K0 && A` is `(line-num == K0) && A`, never `line-num (== K0 && A)`.
  K4   a line break between the keyword of a primitive that nests another expression (`line-num`, `num-lines`,
       `num-files`, `contents`, `dir-contents`, `every|any line|file :`, `-selection`, `-with-pruned`, `-transformed-by`,
       `filter`, `replace -at`) and that expression changes nothing: same complete object state of the parser's result
       as for the one-line text (parse level, every host type whose primitives nest expressions).  K3 and K3b put line
       breaks at that position too and compare VALUES where an in-memory model exists.
  K3b  simple contexts of the text matcher: `-transformed-by T M` and `every|any line : LM` bind ONE simple
       expression ("may not contain infix operators (unless inside parentheses)"): `-transformed-by T A && B` is
       `( -transformed-by T A ) && B` - B is asked about the ORIGINAL text.  In-memory text model, T a stub
       transformer that tags the model, stub leaves that log the model they see and whose verdict may depend on it;
       compared: value, asking order and the model each leaf saw.

How the work is split between plain execution and the solver.  Shapes, layouts and token strings
are a finite catalogue that the harness enumerates itself; on this concrete text the real parser
and the reference recogniser run natively (CrossHair's tracing is suspended: tracing concrete code
decides nothing and costs x1000).  Their agreement on accept / reject / unconsumed rest is a
concrete fact per string.  Every accepted reading is then grouped by the complete object state of
the parser's result (harness/_C06_real.fingerprint) and expected tree; one representative per group
is resolved and applied under CrossHair with SYMBOLIC leaf values (verdicts, integer operands and
model, transformer tags and identity flags), and z3 decides that no leaf valuation makes verdict
or asking order differ from the lazily evaluated tree.

What differs, for a failing obligation (debugging aid, not part of the check):
    PYTHONPATH=/repo/src:/verif /venv/bin/python -W ignore -m harness.C06 OBLIGATION TIER "ARGS" [excluded,regions]
prints every concrete disagreement (kind, source text, simple?, on-current-line?, what the real parser left / said)
and every reading whose verdict or asking order differs.

Known-finding regions (predicates on the input, see in_region_a / in_region_b; each has a witness obligation
K2:witness:* that lies entirely inside the region):
  C06-and-on-new-line-after-or-inside-parens   `( A || B <line break> && C )`: the `&&` is consumed as the `)`
  C06-and-on-new-line-outside-parens           `A <line break> && B` is read as `A && B`, `A <line break> || B` is not
"""
import itertools
from typing import List

from vsym import ob
from vsym.ob import Ob

from harness import _C06_ref as R

PROPERTY = 'C06'

NL = R.NL

REAL_PARSER = (
    'exactly_lib.impls.types.expression.parser._Parser.parse',
    'exactly_lib.impls.types.expression.parser._Parser.parse_w_maybe_infix_ops',
    'exactly_lib.impls.types.expression.parser._Parser.parse_w_infix_ops',
    'exactly_lib.impls.types.expression.parser._Parser.parse_optional_infix_op_name',
    'exactly_lib.impls.types.expression.parser._Parser.infix_op_sequence_for_single_op',
    'exactly_lib.impls.types.expression.parser._Parser.parse_mandatory_primitive',
    'exactly_lib.impls.types.expression.parser._Parser.parse_primitive',
    'exactly_lib.impls.types.expression.parser._Parser.consume_optional_prefix_operator',
    'exactly_lib.impls.types.expression.parser._Parser.consume_optional_start_parentheses',
    'exactly_lib.impls.types.expression.parser._Parser.consume_mandatory_end_parentheses',
    'exactly_lib.impls.types.expression.parser._SimpleParserOnAnyLineParser',
    'exactly_lib.impls.types.expression.parser._FullParserOnAnyLineParser',
    'exactly_lib.impls.types.expression.parser.parsers',
    'exactly_lib.impls.types.expression.grammar.Grammar',
    'exactly_lib.section_document.element_parsers.ps_or_tp.parsers.parser_for_must_be_on_current_line',
    'exactly_lib.section_document.element_parsers.ps_or_tp.parsers.CurrentLineMustNotBeEmptyExceptForSpace',
    'exactly_lib.section_document.element_parsers.token_stream_parser.TokenParser.consume_optional_constant_string_that_must_be_unquoted_and_equal',
    'exactly_lib.section_document.element_parsers.token_stream_parser.TokenParser.consume_mandatory_constant_string_that_must_be_unquoted_and_equal',
    'exactly_lib.section_document.element_parsers.token_stream_parser.TokenParser.consume_mandatory_unquoted_string',
    'exactly_lib.section_document.element_parsers.token_stream_parser.TokenParser.parse_mandatory_string_that_must_be_unquoted',
    'exactly_lib.section_document.element_parsers.token_stream_parser.TokenParser.require_is_not_at_eol',
    'exactly_lib.section_document.element_parsers.token_stream_parser.TokenParser.is_at_eol',
    'exactly_lib.section_document.element_parsers.token_stream.TokenStream.consume',
    'exactly_lib.symbol.symbol_syntax.is_symbol_name',
)
REAL_MATCHER = (
    'exactly_lib.impls.types.matcher.standard_expression_grammar.new_grammar',
    'exactly_lib.impls.types.matcher.impls.combinator_sdvs.Negation',
    'exactly_lib.impls.types.matcher.impls.combinator_sdvs.Conjunction',
    'exactly_lib.impls.types.matcher.impls.combinator_sdvs.Disjunction',
    'exactly_lib.impls.types.matcher.impls.combinator_matchers.Negation.matches_w_trace',
    'exactly_lib.impls.types.matcher.impls.combinator_matchers.Conjunction.matches_w_trace',
    'exactly_lib.impls.types.matcher.impls.combinator_matchers.Disjunction.matches_w_trace',
    'exactly_lib.impls.types.matcher.impls.combinator_matchers.NegationDdv',
    'exactly_lib.impls.types.matcher.impls.combinator_matchers.ConjunctionDdv',
    'exactly_lib.impls.types.matcher.impls.combinator_matchers.DisjunctionDdv',
    'exactly_lib.impls.types.matcher.impls.combinator_matchers._SequenceOfOperandsAdv',
    'exactly_lib.impls.types.matcher.impls.combinator_matchers._NegationAdv',
    'exactly_lib.impls.types.matcher.impls.symbol_reference.MatcherReferenceSdv',
)
REAL_TRANSFORMER = (
    'exactly_lib.impls.types.string_transformer.impl.sequence_sdv.StringTransformerSequenceSdv',
    'exactly_lib.impls.types.string_transformer.impl.sequence.SequenceStringTransformer',
    'exactly_lib.impls.types.string_transformer.impl.sequence.StringTransformerSequenceDdv',
    'exactly_lib.impls.types.string_transformer.impl.sequence._StringTransformerSequenceAdv',
    'exactly_lib.impls.types.string_transformer.sdvs.StringTransformerSdvReference',
)
REAL_INT = (
    'exactly_lib.impls.types.integer_matcher.parse_integer_matcher._ComparisonParser',
    'exactly_lib.impls.types.matcher.impls.comparison_matcher.ComparisonMatcher.matches_w_trace',
    'exactly_lib.impls.types.matcher.impls.comparison_matcher.ComparisonMatcherSdv',
    'exactly_lib.impls.types.condition.comparators',
    'exactly_lib.impls.types.matcher.impls.parse_constant',
    'exactly_lib.impls.types.matcher.impls.constant.MatcherWithConstantResult',
)
REAL_LINE_NUM = (
    'exactly_lib.impls.types.line_matcher.impl.line_number.parse_line_number',
    'exactly_lib.impls.types.matcher.property_matcher.PropertyMatcherSdv',
    'exactly_lib.impls.types.matcher.property_matcher.PropertyMatcher.matches_w_trace',
)

PARSER_MODULE = {
    'integer': 'exactly_lib.impls.types.integer_matcher.parse_integer_matcher',
    'line': 'exactly_lib.impls.types.line_matcher.parse_line_matcher',
    'string': 'exactly_lib.impls.types.string_matcher.parse_string_matcher',
    'file': 'exactly_lib.impls.types.file_matcher.parse_file_matcher',
    'files': 'exactly_lib.impls.types.files_matcher.parse_files_matcher',
    'transformer': 'exactly_lib.impls.types.string_transformer.parse_string_transformer',
}


def _real_for(host: str, extra=()):
    r = REAL_PARSER + (PARSER_MODULE[host] + '.parsers', PARSER_MODULE[host] + '.GRAMMAR')
    if host == 'transformer':
        return r + REAL_TRANSFORMER + tuple(extra)
    return r + REAL_MATCHER + tuple(extra)


STUB_LEAF = ('leaves: symbols A, B, .. bound in the symbol table to matchers of a class unknown to exactly_lib '
             '(subclass of the public MatcherWTrace); verdict = symbolic bool; every question asked is logged')
STUB_TLEAF = ('leaves: symbols A, B, .. bound to text transformers of a class unknown to exactly_lib (subclass of the public '
              'StringTransformer); the model is an opaque tuple to which a transformer appends its symbolic tag; '
              'is_identity_transformer = symbolic bool (an identity transformer returns its input)')
STUB_INT = 'python_evaluate -> placeholder table (integer literal K_i denotes the symbolic integer k_i)'
STUB_MODEL = ('model of text matchers: an object with freeze() (the combinators freeze the model; the stub leaves do not read it); '
              'model of file / files matchers: None (opaque to combinators and stub leaves)')
STUB_NOTRACE = ('CrossHair tracing is suspended (crosshair.tracers.NoTracing) while the real parser and the reference recogniser '
                'run on the CONCRETE text of the enumerated catalogue; resolution and application run traced, on symbolic leaf values')

STUB_CTX = ('text model: an in-memory one-line text (`l` + one `T` per transformation applied) offering freeze() and contents().as_lines; '
            'T: symbol bound to a transformer of a class unknown to exactly_lib that appends its tag; leaves A, B, C (text matchers) and P, Q '
            '(line matchers) of classes unknown to exactly_lib, bound to symbols, which log the model they are asked about; the verdict of A and B '
            'is one symbolic bool on an untransformed and another on a transformed model')
REAL_CTX = (
    'exactly_lib.impls.types.string_matcher.parse_string_matcher._parse_on_transformed',
    'exactly_lib.impls.types.string_matcher.parse_string_matcher._simple_expressions',
    'exactly_lib.impls.types.string_matcher.impl.on_transformed.StringMatcherWithTransformation.matches_w_trace',
    'exactly_lib.impls.types.string_matcher.impl.on_transformed.StringMatcherWithTransformationSdv',
    'exactly_lib.impls.types.matcher.impls.parse_quantified_matcher.parse_after_quantifier_token',
    'exactly_lib.impls.types.matcher.impls.parse_quantified_matcher.GrammarSetup',
    'exactly_lib.impls.types.matcher.impls.quantifier_matchers._QuantifierBase.matches_w_trace',
    'exactly_lib.impls.types.string_matcher.impl.line_matchers._get_line_elements',
)

OUT_PRIMS = ('primitives with their own argument syntax inside expressions (C05, C13, C15); only symbol references, '
             '`constant`, integer comparisons and `line-num` are used as leaves')
OUT_TOKENIZER = 'the tokenizer itself (quoting, token boundaries: C09); tokens are separated by blanks, tabs and line breaks here'
OUT_SIMPLE = ('contexts restricted to a simple expression other than the simple parser of each host type itself, `line-num`, '
              '`-transformed-by T M` and `every|any line : LM` of the text matcher '
              '(`num-lines`, file matcher `contents` / `dir-contents`, files matcher `-selection` / `every|any file :`: C05, C15)')

# --------------------------------------------------------------------------- known-finding regions
#
# Predicates on the INPUT (sequence of tokens and line breaks); switched on by known_findings.json entries only.

REGION_A = 'C06-and-on-new-line-after-or-inside-parens'
REGION_B = 'C06-and-on-new-line-outside-parens'


def in_region_a(toks) -> bool:
    """inside parentheses: a line break immediately before an `&&` that follows an `||` of the same
    parenthesis group  (`( A || B <line break> && C )`)"""
    seen_or = []
    for i, t in enumerate(toks):
        if t == '(':
            seen_or.append(False)
        elif t == ')':
            if seen_or:
                seen_or.pop()
        elif t == '||' and seen_or:
            seen_or[-1] = True
        elif t == '&&' and seen_or and seen_or[-1] and i > 0 and toks[i - 1] == NL:
            return True
    return False


def in_region_b(toks) -> bool:
    """outside parentheses: a line break immediately before an `&&` that is not preceded by an `||` outside
    parentheses  (`A <line break> && B`; not `A || B <line break> && C`, which ends at the line break as documented)"""
    depth = 0
    seen_or = False
    for i, t in enumerate(toks):
        if t == '(':
            depth += 1
        elif t == ')':
            depth = max(0, depth - 1)
        elif t == '||' and depth == 0:
            seen_or = True
        elif t == '&&' and depth == 0 and not seen_or and i > 0 and toks[i - 1] == NL:
            return True
    return False


def _excluded(toks) -> bool:
    if ob.excluded(REGION_A) and in_region_a(toks):
        return True
    if ob.excluded(REGION_B) and in_region_b(toks):
        return True
    return False


# --------------------------------------------------------------------------- catalogue: items
#
# item = (toks, source, simple, cur, gen)
#   toks    the sequence of units (tokens; a comparison `== K0` is one unit) and line breaks NL
#   source  the text given to the real parser
#   gen     generating tree if the layout is a permitted one for the FULL parser (then the oracle is the
#           generating tree itself and nothing may be left), else None (then the oracle is the reference
#           recogniser applied to toks)

VARIANTS = ((False, False), (False, True), (True, False), (True, True))  # (simple, must_be_on_current_line)

K2_ALPHABET_M = ('A', 'B', '!', '&&', '||', '(', ')', NL)
K2_ALPHABET_T = ('A', 'B', '|', '(', ')', NL, '!')

STUB_NAMES = ('A', 'B', 'C', 'D')


def _k2_strings(case):
    alphabet = case['alphabet']
    prefix = tuple(case['prefix'])
    maxlen = case['maxlen']
    if case.get('shorter'):
        for n in range(0, len(prefix)):
            for t in itertools.product(alphabet, repeat=n):
                yield t
        return
    for n in range(0, maxlen - len(prefix) + 1):
        for suffix in itertools.product(alphabet, repeat=n):
            yield prefix + suffix


def quoted_forms(t):
    """soft- and hard-quoted form of a token: a quoted token is never an operator, a parenthesis or a symbol name"""
    return ('"%s"' % t, "'%s'" % t)


def _quotable(host):
    return ('|', '(', ')', 'A') if host == 'transformer' else ('!', '&&', '||', '(', ')', 'A')


def host_operators(host):
    """the operator tokens of the host's documented grammar (infix and prefix)"""
    return R.grammar_operators(*_grammar_of(host))


def near_tokens(host, chars, maxlen=3, quoted=False):
    """Near-miss operator tokens of a host type: every string of 1..maxlen characters of `chars` that is not an
    operator of the host's grammar (so: `&`, `|`, `&&&`, `|||`, `&|`, .. and the operators of the OTHER expression
    grammar), optionally with the soft- and hard-quoted forms of the host's own operators."""
    out = R.near_miss_tokens(*_grammar_of(host), chars=tuple(chars), maxlen=maxlen)
    if quoted:
        out += tuple(q for o in host_operators(host) for q in quoted_forms(o))
    return out


def _k2_strings_of(case):
    """The token strings of a K2 case.  quoted=None: the plain catalogue; 'one': every string of the plain
    catalogue with exactly one operator / parenthesis / symbol-name token replaced by its soft- or hard-quoted
    form; 'ext': the plain catalogue over the alphabet extended by all quoted forms (case['alphabet'] is
    already the extended one).  near='one': every string of the plain catalogue with exactly one OPERATOR token
    (infix or prefix) replaced by a near-miss operator token (case['near_tokens'])."""
    if case.get('near') == 'one':
        ops = host_operators(case['host'])
        plain = set(case['alphabet'])
        subst = tuple(q for q in case['near_tokens'] if q not in plain)
        for toks in _k2_strings(case):
            for i, t in enumerate(toks):
                if t in ops:
                    for q in subst:
                        yield toks[:i] + (q,) + toks[i + 1:]
        return
    if case.get('quoted') != 'one':
        for toks in _k2_strings(case):
            yield toks
        return
    quotable = _quotable(case['host'])
    for toks in _k2_strings(case):
        for i, t in enumerate(toks):
            if t in quotable:
                for q in quoted_forms(t):
                    yield toks[:i] + (q,) + toks[i + 1:]


def _k2_items(case):
    for toks in _k2_strings_of(case):
        src = R.render(toks)
        for simple, cur in VARIANTS:
            yield toks, src, simple, cur, None


def _near_chain_items(case):
    """near='chain': every generated tree (a well-formed chain of operators, with needed and redundant parentheses),
    rendered; then (a) each single operator position - infix or prefix - and (b) all infix operator positions at
    once carry a near-miss token; every placement of <= nl line breaks; the four parser variants.  The tree itself
    (nothing replaced) is included as the control."""
    ops = host_operators(case['host'])
    infix = tuple(o for lv in _grammar_of(case['host'])[0] for o in lv)
    seen = set()
    for t in _k1_trees(case):
        units = R.tree_tokens(t)
        positions = [i for i, u in enumerate(units) if u in ops]
        infix_positions = [i for i in positions if units[i] in infix]
        variants = [units]
        for q in case['near_tokens']:
            for i in positions:
                variants.append(units[:i] + [q] + units[i + 1:])
            if len(infix_positions) > 1:
                variants.append([q if i in infix_positions else u for i, u in enumerate(units)])
        for units2 in variants:
            for gaps, _permitted in _layouts(units2, case['layout']):
                toks, _src = _with_gaps(units2, gaps)
                if toks in seen:
                    continue
                seen.add(toks)
                src = R.render(toks)
                for simple, cur in VARIANTS:
                    yield toks, src, simple, cur, None


def _w_items(case):
    for toks in case['strings']:
        for simple, cur in VARIANTS:
            yield tuple(toks), R.render(toks), simple, cur, None


# ---- K1: trees x layouts

INFIX = ('&&', '||', '|')


def _gap_info(units):
    """-> list over the inner gaps j (between units[j] and units[j+1]): (permitted for a line break?, perturbable?)"""
    out = []
    depth = 0
    for j in range(len(units) - 1):
        u = units[j]
        if u == '(':
            depth += 1
        elif u == ')':
            depth -= 1
        if u in R.UNIT_CONTEXT:
            # between the keyword of a primitive that takes a nested expression and that expression: the operand may
            # follow on a later line, as after `!` and after an infix operator
            out.append((True, True))
        else:
            out.append((depth >= 1 or u in INFIX or u == '!', True))
    return out


WS_KINDS = ('  ', '\t', ' \t ')
NL_KINDS_1 = ('\n', ' \n', '\n   ', '\n\n')


def _layouts(units, spec):
    """Yields (gaps, permitted) with gaps = [leading, inner..., trailing] strings.
    spec: dict(nl=max number of line breaks at inner gaps (any gap), ws=bool single blank perturbations,
               nlkinds=bool single line-break variants, lead=bool leading line break / blanks)"""
    n = len(units)
    info = _gap_info(units)
    inner = [j for j in range(n - 1) if info[j][1]]

    def mk(repl, lead='', trail=''):
        gaps = [lead] + [repl.get(j, ' ') for j in range(n - 1)] + [trail]
        permitted = all(info[j][0] for j in repl if '\n' in repl[j])
        return gaps, permitted

    yield mk({})
    for k in range(1, spec.get('nl', 0) + 1):
        for js in itertools.combinations(inner, k):
            yield mk({j: '\n' for j in js})
    if spec.get('nlkinds'):
        for j in inner:
            for kind in NL_KINDS_1[1:]:
                yield mk({j: kind})
    if spec.get('ws'):
        for j in inner:
            for kind in WS_KINDS:
                yield mk({j: kind})
        for kind in WS_KINDS:
            yield mk({}, lead=kind)
            yield mk({}, trail=kind)
        yield mk({}, trail=' \n')
    if spec.get('lead'):
        yield mk({}, lead='\n')
        yield mk({}, lead='  \n \n ')


def _with_gaps(units, gaps):
    """-> (toks including NL elements, source text)"""
    toks = []
    parts = []
    for i, u in enumerate(units):
        g = gaps[i]
        parts.append(g)
        toks += [NL] * g.count('\n')
        parts.append(u)
        toks.append(u)
    parts.append(gaps[-1])
    toks += [NL] * gaps[-1].count('\n')
    return tuple(toks), ''.join(parts)


def _k1_trees(case):
    spec = case['trees']
    leafsets = spec['leaves']  # list of tuples of leaf units
    out = []
    for leaves in leafsets:
        for t in R.gen_trees(leaves, spec['depth'], spec['wrappers'],
                             ops=tuple(spec.get('ops', ('&&', '||'))),
                             wrapper_kinds=tuple(spec.get('wrapper_kinds', ('!', 'P')))):
            out.append(t)
    part, nparts = case.get('part', (0, 1))
    return [t for i, t in enumerate(out) if i % nparts == part]


def _k1_items(case, trees=None):
    lay = case['layout']
    for t in (trees if trees is not None else _k1_trees(case)):
        units = R.tree_tokens(t)
        for gaps, permitted in _layouts(units, lay):
            toks, src = _with_gaps(units, gaps)
            lead_nl = '\n' in gaps[0]
            for simple, cur in case.get('variants', VARIANTS):
                gen = t if (permitted and not simple and not (cur and lead_nl)) else None
                yield toks, src, simple, cur, gen
            if R.CONTEXT_UNIT['X'] in units and not any('\n' in g for g in gaps):
                # a line break inside the keyword part `-transformed-by <here> T`: the transformer is a nested
                # (simple) expression too and may follow on a later line
                for brk in ('\n', ' \n   '):
                    src2 = src.replace('-transformed-by T', '-transformed-by' + brk + 'T')
                    for simple, cur in case.get('variants', VARIANTS):
                        yield toks, src2, simple, cur, (t if (permitted and not simple) else None)


# ---- K3: line-num INTEGER-MATCHER inside line-matcher expressions

def _k3_trees(case):
    c0, c1 = ('L', case['cmp'][0]), ('L', case['cmp'][1])
    a, b = ('L', 'A'), ('L', 'B')
    ints = [c0, ('!', c0), ('P', c0), ('||', [c0, c1]), ('&&', [c0, c1]), ('!', ('||', [c0, c1])),
            ('!', ('!', c0)), ('&&', [c0, ('!', c1)])]
    out = []
    for it in ints:
        n = ('N', it)
        out += [n, ('!', n), ('P', n),
                ('&&', [n, a]), ('||', [n, a]), ('&&', [a, n]), ('||', [a, n]),
                ('||', [n, ('&&', [a, b])]), ('&&', [('!', n), a]), ('||', [a, ('&&', [n, b])]),
                ('&&', [('||', [a, n]), b])]
    out += [('&&', [('N', c0), ('N', c1)]), ('||', [('N', c0), ('N', c1)]),
            ('||', [('N', ('!', c0)), ('&&', [('N', c1), a])])]
    part, nparts = case.get('part', (0, 1))
    return [t for i, t in enumerate(out) if i % nparts == part]


K3_MALFORMED = (
    # the operand of a line-level operator must be a line matcher: never re-read as `line-num ( C0 OP C1 )`
    'line-num {0} || {1}', 'line-num {0} && {1}', 'line-num ! {0} && {1}', 'line-num {0} && ! {1}',
    'A && {0}', '{0}', '! {0}', 'line-num', 'line-num &&', 'line-num ( {0}', 'line-num ( {0} || )',
    'line-num {0} )  && A',
)


def _k3_items(case):
    for it in _k1_items(case, _k3_trees(case)):
        yield it


# ---- K3b: simple contexts of the text matcher: `-transformed-by T M`, `every line : LM`, `any line : LM`

TEXT_LEAVES = ('A', 'B', 'C')
LINE_LEAVES = ('P', 'Q')


def _k3b_trees(case):
    a, b, c = (('L', n) for n in TEXT_LEAVES)
    p, q = (('L', n) for n in LINE_LEAVES)
    small = case.get('small')  # quick tier: fewer context nodes and surroundings, no third operand
    if case['ctx'] == 'X':
        nodes = [('X', a), ('X', ('!', a)), ('X', ('&&', [a, b])), ('X', ('X', a))]
        if not small:
            nodes += [('X', ('P', a)), ('X', ('||', [a, b])), ('X', ('!', ('||', [a, b])))]
    else:
        nodes = [('Qe', p), ('Qa', p), ('Qe', ('&&', [p, q])), ('Qa', ('!', p)), ('X', ('Qe', p))]
        if not small:
            inner = [p, ('!', p), ('P', p), ('&&', [p, q]), ('||', [p, q])]
            nodes = [(k, t) for k in ('Qe', 'Qa') for t in inner]
            nodes += [('X', ('Qe', p)), ('Qa', ('!', ('&&', [p, q])))]
    out = []
    for n in nodes:
        out += [n, ('!', n), ('&&', [n, b]), ('||', [n, b]), ('&&', [b, n]), ('||', [b, n]),
                ('&&', [('!', n), b]), ('&&', [('P', n), b])]
        if not small:
            out += [('P', n), ('||', [n, ('&&', [b, c])]), ('&&', [n, ('||', [b, c])]), ('&&', [n, b, c]), ('||', [n, b, c]),
                    ('||', [b, ('&&', [n, c])]), ('&&', [('||', [b, n]), c]), ('||', [('P', ('&&', [n, b])), c])]
    if case['ctx'] == 'X':
        out += [('&&', [('X', a), ('X', b)]), ('&&', [a, ('X', a)]), ('||', [('X', a), b, a])]
        if not small:
            out += [('||', [('X', a), ('&&', [('X', b), c])])]
    else:
        out += [('&&', [('Qe', p), ('Qa', q)]), ('||', [('Qa', p), ('Qe', q), b])]
        if not small:
            out += [('||', [('Qa', p), ('&&', [('X', ('Qe', q)), b])]), ('&&', [('X', a), ('Qe', p), a])]
    part, nparts = case.get('part', (0, 1))
    return [t for i, t in enumerate(out) if i % nparts == part]


K3B_MALFORMED = ('-transformed-by T', '-transformed-by T &&', '-transformed-by T A &&', '-transformed-by T ( A && B',
                 'every line :', 'every line : &&', 'any line : ( P', 'every line P', '-transformed-by && A')


def _k3b_items(case):
    for it in _k1_items(case, _k3b_trees(case)):
        yield it


# ---- K4: a line break between the keyword of a primitive that nests another expression and that expression
#
# ` @ ` marks the positions: keyword -> nested expression (and, for two-argument primitives, between the nested
# expressions).  Parse level: the models of most of these primitives are files / directories (C05, C15).

K4_FORMS = {
    'line': ('line-num @ == 1', 'line-num @ ( == 1 || > 2 )', 'line-num @ ! == 1', 'line-num @ constant true',
             'contents @ A', 'contents @ ( A || B )', 'contents @ num-lines @ == 1', 'contents @ ! empty'),
    'string': ('num-lines @ == 1', 'num-lines @ ( >= 1 && <= 2 )', 'num-lines @ ! == 1', 'every line : @ P', 'any line : @ P',
               'every line : @ line-num @ == 1', 'any line : @ contents @ A', '-transformed-by @ T @ A',
               '-transformed-by @ T @ num-lines @ == 1', '-transformed-by @ filter @ line-num @ == 1 @ A',
               '-transformed-by @ ( T | T ) @ ( A && B )'),
    'file': ('contents @ A', 'contents @ num-lines @ == 1', 'dir-contents @ B', 'dir-contents -recursive @ B',
             'dir-contents @ num-files @ == 1', 'dir-contents @ ( B || B )'),
    'files': ('num-files @ == 1', 'num-files @ ( >= 1 && <= 2 )', 'every file : @ A', 'any file : @ A', '-selection @ A @ B',
              '-with-pruned @ A @ B', 'every file : @ contents @ A', '-selection @ A @ num-files @ == 1',
              'any file : @ dir-contents @ num-files @ == 0'),
    'transformer': ('filter @ P', 'filter @ line-num @ == 1', 'filter @ contents @ A', 'filter @ ( P || Q )',
                    'replace -at @ P a b', 'replace -at @ line-num @ == 1 a b', 'filter @ ! line-num @ ( == 1 || == 2 )'),
}
K4_BREAKS = ('\n', ' \n   ', '\n\n')


def _k4_wraps(host):
    if host == 'transformer':
        return ('{}', '( {} )', '{} | A', 'A | {}', '(\n{} | A )')
    return ('{}', '( {} )', '! {}', 'A && {}', '{} || A', '( A ||\n{} )')


def _stage1_k4(case):
    """-> (bad, [], n): for every form, surrounding and subset of marked positions, the text with line breaks at these
    positions is read by the real parser exactly as the one-line text (same complete object state of the result,
    nothing left)."""
    from harness import _C06_real as X
    host = case['host']
    forms = K4_FORMS[host]
    bad = []
    n = 0
    for fi, form in enumerate(forms):
        parts = form.split(' @ ')
        for wrap in _k4_wraps(host):
            for simple, cur in VARIANTS:
                one = X._real_parse(host, simple, cur, wrap.format(' '.join(parts)))
                if case.get('oracle_bug') == 'other-form':
                    # seeded oracle error: the one-line text of ANOTHER form is taken as the reading
                    one = X._real_parse(host, simple, cur, wrap.format(forms[(fi + 1) % len(forms)].replace(' @ ', ' ')))
                n += 1
                if one[0] != 'ok':
                    bad.append(('the one-line text is rejected', wrap.format(' '.join(parts)), simple, cur, one[1]))
                    continue
                fp1 = X.fingerprint(one[1], X.OPAQUE)
                npos = len(parts) - 1
                for mask in range(1, 2 ** npos):
                    for brk in K4_BREAKS:
                        text = parts[0]
                        for j in range(npos):
                            text += (brk if mask & (1 << j) else ' ') + parts[j + 1]
                        src = wrap.format(text)
                        r = X._real_parse(host, simple, cur, src)
                        n += 1
                        if r[0] != 'ok':
                            bad.append(('rejected, but the same text on one line is accepted', src, simple, cur, r[1]))
                        elif r[3].split() != one[3].split():
                            bad.append(('unconsumed rest differs from the one-line text: %r' % (one[3],), src, simple, cur, r[3]))
                        elif X.fingerprint(r[1], X.OPAQUE) != fp1:
                            bad.append(('read differently from the same text on one line', src, simple, cur, ''))
    return (bad, [], n)


# --------------------------------------------------------------------------- stage 1: the concrete stage

_STAGE1 = {}


def _grammar_of(host):
    if host == 'transformer':
        return R.TRANSFORMER_LEVELS, R.TRANSFORMER_PREFIX
    return R.MATCHER_LEVELS, R.MATCHER_PREFIX


def _leaf_units(case):
    names = list(STUB_NAMES)
    for ls in (case.get('trees') or {}).get('leaves', ()):
        names += list(ls)
    names += list(case.get('cmp', ()))
    return tuple(dict.fromkeys(names))


def _stage1(case):
    """Runs the real parser and the oracle on every item of the case's catalogue (concrete text, natively).
    -> (bad, classes):  bad = concrete disagreements on accept / reject / unconsumed rest;
       classes = one (sdv, expected tree, example source) per distinct (complete state of the parser's result, expected tree)."""
    from harness import _C06_real as X
    with X.concrete():
        key = repr(sorted(case.items(), key=lambda kv: kv[0])) + repr((ob.excluded(REGION_A), ob.excluded(REGION_B)))
        if key not in _STAGE1:
            _STAGE1[key] = _stage1_compute(case)
        return _STAGE1[key]


def _stage1_compute(case):
    from harness import _C06_real as X
    if case['family'] == 'K4':
        return _stage1_k4(case)
    if True:
        host = case['host']
        levels, prefix = _grammar_of(host)
        if case.get('oracle_bug') == 'precedence':
            levels = tuple(reversed(levels))  # seeded oracle error: `||` binds tighter than `&&`
        names = _leaf_units(case)
        family = case['family']
        arg_prims = None
        if family == 'K3':
            names = STUB_NAMES
            arg_prims = {'line-num': tuple(case['cmp'])}
        if family == 'K3b':
            names = TEXT_LEAVES
            arg_prims = {'-transformed-by T': TEXT_LEAVES, 'every line :': LINE_LEAVES, 'any line :': LINE_LEAVES}
        items = (_near_chain_items(case) if case.get('near') == 'chain' else _k2_items(case) if family == 'K2' else _k3_items(case) if family == 'K3'
                 else _k3b_items(case) if family == 'K3b' else _w_items(case) if family == 'W' else _k1_items(case))
        bad = []
        classes = {}
        n_items = 0
        for toks, src, simple, cur, gen in items:
            if _excluded(toks):
                continue
            n_items += 1
            real = X._real_parse(host, simple, cur, src)
            if gen is not None:
                exp_tree, exp_rest = gen, []
            else:
                rtoks = toks
                if case.get('oracle_bug') == 'soft-quoted-is-operator':
                    # seeded oracle error: a soft-quoted token denotes what it quotes
                    rtoks = tuple(t[1:-1] if len(t) > 2 and t[0] == '"' and t[-1] == '"' else t for t in toks)
                if case.get('oracle_bug') == 'near-miss-is-operator':
                    # seeded oracle error: a lone `&` / `|` is taken for the operator it is a prefix of
                    rtoks = tuple({'&': '&&', '|': '||'}.get(t, t) for t in toks)
                if case.get('near') and not simple and not cur:
                    n_items += 1
                    d = _whole_text_check(host, rtoks, src, levels, prefix, names, real, X)
                    if d is not None:
                        bad.append((d[0], 'def %s M = %s' % (X.DEF_TYPE[host], src), simple, cur, d[1]))
                ref = R.ref_parse(rtoks, levels, prefix, names, simple, cur, arg_prims)
                if ref[0] == 'err':
                    if real[0] != 'err':
                        bad.append(('accepted, but malformed: ' + ref[1], src, simple, cur, real[3]))
                    continue
                exp_tree = ref[1]
                exp_rest = ' '.join(u for u in toks[ref[2]:] if u != NL).split()
                if family in ('K2', 'W') and real[0] == 'ok' and real[3].strip(' ') != R.render(toks[ref[2]:]).strip(' '):
                    bad.append(('unconsumed rest differs (exact)', src, simple, cur, real[3]))
                    continue
            if real[0] != 'ok':
                bad.append(('rejected, but well-formed', src, simple, cur, real[1]))
                continue
            if real[3].split() != exp_rest:
                bad.append(('unconsumed rest differs: expected %r' % (exp_rest,), src, simple, cur, real[3]))
                continue
            k = (X.fingerprint(real[1], X.OPAQUE), R.freeze(exp_tree))
            if k not in classes:
                classes[k] = (real[1], exp_tree, src)
        for src in (case.get('malformed') or ()):
            for simple, cur in VARIANTS:
                n_items += 1
                real = X._real_parse(host, simple, cur, src)
                if real[0] != 'err' and real[3].strip() == '':
                    bad.append(('accepted, but malformed', src, simple, cur, real[3]))
        return (bad, list(classes.values()), n_items)


def _whole_text_check(host, toks, src, levels, prefix, names, real, X):
    """The route on which the WHOLE text must be an expression: `def TYPE M = <text>`.  A text that the documented
    grammar does not derive (the reference recogniser fails, or something other than a line break follows the longest
    expression) is a syntax error of the instruction; a text it derives is accepted, as the same object that the
    expression parser of the type reads, and what follows the line break is left for the next instruction.
    -> None | (what is wrong, observed)"""
    got = X.real_def_parse(host, src)
    ref = R.ref_parse(toks, levels, prefix, names, False, False)
    derived = ref[0] == 'ok' and (ref[2] >= len(toks) or toks[ref[2]] == NL)
    if not derived:
        if got[0] != 'err':
            return ('accepted by `def`, but the text is not an expression of the documented grammar', got[2])
        return None
    if got[0] != 'ok':
        return ('rejected by `def`, but well-formed', got[1])
    if got[2].split() != ' '.join(u for u in toks[ref[2]:] if u != NL).split():
        return ('`def` leaves something else than what follows the expression', got[2])
    if real[0] == 'ok' and X.fingerprint(got[1], X.OPAQUE) != X.fingerprint(real[1], X.OPAQUE):
        return ('`def` reads the text differently from the expression parser of the type', '')
    return None


_DIAG = []


def _note(*a):
    if len(_DIAG) < 50:
        _DIAG.append(a)


# --------------------------------------------------------------------------- stage 2: symbolic leaf values

_CMP = {
    '==': lambda a, b: a == b, '!=': lambda a, b: a != b, '<': lambda a, b: a < b,
    '<=': lambda a, b: a <= b, '>': lambda a, b: a > b, '>=': lambda a, b: a >= b,
}


def _stub_of(unit):
    """`A` and `@[A]@` both denote the symbol A"""
    if unit[:2] == '@[' and unit[-2:] == ']@':
        return unit[2:-2]
    return unit


def _leaf_value(unit, stubs, x, ks, oracle_bug):
    unit = _stub_of(unit)
    if unit in stubs:
        return stubs[unit]
    if unit == 'constant true':
        return True
    if unit == 'constant false':
        return False
    op, k = unit.split()
    if oracle_bug == 'lt-for-le' and op == '<=':
        op = '<'  # seeded oracle error
    return _CMP[op](x, ks[int(k[1:])])


def _check_matcher_classes(case, classes, stubs, x, ks) -> bool:
    from harness import _C06_real as X
    host = case['host']
    bug = case.get('oracle_bug')
    names = tuple(stubs.keys())
    if ks:
        # integer operands are read when the expression is resolved: resolve on every path
        log = []
        syms = X.matcher_symbols(host, names, tuple(stubs.values()), log)
        prims = None
    else:
        # verdicts are read from a table when a leaf is asked: resolve once (natively), apply on every path
        log = X.LOG
        with X.concrete():
            prims = [X.table_primitive(host, names, sdv) for sdv, _tree, _src in classes]
        for n in names:
            X.VERDICTS[n] = stubs[n]
    model = X.model_for(host, x)
    good = True
    for i, (sdv, tree, src) in enumerate(classes):
        del log[:]
        m = prims[i] if prims is not None else X.matcher_primitive(sdv, syms)
        got = m.matches_w_trace(model).value
        asked = []
        want = R.ref_eval(tree, lambda u: _leaf_value(u, stubs, x, ks, bug), asked)
        if bug == 'eager':
            asked = R.ref_leaves(tree)  # seeded oracle error: demands that every operand is evaluated
        if bug == 'value':
            want = not want if len(R.ref_leaves(tree)) > 1 else want
        asked_stubs = [_stub_of(u) for u in asked if _stub_of(u) in stubs]
        if bool(got) != bool(want) or log != asked_stubs:
            good = False
            _note('value/asking order differs', src, 'got', bool(got), list(log), 'want', bool(want), asked_stubs)
        # the parsed object denotes a function: applied to a second model (a fresh one for text matchers) it
        # must give the value of the tree again, asking the same leaves
        del log[:]
        got2 = m.matches_w_trace(X.model_for(host, x)).value
        if bool(got2) != bool(want) or log != asked_stubs:
            good = False
            _note('second application: value/asking order differs', src, 'got', bool(got2), list(log), 'want', bool(want), asked_stubs)
    return good


def k_bool(v0: bool, v1: bool, v2: bool, v3: bool) -> bool:
    """
    post: _
    """
    case = ob.case()
    bad, classes, _n = _stage1(case)
    for b in bad:
        _note(*b)
    good = not bad
    if classes and not _check_matcher_classes(case, classes, dict(A=v0, B=v1, C=v2, D=v3), 0, ()):
        good = False
    return ob.post(good)


def k_int(x: int, k0: int, k1: int, k2: int, v0: bool, v1: bool) -> bool:
    """
    post: _
    """
    from vsym import xly
    case = ob.case()
    bad, classes, _n = _stage1(case)
    for b in bad:
        _note(*b)
    good = not bad
    xly.install_int_placeholders([k0, k1, k2])
    if classes and not _check_matcher_classes(case, classes, dict(A=v0, B=v1), x, (k0, k1, k2)):
        good = False
    return ob.post(good)


def k_ctx(a0: bool, a1: bool, b0: bool, b1: bool, c: bool, p: bool, q: bool) -> bool:
    """
    post: _
    """
    from harness import _C06_real as X
    case = ob.case()
    bad, classes, _n = _stage1(case)
    for b in bad:
        _note(*b)
    good = not bad
    bug = case.get('oracle_bug')
    with X.concrete():
        prims = [X.ctx_primitive(sdv, TEXT_LEAVES, LINE_LEAVES) for sdv, _tree, _src in classes]
    verdicts = dict(A=(a0, a1), B=(b0, b1), C=(c, c), P=(p, p), Q=(q, q))
    for n in verdicts:
        X.CTX_VERDICTS[n] = verdicts[n]
    for i, (sdv, tree, src) in enumerate(classes):
        asked = []
        # seeded oracle error 'no-transform': the oracle forgets that `-transformed-by T` transforms the model
        want = R.ref_eval_ctx(tree, (), lambda n, transformed: verdicts[n][1 if transformed else 0], asked,
                              transforms=(bug != 'no-transform'))
        for _application in (1, 2):  # the parsed object denotes a function: apply it to two (equal) models
            del X.CTX_LOG[:]
            got = prims[i].matches_w_trace(X.TaggedText()).value
            if bool(got) != bool(want) or X.CTX_LOG != asked:
                good = False
                _note('value / asking order / model seen differs', src, 'got', bool(got), list(X.CTX_LOG), 'want', bool(want), asked)
    return ob.post(good)


def k_trans(i0: bool, i1: bool, i2: bool, i3: bool, t0: int, t1: int, t2: int, t3: int) -> bool:
    """
    post: _
    """
    from harness import _C06_real as X
    case = ob.case()
    bad, classes, _n = _stage1(case)
    for b in bad:
        _note(*b)
    good = not bad
    ident = dict(A=i0, B=i1, C=i2, D=i3)
    tag = dict(A=t0, B=t1, C=t2, D=t3)
    syms = X.transformer_symbols(STUB_NAMES, (t0, t1, t2, t3), (i0, i1, i2, i3))
    for sdv, tree, src in classes:
        t = X.transformer_primitive(sdv, syms)
        got = t.transform(())
        order = R.ref_leaves(tree)
        if case.get('oracle_bug') == 'right-to-left':
            order = list(reversed(order))  # seeded oracle error: `a | b` = a after b
        want = tuple(tag[n] for n in order if not ident[n])
        if got != want:
            good = False
            _note('output differs', src)
        # the parsed object denotes a function: applied to a second, different model it transforms that one too
        got2 = t.transform(('m',))
        if got2 != ('m',) + want:
            good = False
            _note('second application (to another model): output differs', src)
        if bool(t.is_identity_transformer) != all(ident[n] for n in order):
            good = False
            _note('is_identity_transformer differs', src)
    return ob.post(good)


# --------------------------------------------------------------------------- obligations

def _tokname(t):
    return {NL: 'NL', '&&': 'and', '||': 'or', '(': 'lp', ')': 'rp', '!': 'not', '|': 'seq'}.get(t, t)


def _leafdoc(host):
    if host == 'transformer':
        return 'every is-identity flag and every integer tag of the leaf transformers (symbolic)'
    return 'every verdict of the leaves A, B, .. (symbolic)'


def _k2_obligations(tier) -> List[Ob]:
    obs = []

    def add(host, prefix, maxlen, timeout, shorter=False, quoted=None, **extra):
        alphabet = K2_ALPHABET_T if host == 'transformer' else K2_ALPHABET_M
        if quoted == 'ext':
            alphabet = alphabet + tuple(q for t in _quotable(host) for q in quoted_forms(t))
        case = dict(family='K2', host=host, alphabet=alphabet, prefix=tuple(prefix), maxlen=maxlen, shorter=shorter)
        if quoted:
            case['quoted'] = quoted
        case.update(extra)
        n = sum(1 for _ in _k2_strings_of(case))
        what = ('all %d token strings of < %d tokens' % (n, len(prefix))) if shorter else (
            'all %d token strings of <= %d tokens that start with [%s]' % (n, maxlen, ' '.join(_tokname(t) for t in prefix)))
        if quoted == 'one':
            what = ('%d token strings: every token string of <= %d tokens that starts with [%s], with exactly one operator / '
                    'parenthesis / symbol-name token replaced by its soft-quoted ("..") or hard-quoted (\'..\') form'
                    % (n, maxlen, ' '.join(_tokname(t) for t in prefix)))
        name = 'K2%s:%s:%s%s' % ({None: '', 'one': 'q1', 'ext': 'q'}[quoted], host,
                                 'short' if shorter else ('-'.join(_tokname(t) for t in prefix) or 'all'),
                                 ''.join(':' + str(v) for v in extra.values()))
        obs.append(Ob(
            name=name, fn='k_trans' if host == 'transformer' else 'k_bool', case=case, kernel='K2',
            bound='%s host: %s over {%s} (catalogue enumerated by the harness; single blanks between tokens), parsers '
                  'full/simple x on-current-line/any-line; %s' % (host, what, ', '.join(_tokname(t) for t in alphabet), _leafdoc(host)),
            timeout=timeout, per_path_timeout=timeout,
            expect=ob.REFUTE if extra.get('oracle_bug') else ob.CONFIRM,
            real=_real_for(host), stubs=((STUB_TLEAF,) if host == 'transformer' else (STUB_LEAF, STUB_MODEL)) + (STUB_NOTRACE,),
            outside=(OUT_PRIMS, OUT_TOKENIZER),
            entry='%s.parsers(b).full|simple .parse_from_token_parser' % PARSER_MODULE[host]))

    if tier == 'quick':
        for f in K2_ALPHABET_M:
            add('integer', (f,), 5, 300)
        for host in ('line', 'string', 'file', 'files'):
            add(host, (), 4, 300)
        add('transformer', (), 5, 300)
    else:
        for f in K2_ALPHABET_M:
            for g in K2_ALPHABET_M:
                if f not in ('(', 'A', '!'):
                    add('integer', (f, g), 7, 600)
        add('integer', ('A', 'A'), 7, 300, shorter=True)
        for f in ('(', 'A', '!'):  # the longest strings: after an opening parenthesis, an operand, a negation
            for g in K2_ALPHABET_M:
                add('integer', (f, g), 8, 1800)
        for host in ('line', 'string', 'file', 'files'):
            for f in K2_ALPHABET_M:
                add(host, (f,), 6, 600)
        for f in K2_ALPHABET_T:
            for g in K2_ALPHABET_T:
                add('transformer', (f, g), 8, 1200)
        add('transformer', ('A', 'A'), 8, 300, shorter=True)
    # quoted operator / parenthesis tokens: "||", '(' .. are never operators or parentheses
    if tier == 'quick':
        add('integer', (), 3, 300, quoted='ext')
        add('integer', (), 4, 300, quoted='one')
        for host in ('line', 'string', 'file', 'files'):
            add(host, (), 2, 300, quoted='ext')
        add('transformer', (), 3, 300, quoted='ext')
        add('transformer', (), 4, 300, quoted='one')
    else:
        for f in K2_ALPHABET_M:
            add('integer', (f,), 4, 600, quoted='ext')
            add('integer', (f,), 6, 1200, quoted='one')
        for host in ('line', 'string', 'file', 'files'):
            add(host, (), 3, 600, quoted='ext')
            add(host, (), 4, 600, quoted='one')
        for f in K2_ALPHABET_T:
            add('transformer', (f,), 4, 600, quoted='ext')
            add('transformer', (f,), 6, 1200, quoted='one')
    add('integer', ('A',), 3, 300, quoted='one', oracle_bug='soft-quoted-is-operator')
    add('integer', ('A', '||', 'B', '&&'), 5, 300, oracle_bug='precedence')
    add('integer', ('A',), 3, 300, oracle_bug='eager')
    add('transformer', ('A',), 3, 300, oracle_bug='right-to-left')
    return obs


REAL_DEF = (
    'exactly_lib.impls.instructions.multi_phase.define_symbol.parser.EmbryoParser.parse',
    'exactly_lib.impls.instructions.multi_phase.define_symbol.parser._parse',
    'exactly_lib.impls.instructions.multi_phase.define_symbol.type_parser',
    'exactly_lib.section_document.element_parsers.token_stream_parser.TokenParser.report_superfluous_arguments_if_not_at_eol',
)
OUT_NEAR = ('near-miss operator tokens other than strings of <= 3 characters of {&, |, !} and the quoted operators '
            '(e.g. an operator glued to an operand, `&&B`: token boundaries are C09)')


def _k2n_obligations(tier) -> List[Ob]:
    """K2n1 / K2nc: malformed / near-miss operator tokens at every operator position."""
    from harness import _C06_real as X
    obs = []
    thorough = tier == 'thorough'

    def mk(name, host, case, what, timeout):
        case = dict(case, family='K2', host=host)
        near = case['near_tokens']
        obs.append(Ob(
            name=name, fn='k_trans' if host == 'transformer' else 'k_bool', case=case, kernel='K2',
            bound='%s host: %s; near-miss operator tokens (none is an operator of the %s grammar): {%s}; tokens separated by single '
                  'blanks (catalogue enumerated by the harness); parsers full/simple x on-current-line/any-line: same accept / reject / '
                  'exact unconsumed rest as the reference recogniser (a near-miss token is neither an operator nor an operand: the '
                  'expression ends before it, or a mandatory operand is missing), AND the whole-text route `def %s M = TEXT`: syntax '
                  'error unless the documented grammar derives the whole text up to the line end; %s' % (
                      host, what, 'transformer' if host == 'transformer' else 'matcher', '  '.join(near),
                      X.DEF_TYPE[host], _leafdoc(host)),
            timeout=timeout, per_path_timeout=timeout,
            expect=ob.REFUTE if case.get('oracle_bug') else ob.CONFIRM,
            real=_real_for(host, REAL_DEF), stubs=((STUB_TLEAF,) if host == 'transformer' else (STUB_LEAF, STUB_MODEL)) + (STUB_NOTRACE,),
            outside=(OUT_PRIMS, OUT_TOKENIZER, OUT_NEAR),
            entry='%s.parsers(b).full|simple .parse_from_token_parser; define_symbol.parser.EmbryoParser.parse' % PARSER_MODULE[host]))

    def one(host, prefix, maxlen, chars, timeout, near_maxlen=3, **extra):
        alphabet = K2_ALPHABET_T if host == 'transformer' else K2_ALPHABET_M
        case = dict(alphabet=alphabet, prefix=tuple(prefix), maxlen=maxlen, shorter=False, near='one',
                    near_tokens=near_tokens(host, chars, near_maxlen))
        case.update(extra)
        n = sum(1 for _ in _k2_strings_of(dict(case, host=host)))
        mk('K2n1:%s:%s%s' % (host, '-'.join(_tokname(t) for t in prefix) or 'all', ''.join(':' + str(v) for v in extra.values())),
           host, case,
           '%d token strings: every token string of <= %d tokens over {%s} that starts with [%s], with exactly one operator token '
           '(infix or prefix) replaced by a near-miss operator token' % (
               n, maxlen, ', '.join(_tokname(t) for t in alphabet), ' '.join(_tokname(t) for t in prefix)), timeout)

    def chain(host, name, leaves, depth, wrappers, nl, chars, timeout, nparts=1, **extra):
        trees = dict(leaves=leaves, depth=depth, wrappers=wrappers)
        if host == 'transformer':
            trees.update(ops=('|',), wrapper_kinds=('P',))
        for part in range(nparts):
            case = dict(trees=trees, layout=dict(nl=nl), part=(part, nparts), near='chain',
                        near_tokens=near_tokens(host, chars, quoted=True))
            case.update(extra)
            mk('K2nc:%s:%s%s%s' % (host, name, (':p%d' % part) if nparts > 1 else '', ''.join(':' + str(v) for v in extra.values())),
               host, case,
               '%d trees (part %d/%d): every tree over the leaves %s in this order, nesting <= %d, <= %d nodes of kind %s (chains of up '
               'to %d operators, with needed and redundant parentheses); in its rendering (a) each single operator position - infix or '
               'prefix - and (b) all infix operator positions at once carry a near-miss token or a quoted operator; the unchanged '
               'rendering is the control; every placement of <= %d line breaks at ANY gap' % (
                   len(_k1_trees(dict(case, host=host))), part + 1, nparts,
                   ' / '.join('{' + ', '.join(ls) + '}' for ls in leaves), depth, wrappers,
                   'redundant ( )' if host == 'transformer' else '`!` / redundant ( )', max(len(ls) for ls in leaves) - 1, nl), timeout)

    L23 = [('A', 'B'), ('A', 'B', 'C')]
    L4 = [('A', 'B', 'C', 'D')]
    AP = ('&', '|')         # `&`, `|`, `&|`, `|&`, `&&&`, `|||`, .. (quick tier, catalogue of all strings)
    APN = R.OPERATOR_CHARS  # additionally `!!`, `&&!`, `!&&`, `!|`, ..
    for host in ('integer', 'line', 'string', 'file', 'files', 'transformer'):
        t = host == 'transformer'
        if not thorough:
            # the integer host carries the large token sets; the other hosts (same grammar object, other primitives) the small ones
            big = host == 'integer'
            one(host, (), 4, AP, 300, near_maxlen=3 if big or t else 2)
            chain(host, 'n2-3', L23, 3, 1, 1, APN if big or t else AP, 300)
            chain(host, 'n4', L4, 2, 1 if big or t else 0, 0, APN if big or t else AP, 300)
        else:
            for f in (K2_ALPHABET_T if t else K2_ALPHABET_M):
                one(host, (f,), 6 if t else 5, APN if host == 'integer' else AP, 1200)
            chain(host, 'n2-3', L23, 3, 2, 2, APN if host == 'integer' or t else AP, 1800, nparts=2)
            chain(host, 'n4', L4, 3, 1, 1, APN if host == 'integer' or t else AP, 1800, nparts=4)
    one('integer', ('A',), 3, AP, 300, oracle_bug='near-miss-is-operator')
    chain('integer', 'seeded', [('A', 'B', 'C')], 1, 0, 0, AP, 300, oracle_bug='near-miss-is-operator')
    return obs


WITNESS_A = (('(', 'A', '||', 'B', NL, '&&', 'A', ')'), ('(', 'A', '||', 'B', NL, '&&'))
WITNESS_B = (('A', NL, '&&', 'B'), ('A', NL, '&&'))


def _witness_obligations() -> List[Ob]:
    obs = []
    for name, strings, region in (('and-after-or-inside-parens', WITNESS_A, REGION_A),
                                  ('and-on-new-line-outside-parens', WITNESS_B, REGION_B)):
        obs.append(Ob(
            name='K2:witness:' + name, fn='k_bool', kernel='K2',
            case=dict(family='W', host='integer', strings=strings),
            bound='integer host: the token strings %s (the whole of it lies in region %s)' % (
                ' ; '.join(' '.join(_tokname(t) for t in ts) for ts in strings), region),
            timeout=330, real=_real_for('integer'), stubs=(STUB_LEAF, STUB_NOTRACE), outside=(OUT_PRIMS, OUT_TOKENIZER),
            entry='parse_integer_matcher.parsers(b).full|simple .parse_from_token_parser'))
    return obs


def _k1_obligations(tier) -> List[Ob]:
    obs = []

    def add(family, host, name, fn, trees, layout, timeout, nparts=1, extra_real=(), stubs=(), **extra):
        for part in range(nparts):
            case = dict(family=family, host=host, trees=trees, layout=layout, part=(part, nparts))
            case.update(extra)
            n_trees = len(_k3_trees(case) if family == 'K3' else _k3b_trees(case) if family == 'K3b' else _k1_trees(case))
            leaves = ' / '.join('{' + ', '.join(ls) + '}' for ls in trees['leaves']) if trees else ''
            lay = 'every placement of <= %d line breaks at ANY gap between tokens' % layout.get('nl', 0)
            if layout.get('nlkinds'):
                lay += ', single line breaks with blanks before / indentation after / doubled'
            if layout.get('ws'):
                lay += ', single extra blanks / tabs at every gap, before and after the expression'
            if layout.get('lead'):
                lay += ', line breaks before the expression'
            if family == 'K3':
                shape = '%d line-matcher trees over `line-num INTEGER-MATCHER` and stub leaves' % n_trees
            elif family == 'K3b':
                shape = ('%d text-matcher trees (part %d/%d) over %s applied to one SIMPLE expression, combined with `!`, `&&`, `||`, '
                         'parentheses and stub leaves A, B, C (text) / P, Q (line)' % (
                             n_trees, part + 1, nparts,
                             '`-transformed-by T`' if extra['ctx'] == 'X' else '`every line :` / `any line :` (and `-transformed-by T`)'))
            else:
                shape = '%d trees (part %d/%d): every tree over the leaves %s in this order, nesting <= %d, <= %d nodes of kind %s' % (
                    n_trees, part + 1, nparts, leaves, trees['depth'], trees['wrappers'],
                    ' / '.join({'!': '`!`', 'P': 'redundant ( )'}[w] for w in trees.get('wrapper_kinds', ('!', 'P'))))
            sym = _leafdoc(host) if fn != 'k_int' else 'every integer K_i, every model integer x, every verdict of the stub leaves (symbolic)'
            if fn == 'k_ctx':
                sym = ('every verdict of A and B on the original and on the transformed text, of C, P, Q (symbolic); compared: value, '
                       'asking order and the model each leaf was asked about, on two applications')
            obs.append(Ob(
                name='%s:%s:%s%s' % (family, host, name, (':p%d' % part) if nparts > 1 else ''), fn=fn, case=case, kernel=family,
                bound='%s host: %s; layouts: %s; parsers full/simple x on-current-line/any-line (catalogue enumerated by the harness); %s' % (
                    host, shape, lay, sym),
                timeout=timeout, per_path_timeout=timeout,
                expect=ob.REFUTE if extra.get('oracle_bug') else ob.CONFIRM,
                real=_real_for(host, extra_real), stubs=tuple(stubs) + (STUB_NOTRACE,),
                outside=(OUT_PRIMS, OUT_TOKENIZER, OUT_SIMPLE),
                entry='%s.parsers(b).full|simple .parse_from_token_parser' % PARSER_MODULE[host]))

    M = (STUB_LEAF, STUB_MODEL)
    L12 = [('A',), ('A', 'B')]
    L3 = [('A', 'B', 'C')]
    L4 = [('A', 'B', 'C', 'D')]
    full_layout = dict(nl=2, nlkinds=True, ws=True, lead=True)
    thorough = tier == 'thorough'

    # ---- K1: stub leaves
    add('K1', 'integer', 'n1-2', 'k_bool', dict(leaves=L12 + [('@[A]@', 'B')], depth=3, wrappers=3 if thorough else 2),
        dict(nl=4 if thorough else 3, nlkinds=True, ws=True, lead=True), 1200 if thorough else 600, nparts=4 if thorough else 1, stubs=M)
    if not thorough:
        add('K1', 'integer', 'n3:w1', 'k_bool', dict(leaves=L3, depth=3, wrappers=1), full_layout, 600, nparts=2, stubs=M)
        add('K1', 'integer', 'n3:w2', 'k_bool', dict(leaves=L3, depth=3, wrappers=2), dict(nl=1), 600, nparts=2, stubs=M)
        for host in ('line', 'string', 'file', 'files'):
            add('K1', host, 'n1-3', 'k_bool', dict(leaves=L12 + L3, depth=3, wrappers=1), dict(nl=1, lead=True), 600, stubs=M)
    else:
        add('K1', 'integer', 'n3:w2', 'k_bool', dict(leaves=L3, depth=3, wrappers=2),
            dict(nl=3, nlkinds=True, ws=True, lead=True), 3000, nparts=12, stubs=M)
        add('K1', 'integer', 'n4:w1', 'k_bool', dict(leaves=L4, depth=3, wrappers=1), dict(nl=2, lead=True), 3000, nparts=8, stubs=M)
        add('K1', 'integer', 'n4:w2', 'k_bool', dict(leaves=L4, depth=3, wrappers=2), dict(nl=2), 3000, nparts=24, stubs=M)
        for host in ('line', 'string', 'file', 'files'):
            add('K1', host, 'n1-3', 'k_bool', dict(leaves=L12 + L3, depth=3, wrappers=2), dict(nl=2, ws=True, lead=True), 3000,
                nparts=4, stubs=M)
    add('K1', 'integer', 'seeded:eager', 'k_bool', dict(leaves=L12, depth=2, wrappers=1), dict(nl=1), 300, stubs=M, oracle_bug='eager')
    add('K1', 'integer', 'seeded:value', 'k_bool', dict(leaves=L12, depth=2, wrappers=1), dict(nl=1), 300, stubs=M, oracle_bug='value')

    # ---- K1c: comparison / constant leaves (integer host)
    C = (STUB_LEAF, STUB_INT)
    sets2 = [('== K0', '!= K1'), ('< K0', '<= K1'), ('> K0', '>= K1'), ('constant true', '== K0'), ('A', 'constant false')]
    sets3 = [('== K0', '> K1', '<= K2'), ('!= K0', 'A', '< K1'), ('constant true', '>= K0', 'B')]
    add('K1c', 'integer', 'n2', 'k_int', dict(leaves=sets2, depth=3, wrappers=2 if thorough else 1),
        dict(nl=2 if thorough else 1, lead=True), 1200, extra_real=REAL_INT, stubs=C, nparts=4 if thorough else 1)
    for i, ls in enumerate(sets3 if thorough else sets3[:2]):
        add('K1c', 'integer', 'n3:%d' % i, 'k_int', dict(leaves=[ls], depth=3, wrappers=2 if thorough else 1),
            dict(nl=1), 3000 if thorough else 1200, extra_real=REAL_INT, stubs=C, nparts=4 if thorough else 1)
    add('K1c', 'integer', 'seeded:lt-for-le', 'k_int', dict(leaves=[('< K0', '<= K1')], depth=2, wrappers=1), dict(nl=0), 300,
        extra_real=REAL_INT, stubs=C, oracle_bug='lt-for-le')

    # ---- K1t: text transformers
    T = (STUB_TLEAF,)
    tt = dict(leaves=L12 + L3 + L4, depth=3, wrappers=2, ops=('|',), wrapper_kinds=('P',))
    add('K1t', 'transformer', 'n1-4', 'k_trans', tt, dict(nl=3 if thorough else 2, nlkinds=True, ws=True, lead=True),
        3000 if thorough else 1200, nparts=4 if thorough else 2, stubs=T)
    add('K1t', 'transformer', 'seeded:right-to-left', 'k_trans', dict(leaves=L12, depth=2, wrappers=1, ops=('|',), wrapper_kinds=('P',)),
        dict(nl=0), 300, stubs=T, oracle_bug='right-to-left')

    # ---- K3: line-num INTEGER-MATCHER (simple context) inside line-matcher expressions
    for i, cmp_ in enumerate([('== K0', '> K1'), ('<= K0', '!= K1')] if thorough else [('== K0', '> K1')]):
        add('K3', 'line', 'line-num:%d' % i, 'k_int', None, dict(nl=2 if thorough else 1, lead=True), 3000 if thorough else 1200,
            nparts=4 if thorough else 2, extra_real=REAL_INT + REAL_LINE_NUM, stubs=C, cmp=cmp_,
            malformed=tuple(m.format(*cmp_) for m in K3_MALFORMED))
    # ---- K3b: simple contexts of the text matcher
    B3 = (STUB_CTX, STUB_NOTRACE)
    for ctx in ('X', 'Q'):
        add('K3b', 'string', {'X': 'transformed-by', 'Q': 'line-quantifiers'}[ctx], 'k_ctx', None,
            dict(nl=2 if thorough else 1, lead=True, ws=thorough), 1200, nparts=4 if thorough else 1,
            extra_real=REAL_CTX, stubs=B3[:1], ctx=ctx, malformed=K3B_MALFORMED, small=not thorough)
    add('K3b', 'string', 'seeded:no-transform', 'k_ctx', None, dict(nl=0), 300, extra_real=REAL_CTX, stubs=B3[:1],
        ctx='X', oracle_bug='no-transform', small=True, part=(0, 4))
    add('K3', 'line', 'seeded:lt-for-le', 'k_int', None, dict(nl=0), 300, extra_real=REAL_INT + REAL_LINE_NUM, stubs=C,
        cmp=('<= K0', '< K1'), oracle_bug='lt-for-le', part=(0, 8))
    return obs


def _k4_obligations(tier) -> List[Ob]:
    obs = []
    for host in ('line', 'string', 'file', 'files', 'transformer'):
        for bug in (None,) + (('other-form',) if host == 'string' else ()):
            case = dict(family='K4', host=host)
            if bug:
                case['oracle_bug'] = bug
            obs.append(Ob(
                name='K4:%s%s' % (host, ':seeded:' + bug if bug else ''), fn='k_trans' if host == 'transformer' else 'k_bool',
                case=case, kernel='K4',
                bound='%s host, PARSE LEVEL ONLY (nothing symbolic: the models of these primitives are files / directories): the forms %s '
                      '(` @ ` = between the keyword of a primitive that nests another expression and that expression), alone and as %s; '
                      'every non-empty subset of the marked positions x line break in {LF, blank LF indentation, LF LF}; parsers full/simple x '
                      'on-current-line/any-line; the result has the same complete object state as for the same text on one line' % (
                          host, ' ; '.join('`%s`' % f for f in K4_FORMS[host]),
                          ' / '.join('`%s`' % w.replace('\n', '<LF>').format('..') for w in _k4_wraps(host)[1:])),
                timeout=300, expect=ob.REFUTE if bug else ob.CONFIRM, selector=True,
                real=_real_for(host, K4_REAL[host]), stubs=(STUB_NOTRACE,),
                outside=('the VALUE of the primitives of K4 (file- and directory-backed models: C05, C15); `exit-code`, `run` '
                         '(instruction / program syntax)',),
                entry='%s.parsers(b).full|simple .parse_from_token_parser' % PARSER_MODULE[host]))
    return obs


K4_REAL = {
    'line': ('exactly_lib.impls.types.line_matcher.impl.line_number.parse_line_number',
             'exactly_lib.impls.types.integer_matcher.parse_integer_matcher.parsers'),
    'string': ('exactly_lib.impls.types.string_matcher.parse.num_lines.parse',
               'exactly_lib.impls.types.integer_matcher.parse_integer_matcher.parsers',
               'exactly_lib.impls.types.string_matcher.parse_string_matcher._parse_on_transformed',
               'exactly_lib.impls.types.matcher.impls.parse_quantified_matcher.parse_after_quantifier_token'),
    'file': ('exactly_lib.impls.types.file_matcher.parse_file_matcher._parse_regular_file_contents',
             'exactly_lib.impls.types.file_matcher.parse_file_matcher._parse_dir_contents'),
    'files': ('exactly_lib.impls.types.files_matcher.parse_files_matcher',
              'exactly_lib.impls.types.matcher.impls.parse_quantified_matcher.parse_after_quantifier_token'),
    'transformer': ('exactly_lib.impls.types.string_transformer.impl.filter.parse',),
}


def obligations(tier: str) -> List[Ob]:
    return _k1_obligations(tier) + _k2_obligations(tier) + _k2n_obligations(tier) + _k4_obligations(tier) + _witness_obligations()


def selftest(tier: str) -> int:
    """Concrete validation of the reference oracle and of the harness's own machinery (not part of the deciding step)."""
    from harness import _C06_real as X
    n = 0
    # (1) the evaluation oracle agrees with Python's own `not` > `and` > `or`, lazy, left to right
    py = {'&&': 'and', '||': 'or', '!': 'not', '(': '(', ')': ')'}
    trees = []
    for leaves in (('A',), ('A', 'B'), ('A', 'B', 'C'), ('A', 'B', 'C', 'D')):
        trees += list(R.gen_trees(leaves, 3, 2 if len(leaves) < 4 else 1))
    for t in trees:
        toks = R.tree_tokens(t)
        expr = ' '.join(py.get(u, "f('%s')" % u) for u in toks)
        code = compile(expr, '<c06>', 'eval')
        names = R.ref_leaves(t)
        for vals in itertools.product((False, True), repeat=len(names)):
            env = dict(zip(names, vals))
            asked_py = []

            def f(name):
                asked_py.append(name)
                return env[name]

            want = bool(eval(code, dict(f=f)))
            asked = []
            got = R.ref_eval(t, env.get, asked)
            if got != want or asked != asked_py:
                raise AssertionError('ref_eval differs from Python on %r %r' % (expr, env))
            n += 1
        # (2) the reference recogniser reads the minimal rendering of a tree as that tree, leaving nothing
        r = R.ref_parse(toks, R.MATCHER_LEVELS, R.MATCHER_PREFIX, STUB_NAMES, False, True)
        if r[0] != 'ok' or r[2] != len(toks) or R.freeze(r[1]) != R.freeze(R.strip_p(t)):
            raise AssertionError('ref_parse does not invert tree_tokens on %r: %r' % (toks, r))
        # ... and under every permitted layout of the K1 catalogue
        for gaps, permitted in _layouts(toks, dict(nl=2)):
            if permitted:
                ltoks, _src = _with_gaps(toks, gaps)
                r = R.ref_parse(ltoks, R.MATCHER_LEVELS, R.MATCHER_PREFIX, STUB_NAMES, False, True)
                if r[0] != 'ok' or r[2] != len(ltoks) or R.freeze(r[1]) != R.freeze(R.strip_p(t)):
                    raise AssertionError('ref_parse: a permitted layout changes the reading: %r: %r' % (ltoks, r))
                n += 1
    for leaves in (('A', 'B'), ('A', 'B', 'C')):
        for t in R.gen_trees(leaves, 3, 2, ops=('|',), wrapper_kinds=('P',)):
            toks = R.tree_tokens(t)
            r = R.ref_parse(toks, R.TRANSFORMER_LEVELS, R.TRANSFORMER_PREFIX, STUB_NAMES, False, True)
            if r[0] != 'ok' or r[2] != len(toks) or R.freeze(r[1]) != R.freeze(R.strip_p(t)):
                raise AssertionError('ref_parse (transformer) does not invert tree_tokens on %r: %r' % (toks, r))
            n += 1
    # (3) fingerprints: equal for readings that are the same object state, different otherwise
    #     (validates the fingerprint function, not the parser: a reading that the parser under test rejects is skipped)
    def fp(host, src):
        r = X._real_parse(host, False, False, src)
        return X.fingerprint(r[1], X.OPAQUE) if r[0] == 'ok' and r[3].strip() == '' else None

    def same(a, b, expected: bool, what):
        if a is not None and b is not None and (a == b) != expected:
            raise AssertionError('fingerprint: %s' % (what,))

    for host in X.MATCHER_HOSTS:
        same(fp(host, 'A && B'), fp(host, '(  A &&\n B )'), True, host)
        for other in ('A || B', 'B && A', 'A && ! B', 'A && B && A', 'A'):
            same(fp(host, 'A && B'), fp(host, other), False, (host, other))
        n += 6
    same(fp('transformer', 'A | B'), fp('transformer', 'B | A'), False, 'transformer')
    same(fp('transformer', 'A | B'), fp('transformer', '( A |\n B )'), True, 'transformer')
    same(fp('integer', '== 1 && A'), fp('integer', '== 2 && A'), False, 'comparison operand')
    same(fp('integer', '== 1 && A'), fp('integer', '!= 1 && A'), False, 'comparison operator')
    n += 4
    # (4) table-backed stub leaves behave as leaves with fixed verdicts
    for host in X.MATCHER_HOSTS:
        for src in ('A && B || ! C', '! ( A || B ) && C', 'A || B && C'):
            r = X._real_parse(host, False, False, src)
            if r[0] != 'ok':
                continue
            sdv = r[1]
            for vals in itertools.product((False, True), repeat=3):
                log = []
                m1 = X.matcher_primitive(sdv, X.matcher_symbols(host, ('A', 'B', 'C'), vals, log))
                r1 = m1.matches_w_trace(X.model_for(host)).value
                del X.LOG[:]
                X.VERDICTS.update(zip(('A', 'B', 'C'), vals))
                r2 = X.table_primitive(host, ('A', 'B', 'C'), sdv).matches_w_trace(X.model_for(host)).value
                if r1 != r2 or log != X.LOG:
                    raise AssertionError('table-backed leaves differ on %s %r' % (src, vals))
                n += 1
    # (5) the region predicates hold on their witnesses and not on near misses
    for toks in WITNESS_A:
        assert in_region_a(toks) and not in_region_b(toks)
    for toks in WITNESS_B:
        assert in_region_b(toks) and not in_region_a(toks)
    assert not in_region_a(('(', 'A', NL, '&&', 'B', ')')) and not in_region_a(('(', 'A', '||', 'B', '&&', NL, 'A', ')'))
    assert not in_region_b(('(', 'A', NL, '&&', 'B', ')')) and not in_region_b(('A', '&&', NL, 'B'))
    assert not in_region_b(('A', '||', 'B', NL, '&&', 'A'))
    n += 8
    # (6) near-miss operator tokens: none is an operator of the host's grammar; the single characters, the tripled forms and
    #     the operators of the other grammar are among them; the whole-text route reads a well-formed text as the expression parser does
    for host in X.ALL_HOSTS:
        near = near_tokens(host, R.OPERATOR_CHARS, quoted=True)
        ops = host_operators(host)
        assert not set(near) & set(ops) and len(set(near)) == len(near)
        assert {'&', '&&&', '|||', '&|', '!!', '"%s"' % ops[0]} <= set(near)
        assert set(('&&', '||', '!') if host == 'transformer' else ('|',)) <= set(near)
        src = 'A | ( B | A )' if host == 'transformer' else 'A && ( B || ! A )'
        d = X.real_def_parse(host, src)
        r = X._real_parse(host, False, False, src)
        assert d[0] == 'ok' and r[0] == 'ok' and X.fingerprint(d[1], X.OPAQUE) == X.fingerprint(r[1], X.OPAQUE)
        assert X.real_def_parse(host, src + ' )')[0] == 'err' and X.real_def_parse(host, src + '\n)')[0] == 'ok'
        n += 6
    return n


def diagnose(obname: str, tier: str, args_src: str, excluded=()):
    """Prints what differs for one obligation on concrete arguments (debugging aid; not part of the check)."""
    for o in obligations(tier):
        if o.name == obname:
            ob.set_context(o.case, excluded, False)
            fn = globals()[o.fn]
            del _DIAG[:]
            r = eval('fn(%s)' % args_src, dict(fn=fn))
            bad, classes, n = _stage1(o.case)
            print('holds:', r, ' items: %d  concrete disagreements: %d  classes evaluated symbolically: %d' % (n, len(bad), len(classes)))
            for d in _DIAG:
                print('  ', d)
            return
    raise SystemExit('no such obligation')


ASSUMPTIONS = [
    'the reference recogniser harness/_C06_ref.py states the documented grammar and layout rule: `!` > `&&` > `||`; `|` left to right; '
    'a line break is permitted anywhere inside parentheses and, outside parentheses, only after an infix operator or `!` '
    '(help: "line ends mark the end of elements, although some may span several lines (e.g. expressions inside parentheses)")',
    'stub leaves are the "programs" quantified over: matchers / transformers of classes unknown to exactly_lib bound to symbols',
    'parser results with equal complete object state (type and instance attributes, recursively; functions by identity) behave equally: '
    'one representative per (state, expected tree) is resolved and applied symbolically',
]

OUTSIDE = [
    OUT_PRIMS, OUT_TOKENIZER, OUT_SIMPLE, OUT_NEAR,
    'expressions larger than the stated bounds (no induction over the size of the expression)',
]

if __name__ == '__main__':
    import sys
    diagnose(sys.argv[1], sys.argv[2], sys.argv[3], tuple(x for x in (sys.argv[4] if len(sys.argv) > 4 else '').split(',') if x))
