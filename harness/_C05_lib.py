"""Helpers of the C05 harness: expression trees, their concrete syntax, the reference
semantics (typed from the reference manual, independent of exactly_lib) and the builders of
the REAL exactly_lib objects (real parsers on concrete syntax; operands are symbol references
bound to the symbolic values).

Importable under python3-vt (3.11, CrossHair) and /venv/bin/python (3.12): stdlib +
exactly_lib + vsym only.

Expression trees (tuples, concrete per obligation)
  string matcher M:
    ('empty',)                     is-empty
    ('equals',)                    equals @[E]@            E = the symbolic string e
    ('equals-lit', text)           equals <quoted literal>
    ('matches', full, rx)          matches [-full] REGEX   rx = key of REGEXES
    ('numlines', op)               num-lines OP K0         K0 = the symbolic integer k0
    ('every', L) / ('any', L)      every line : L  /  any line : L
    ('not', M) ('and', M, M) ('or', M, M)
    ('on', T, M)                   -transformed-by T M
  line matcher L:
    ('contents', M)                contents M   (M applied to the line without its new-line)
    ('linenum', op)                line-num OP K1          K1 = the symbolic integer k1
    ('U',)                         symbol reference to a line matcher of unknown class whose verdict
                                   on line n is the symbolic bool u[n-1]
    ('not', L) ('and', L, L) ('or', L, L)
  string transformer T:
    ('identity',) ('strip',) ('strip-ts',) ('strip-tnl',) ('upper',) ('lower',)
    ('replace', preserve_nl, L-or-None, rx, repl)   replace [-at L] [-preserve-new-lines] REGEX REPL
                                   repl = 'E' (the symbolic string e, via @[E]@) or a literal
    ('filter', L)  ('grep', rx)
    ('seq', T, T, ...)             T | T | ...
    ('X', i)                       reference to the text-transformer symbol X<i>: a transformer of a class unknown
                                   to exactly_lib that appends the symbolic character marks[i] to the text
    ('ref', NAME, T)               reference to the text-transformer symbol NAME, which is defined as T
                                   (def text-transformer NAME = T)
    ('attach', T, T, ...)          (not syntax) the transformers that `-transformed-by` options attach, one after
                                   the other, to a program: combined by sequence_resolving.resolve
    ('attach-ddv', T, T, ...)      the same, combined at the ddv level by sequence_resolving_ddv.resolve
"""
from typing import Callable, Dict, List, Optional, Sequence, Tuple

OPS = ['==', '!=', '<', '<=', '>', '>=']

ALPHABET = 'abA \t\n.'


# =========================================================================== reference semantics
# The manual: a text is a sequence of lines; every line ends with new-line except possibly
# the last; an empty text has no lines.

def ref_lines(s: str) -> List[str]:
    """The lines of a text, each with its terminating new-line if it has one."""
    out = []
    while s != '':
        i = s.find('\n')
        if i == -1:
            out.append(s)
            break
        out.append(s[:i + 1])
        s = s[i + 1:]
    return out


def ref_line_contents(line: str) -> str:
    """What a line matcher sees: the line without its terminating new-line."""
    if line != '' and line[len(line) - 1] == '\n':
        return line[:len(line) - 1]
    return line


def same_str(a: str, b: str) -> bool:
    """a == b, decided code point by code point.  (Tool work-around: CrossHair 0.0.110's == on two
    SYMBOLIC strings can be wrongly False when one is the result of str.join and the other a
    slice - SymbolicList vs SliceView are compared as list vs tuple.  Comparison with a
    concrete str, and of integers, is not affected.)"""
    n = len(a)
    if n != len(b):
        return False
    for i in range(n):
        if ord(a[i]) != ord(b[i]):
            return False
    return True


def same_lines(xs: Sequence[str], ys: Sequence[str]) -> bool:
    if len(xs) != len(ys):
        return False
    for i in range(len(xs)):
        if not same_str(xs[i], ys[i]):
            return False
    return True


def ref_cmp(op: str, a: int, b: int) -> bool:
    if op == '==':
        return a == b
    if op == '!=':
        return a != b
    if op == '<':
        return a < b
    if op == '<=':
        return a <= b
    if op == '>':
        return a > b
    if op == '>=':
        return a >= b
    raise ValueError(op)


_WS = ' \t\n'


def ref_lstrip(s: str) -> str:
    i = 0
    n = len(s)
    while i < n and s[i] in _WS:
        i += 1
    return s[i:]


def ref_rstrip(s: str, chars: str = _WS) -> str:
    n = len(s)
    while n > 0 and s[n - 1] in chars:
        n -= 1
    return s[:n]


_UP = {'a': 'A', 'b': 'B'}
_LOW = {'A': 'a', 'B': 'b'}


def ref_upper(s: str) -> str:
    return ''.join([_UP.get(c, c) for c in s])


def ref_lower(s: str) -> str:
    return ''.join([_LOW.get(c, c) for c in s])


# ---- the regex family.  Each regex has a hand-written meaning for `search` (matches any part
# of the text) and `fullmatch` (matches the full text) over texts that may contain new-lines
# (no flags: `.` does not match new-line, `$` matches at the end and before a final new-line,
# `^` only at the start).  They are compared with `re` concretely by the self-test.

def _s_lit(lit):
    return lambda s: lit in s


def _f_lit(lit):
    return lambda s: s == lit


def _search_dot(s):
    for c in s:
        if c != '\n':
            return True
    return False


def _full_dot(s):
    return len(s) == 1 and s != '\n'


def _search_ab_plus(s):
    return ('a' in s) or ('b' in s)


def _full_ab_plus(s):
    if s == '':
        return False
    for c in s:
        if c != 'a' and c != 'b':
            return False
    return True


def _full_a_star(s):
    for c in s:
        if c != 'a':
            return False
    return True


def _search_a_end(s):
    return s.endswith('a') or s.endswith('a\n')


def _search_dotstar_full(s):
    return True


def _full_dotstar(s):
    return '\n' not in s


def _search_a_dot(s):
    i = s.find('a')
    while i != -1:
        if i + 1 < len(s) and s[i + 1] != '\n':
            return True
        i = s.find('a', i + 1)
    return False


def _full_a_dot(s):
    return len(s) == 2 and s[0] == 'a' and s[1] != '\n'


def _search_esc_dot(s):
    return '.' in s


#          key        concrete syntax   search                fullmatch
REGEXES: Dict[str, Tuple[str, Callable[[str], bool], Callable[[str], bool]]] = {
    'a': ("a", _s_lit('a'), _f_lit('a')),
    'dot': ("'.'", _search_dot, _full_dot),
    '^a': ("'^a'", lambda s: s.startswith('a'), _f_lit('a')),
    'a$': ("'a$'", _search_a_end, _f_lit('a')),
    'a|b': ("'a|b'", _search_ab_plus, lambda s: s == 'a' or s == 'b'),
    '[ab]+': ("'[ab]+'", _search_ab_plus, _full_ab_plus),
    '.*': ("'.*'", _search_dotstar_full, _full_dotstar),
    'a.': ("'a.'", _search_a_dot, _full_a_dot),
    '\\.': ("'\\.'", _search_esc_dot, _f_lit('.')),
    'ab': ("ab", _s_lit('ab'), _f_lit('ab')),
    'b': ("b", _s_lit('b'), _f_lit('b')),
    # alternation whose FIRST alternative matches a proper prefix of what the second matches: a full
    # match must backtrack into the second alternative (fullmatch != match-then-compare-end)
    'a|ab': ("'a|ab'", _s_lit('a'), lambda s: s == 'a' or s == 'ab'),
    'a|a.': ("'a|a.'", _s_lit('a'), lambda s: s == 'a' or _full_a_dot(s)),
    # lazy quantifier: the first match at position 0 is empty, a full match must extend it (-full only:
    # it matches the empty string)
    'a*?': ("'a*?'", _search_dotstar_full, _full_a_star),
}
REGEX_PATTERN = {'a': 'a', 'dot': '.', '^a': '^a', 'a$': 'a$', 'a|b': 'a|b', '[ab]+': '[ab]+', '.*': '.*',
                 'a.': 'a.', '\\.': '\\.', 'ab': 'ab', 'b': 'b',
                 'a|ab': 'a|ab', 'a|a.': 'a|a.', 'a*?': 'a*?'}

# regexes for which `replace` has a hand-written meaning: every non-overlapping occurrence,
# left to right, is replaced (the manual's "replaces every string matching REGEX")
_REPLACE_LITERAL = {'a': 'a', 'b': 'b', 'ab': 'ab', '\\.': '.'}


def ref_contains(s: str, lit: str) -> bool:
    """lit occurs in s (lit non-empty); decided position by position, see same_str"""
    ll = len(lit)
    for i in range(len(s) - ll + 1):
        if same_str(s[i:i + ll], lit):
            return True
    return False


def ref_replace_in(rx: str, repl: str, s: str, lit_of_symbol: str = '') -> str:
    """`s` with every part matching regex `rx` replaced by `repl` (repl free of backslashes).
    rx == 'E': the regex is the non-empty literal string lit_of_symbol."""
    if rx in _REPLACE_LITERAL or rx == 'E':
        lit = lit_of_symbol if rx == 'E' else _REPLACE_LITERAL[rx]
        out = []
        i = 0
        n = len(s)
        ll = len(lit)
        while i < n:
            if same_str(s[i:i + ll], lit):
                out.append(repl)
                i += ll
            else:
                out.append(s[i])
                i += 1
        return ''.join(out)
    if rx == '[ab]+':
        out = []
        i = 0
        n = len(s)
        while i < n:
            if s[i] == 'a' or s[i] == 'b':
                while i < n and (s[i] == 'a' or s[i] == 'b'):
                    i += 1
                out.append(repl)
            else:
                out.append(s[i])
                i += 1
        return ''.join(out)
    if rx == 'a|b':
        return ''.join([(repl if (c == 'a' or c == 'b') else c) for c in s])
    raise ValueError('no reference meaning of replace for regex %r' % rx)


class Env:
    """The symbolic operands of an expression."""

    def __init__(self, e: str = '', k0: int = 0, k1: int = 0, u: Sequence[bool] = (), marks: str = ''):
        self.e = e
        self.k0 = k0
        self.k1 = k1
        self.u = tuple(u)
        self.marks = marks


def ref_line_matcher(t, n: int, contents: str, env: Env) -> bool:
    k = t[0]
    if k == 'contents':
        return ref_matcher(t[1], contents, env)
    if k == 'linenum':
        return ref_cmp(t[1], n, env.k1)
    if k == 'U':
        return bool(env.u[n - 1])
    if k == 'not':
        return not ref_line_matcher(t[1], n, contents, env)
    if k == 'and':
        for x in t[1:]:
            if not ref_line_matcher(x, n, contents, env):
                return False
        return True
    if k == 'or':
        for x in t[1:]:
            if ref_line_matcher(x, n, contents, env):
                return True
        return False
    raise ValueError(t)


def ref_matcher(t, s: str, env: Env) -> bool:
    k = t[0]
    if k == 'empty':
        return s == ''
    if k == 'equals':
        return same_str(s, env.e)
    if k == 'equals-lit':
        return s == t[1]
    if k == 'matches':
        if t[2] == 'E':
            # REGEX = @[E]@, E a non-empty string of the literal characters a / b
            return same_str(s, env.e) if t[1] else ref_contains(s, env.e)
        _, search, full = REGEXES[t[2]]
        return full(s) if t[1] else search(s)
    if k == 'numlines':
        return ref_cmp(t[1], len(ref_lines(s)), env.k0)
    if k == 'every' or k == 'any':
        n = 0
        for line in ref_lines(s):
            n += 1
            v = ref_line_matcher(t[1], n, ref_line_contents(line), env)
            if k == 'every' and not v:
                return False
            if k == 'any' and v:
                return True
        return k == 'every'
    if k == 'not':
        return not ref_matcher(t[1], s, env)
    if k == 'and':
        for x in t[1:]:
            if not ref_matcher(x, s, env):
                return False
        return True
    if k == 'or':
        for x in t[1:]:
            if ref_matcher(x, s, env):
                return True
        return False
    if k == 'on':
        return ref_matcher(t[2], ref_transformer(t[1], s, env), env)
    raise ValueError(t)


def ref_transformer(t, s: str, env: Env) -> str:
    k = t[0]
    if k == 'identity':
        return s
    if k == 'strip':
        return ref_rstrip(ref_lstrip(s))
    if k == 'strip-ts':
        return ref_rstrip(s)
    if k == 'strip-tnl':
        return ref_rstrip(s, '\n')
    if k == 'upper':
        return ref_upper(s)
    if k == 'lower':
        return ref_lower(s)
    if k == 'replace':
        _, preserve, sel, rx, repl = t
        repl_s = env.e if repl == 'E' else repl
        out = []
        n = 0
        for line in ref_lines(s):
            n += 1
            if sel is not None and not ref_line_matcher(sel, n, ref_line_contents(line), env):
                out.append(line)
            elif preserve and line.endswith('\n'):
                out.append(ref_replace_in(rx, repl_s, line[:len(line) - 1], env.e) + '\n')
            else:
                out.append(ref_replace_in(rx, repl_s, line, env.e))
        return ''.join(out)
    if k == 'filter':
        out = []
        n = 0
        for line in ref_lines(s):
            n += 1
            if ref_line_matcher(t[1], n, ref_line_contents(line), env):
                out.append(line)
        return ''.join(out)
    if k == 'grep':
        if t[1] == 'E':
            return ''.join([line for line in ref_lines(s) if ref_contains(ref_line_contents(line), env.e)])
        search = REGEXES[t[1]][1]
        return ''.join([line for line in ref_lines(s) if search(ref_line_contents(line))])
    if k == 'seq' or k == 'attach' or k == 'attach-ddv':
        for x in t[1:]:
            s = ref_transformer(x, s, env)
        return s
    if k == 'ref':
        return ref_transformer(t[2], s, env)
    if k == 'X':
        return s + env.marks[t[1]]
    raise ValueError(t)


def ref_is_identity(t) -> bool:
    """Is the documented meaning of the transformer expression the identity BY CONSTRUCTION: it is `identity`,
    a composition of such expressions (`identity` is neutral for `|`), or a symbol defined as one."""
    k = t[0]
    if k == 'identity':
        return True
    if k == 'ref':
        return ref_is_identity(t[2])
    if k == 'seq' or k == 'attach' or k == 'attach-ddv':
        for x in t[1:]:
            if not ref_is_identity(x):
                return False
        return True
    return False


def leaves_in_order(t) -> list:
    """The members of a (nested) composition, left to right, compositions and symbol definitions opened up."""
    k = t[0]
    if k == 'ref':
        return leaves_in_order(t[2])
    if k == 'seq' or k == 'attach' or k == 'attach-ddv':
        out = []
        for x in t[1:]:
            out += leaves_in_order(x)
        return out
    return [t]


def instantiate(shape, leaves):
    """shape: a transformer tree whose leaves are position numbers -> the tree with leaves[i] at position i"""
    if isinstance(shape, int):
        return leaves[shape]
    if shape[0] == 'X':
        return shape
    if shape[0] == 'ref':
        return ('ref', shape[1], instantiate(shape[2], leaves))
    return (shape[0],) + tuple(instantiate(x, leaves) for x in shape[1:])


# =========================================================================== concrete syntax

def _quote(text: str) -> str:
    if "'" in text:
        raise ValueError('literal with single quote')
    return "'" + text + "'"


def render_line_matcher(t, simple: bool = True) -> str:
    k = t[0]
    if k == 'contents':
        return 'contents ' + render_matcher(t[1], True)
    if k == 'linenum':
        return 'line-num %s K1' % t[1]
    if k == 'U':
        return 'U'
    if k == 'not':
        return '! ' + render_line_matcher(t[1], True)
    sep = ' && ' if k == 'and' else ' || '
    r = sep.join(render_line_matcher(x, True) for x in t[1:])
    return '( ' + r + ' )' if simple else r


def render_matcher(t, simple: bool = False) -> str:
    k = t[0]
    if k == 'empty':
        return 'is-empty'
    if k == 'equals':
        return 'equals @[E]@'
    if k == 'equals-lit':
        return 'equals ' + _quote(t[1])
    if k == 'matches':
        return 'matches ' + ('-full ' if t[1] else '') + ('@[E]@' if t[2] == 'E' else REGEXES[t[2]][0])
    if k == 'numlines':
        return 'num-lines %s K0' % t[1]
    if k == 'every':
        return 'every line : ' + render_line_matcher(t[1], True)
    if k == 'any':
        return 'any line : ' + render_line_matcher(t[1], True)
    if k == 'not':
        return '! ' + render_matcher(t[1], True)
    if k == 'on':
        return '-transformed-by ' + render_transformer(t[1], True) + ' ' + render_matcher(t[2], True)
    sep = ' && ' if k == 'and' else ' || '
    r = sep.join(render_matcher(x, True) for x in t[1:])
    return '( ' + r + ' )' if simple else r


def render_transformer(t, simple: bool = False) -> str:
    k = t[0]
    if k == 'identity':
        return 'identity'
    if k == 'strip':
        return 'strip'
    if k == 'strip-ts':
        return 'strip -trailing-space'
    if k == 'strip-tnl':
        return 'strip -trailing-new-lines'
    if k == 'upper':
        return 'char-case -to-upper'
    if k == 'lower':
        return 'char-case -to-lower'
    if k == 'replace':
        _, preserve, sel, rx, repl = t
        parts = ['replace']
        if sel is not None:
            parts += ['-at', render_line_matcher(sel, True)]
        if preserve:
            parts.append('-preserve-new-lines')
        parts.append('@[E]@' if rx == 'E' else REGEXES[rx][0] if rx in REGEXES else rx)
        parts.append('@[E]@' if repl == 'E' else _quote(repl))
        return ' '.join(parts)
    if k == 'filter':
        return 'filter ' + render_line_matcher(t[1], True)
    if k == 'grep':
        return 'grep ' + ('@[E]@' if t[1] == 'E' else REGEXES[t[1]][0])
    if k == 'seq':
        r = ' | '.join(render_transformer(x, True) for x in t[1:])
        return '( ' + r + ' )' if simple else r
    if k == 'ref':
        return t[1]
    if k == 'X':
        return 'X%d' % t[1]
    if k == 'attach' or k == 'attach-ddv':
        # not parsed as a whole: each operand is parsed on its own
        return ' '.join('-transformed-by ' + render_transformer(x, True) for x in t[1:])
    raise ValueError(t)


def symbol_definitions(t, acc=None) -> Dict[str, tuple]:
    """NAME -> T of every ('ref', NAME, T) of the tree (a name must have ONE definition)"""
    acc = acc if acc is not None else {}
    if isinstance(t, tuple):
        if t[0] == 'ref':
            if acc.get(t[1], t[2]) != t[2]:
                raise ValueError('harness error: two definitions of the symbol %s' % t[1])
            acc[t[1]] = t[2]
        for x in t[1:]:
            symbol_definitions(x, acc)
    return acc


def uses(t, kind: str) -> bool:
    """does the tree contain a node of the given kind (or the operand 'E')"""
    if not isinstance(t, tuple):
        return False
    if kind == 'E':
        if t[0] == 'equals':
            return True
        if t[0] == 'replace' and (t[4] == 'E' or t[3] == 'E'):
            return True
        if t[0] == 'matches' and t[2] == 'E':
            return True
        if t[0] == 'grep' and t[1] == 'E':
            return True
    elif kind == 'RE':  # a REGEX that is given by the symbol E
        if (t[0] == 'replace' and t[3] == 'E') or (t[0] == 'matches' and t[2] == 'E') or (t[0] == 'grep' and t[1] == 'E'):
            return True
    elif t[0] == kind:
        return True
    for x in t[1:]:
        if isinstance(x, tuple) and uses(x, kind):
            return True
    return False


# =========================================================================== real objects

_ENV = None


def app_env():
    """An ApplicationEnvironment whose tmp-file space refuses to be used: the texts of this
    harness live in memory, a kernel that touches the file system is a harness error."""
    global _ENV
    if _ENV is None:
        from exactly_lib.test_case.app_env import ApplicationEnvironment
        from exactly_lib.util.file_utils.dir_file_space import DirFileSpace

        class _NoTmpFileSpace(DirFileSpace):
            def new_path(self, name_suffix=None):
                raise RuntimeError('harness: the tmp file space was used (new_path)')

            def new_path_as_existing_dir(self, name_suffix=None):
                raise RuntimeError('harness: the tmp file space was used (new_path_as_existing_dir)')

            def sub_dir_space(self, name_suffix=None):
                raise RuntimeError('harness: the tmp file space was used (sub_dir_space)')

        _ENV = ApplicationEnvironment(None, None, _NoTmpFileSpace(), 2 ** 10)
    return _ENV


def string_symbol(value: str):
    from exactly_lib.symbol.sdv_structure import SymbolContainer
    from exactly_lib.symbol.value_type import ValueType
    from exactly_lib.type_val_deps.types.string_ import string_sdvs
    return SymbolContainer(string_sdvs.str_constant(value), ValueType.STRING, None)


def symbols(env: Env, log: Optional[List] = None, tree=None):
    """Symbol table: E = the symbolic string, U = line matcher of unknown class; and, for every
    ('ref', NAME, T) of `tree`, NAME = what the REAL parser makes of the concrete syntax of T (as
    `def text-transformer NAME = T` does)."""
    from vsym import xly
    from exactly_lib.impls.types.string_transformer import sdvs as string_transformer_sdvs
    from exactly_lib.symbol.sdv_structure import SymbolContainer
    from exactly_lib.symbol.value_type import ValueType
    u = env.u

    def verdict(model):
        return u[model[0] - 1]

    entries = {
        'E': string_symbol(env.e),
        'U': xly.matcher_symbol(xly.StubMatcher('U', verdict, log if log is not None else []),
                                ValueType.LINE_MATCHER),
    }
    if tree is not None:
        for i in range(len(env.marks)):
            entries['X%d' % i] = SymbolContainer(
                string_transformer_sdvs.StringTransformerSdvConstant(stub_appender('X%d' % i, env.marks[i])),
                ValueType.STRING_TRANSFORMER, None)
        for name, definition in symbol_definitions(tree).items():
            entries[name] = SymbolContainer(parse_transformer_cached(definition), ValueType.STRING_TRANSFORMER, None)
    return xly.symbol_table(entries)


def parse_transformer_cached(tree):
    """concrete syntax of the tree -> REAL parser -> sdv (cached per source text; parsed with tracing suspended:
    the text is concrete)"""
    from vsym import xly
    from exactly_lib.impls.types.string_transformer import parse_string_transformer
    with untraced():
        return xly.parse_cached('string-transformer', parse_string_transformer.parsers(False).full,
                                render_transformer(tree))


def real_matcher(tree, env: Env, log: Optional[List] = None):
    """tree -> concrete syntax -> REAL parser -> sdv -> ddv -> adv -> primitive StringMatcher"""
    from vsym import xly
    from exactly_lib.impls.types.string_matcher import parse_string_matcher
    xly.install_int_placeholders([env.k0, env.k1])
    sdv = xly.parse_cached('string-matcher', parse_string_matcher.parsers(False).full, render_matcher(tree))
    ddv = sdv.resolve(symbols(env, log, tree))
    return ddv.value_of_any_dependency(None).primitive(app_env())


def real_transformer(tree, env: Env, log: Optional[List] = None):
    from vsym import xly
    from exactly_lib.impls.types.string_transformer import parse_string_transformer
    xly.install_int_placeholders([env.k0, env.k1])
    if tree[0] == 'attach':
        # what the sites that attach transformers to a program do with the accumulated list
        from exactly_lib.impls.types.string_transformer import sequence_resolving
        return sequence_resolving.resolve([real_transformer(x, env, log) for x in tree[1:]])
    if tree[0] == 'attach-ddv':
        from exactly_lib.impls.types.string_transformer import sequence_resolving_ddv
        table = symbols(env, log, tree)
        ddv = sequence_resolving_ddv.resolve([parse_transformer_cached(x).resolve(table) for x in tree[1:]])
        return ddv.value_of_any_dependency(None).primitive(app_env())
    if uses(tree, 'ref'):
        sdv = parse_transformer_cached(tree)
    else:
        sdv = xly.parse_cached('string-transformer', parse_string_transformer.parsers(False).full,
                               render_transformer(tree))
    ddv = sdv.resolve(symbols(env, log, tree))
    return ddv.value_of_any_dependency(None).primitive(app_env())


def untraced():
    """Context manager: suspends CrossHair's tracing (for all-CONCRETE work such as parsing concrete
    syntax, ~200x faster); a no-op on plain CPython (replay, self-test)."""
    import contextlib
    try:
        from crosshair.tracers import NoTracing, is_tracing
    except ImportError:
        return contextlib.nullcontext()
    return NoTracing() if is_tracing() else contextlib.nullcontext()


def parse_fresh(tree, is_matcher: bool):
    """A NEW parsed object (sdv) of the expression - never shared between paths or with other
    obligations, so that what a path sees of it is exactly what a fresh process (the replay) sees."""
    from exactly_lib.section_document.element_parsers.token_stream_parser import new_token_parser
    with untraced():
        if is_matcher:
            from exactly_lib.impls.types.string_matcher import parse_string_matcher
            parser, source = parse_string_matcher.parsers(False).full, render_matcher(tree)
        else:
            from exactly_lib.impls.types.string_transformer import parse_string_transformer
            parser, source = parse_string_transformer.parsers(False).full, render_transformer(tree)
        tp = new_token_parser(source)
        sdv = parser.parse_from_token_parser(tp)
        if tp.token_stream.remaining_source.strip() != '':
            raise ValueError('harness error: parser left %r unconsumed' % tp.token_stream.remaining_source)
    return sdv


def resolve(sdv, env: Env):
    """one resolving of a parsed object, as an instruction does it per test case:
    sdv -> ddv (symbol table of this case) -> adv -> primitive"""
    from vsym import xly
    xly.install_int_placeholders([env.k0, env.k1])
    return sdv.resolve(symbols(env)).value_of_any_dependency(None).primitive(app_env())


def text_model(s: str):
    """An in-memory text, as exactly_lib makes it for a string literal (ContentsOfStr)."""
    from exactly_lib.impls.types.string_source import constant_str
    return constant_str.string_source(s, app_env().tmp_files_space)


def in_alphabet(s: str, alphabet: str = ALPHABET) -> bool:
    for c in s:
        if c not in alphabet:
            return False
    return True


# =========================================================================== stubs

def stub_string_source(text: str, ext_deps: bool, log: List):
    """A StringSource of a class unknown to exactly_lib (public base classes only): its contents
    is `text`, delivered as lines divided at new-line (the documented contract of as_lines), as a
    str, or as a "file" (an object with open() that iterates the same lines);
    `may_depend_on_external_resources` is the given flag.  Every access is logged."""
    import contextlib
    from exactly_lib.type_val_prims.string_source.contents import StringSourceContents
    from exactly_lib.type_val_prims.string_source.string_source import StringSource
    from exactly_lib.type_val_prims.string_source.structure_builder import StringSourceStructureBuilder

    class _FakeFile:
        def __init__(self, lines):
            self._it = iter(lines)

        def __enter__(self):
            return self

        def __exit__(self, *a):
            return False

        def __iter__(self):
            return self._it

    class _FakePath:
        def open(self, mode='r'):
            log.append('open')
            return _FakeFile(ref_lines(text))

    class _Contents(StringSourceContents):
        @property
        def may_depend_on_external_resources(self) -> bool:
            return ext_deps

        @property
        def as_str(self) -> str:
            log.append('as_str')
            return text

        @property
        def as_file(self):
            log.append('as_file')
            return _FakePath()

        @property
        @contextlib.contextmanager
        def as_lines(self):
            log.append('as_lines')
            yield iter(ref_lines(text))

        @property
        def tmp_file_space(self):
            raise RuntimeError('harness: tmp_file_space of a stub text used')

    class _Source(StringSource):
        def __init__(self):
            self._c = _Contents()

        def new_structure_builder(self):
            return StringSourceStructureBuilder.of_details('stub text', ())

        def freeze(self):
            log.append('freeze')

        def contents(self):
            return self._c

    return _Source()


def stub_appender(name: str, mark: str):
    """A StringTransformer of a class unknown to exactly_lib (public base class only; it does not say that it is
    the identity transformer - the default of the base class): its output is its input followed by `mark`."""
    from exactly_lib.type_val_prims.string_transformer import StringTransformer
    from exactly_lib.util.description_tree import renderers

    class _Appender(StringTransformer):
        @property
        def name(self) -> str:
            return name

        def structure(self):
            return renderers.header_only(name)

        def transform(self, model):
            return text_model(model.contents().as_str + mark)

    return _Appender()


class StubPattern:
    """Stands in for a compiled regular expression inside `replace`: sub(repl, string) is
    UNINTERPRETED - the i:th call returns results[i] (symbolic strings) - and records its
    arguments.  Contract assumed of re.Pattern.sub: it returns some str."""

    def __init__(self, pattern: str, flags: int, results: Sequence[str], calls: List):
        self.pattern = pattern
        self.flags = flags
        self._results = results
        self._calls = calls

    def sub(self, repl, string, count=0):
        i = len(self._calls)
        self._calls.append((repl, string))
        return self._results[i]


def install_stub_regex(results: Sequence[str], calls: List):
    """parse_regex.re -> an object whose compile() gives a StubPattern (re.compile is the only
    thing parse_regex uses of re, besides the IGNORECASE constant)."""
    import re as real_re
    from exactly_lib.impls.types.regex import parse_regex

    class _Re:
        IGNORECASE = real_re.IGNORECASE

        @staticmethod
        def compile(pattern, flags=0):
            return StubPattern(pattern, flags, results, calls)

    parse_regex.re = _Re


def uninstall_stub_regex():
    import re as real_re
    from exactly_lib.impls.types.regex import parse_regex
    parse_regex.re = real_re
