"""C11  Settings persist forward: cd, env (act / non-act), timeout.

K1  `_expand_vars`: every value of bounded length over {$ { } A _ x} (+ B 1 in the thorough tier),
    every value of the variables A / x it can name: equal to a regex-free reference expansion
    (unknown name => empty string, a substituted value is not expanded again).
"""
from typing import List

from vsym import ob
from vsym.ob import Ob

from harness import _C11_ref as ref

PROPERTY = 'C11'

REAL_K1 = (
    'exactly_lib.impls.instructions.multi_phase.environ.impl._expand_vars',
    'exactly_lib.impls.instructions.multi_phase.environ.impl._ENV_VAR_REFERENCE',
)

# ----------------------------------------------------------------------------- K1

K1_ALPHABET = '${}A_x'


def _in_alphabet(s: str, alphabet: str) -> bool:
    for c in s:
        if c not in alphabet:
            return False
    return True


def _pre_k1(value: str, va: str, a_set: bool, x_set: bool) -> bool:
    case = ob.case()
    return (len(value) == case['len'] and _in_alphabet(value, case.get('alphabet', K1_ALPHABET))
            and len(va) <= case['valen'] and _in_alphabet(va, case.get('alphabet', K1_ALPHABET)))


def k1_expand(value: str, va: str, a_set: bool, x_set: bool) -> bool:
    """
    pre: _pre_k1(value, va, a_set, x_set)
    post: _
    """
    from exactly_lib.impls.instructions.multi_phase.environ import impl
    environ = {}
    if a_set:
        environ['A'] = va
    if x_set:
        environ['x'] = 'X'
    environ['Ax'] = 'L'  # a longer name with the shorter one as prefix
    before = dict(environ)
    got = impl._expand_vars(value, environ)
    want = ref.expand(value, dict(before), ob.case().get('oracle_bug', 0))
    return ob.post(got == want and environ == before)


# ----------------------------------------------------------------------------- K2

# (instruction text after `env{T} `, effect on the reference machine)
K2_FORMS = (
    ('A = v', ('set', 'A', 'v')),
    ('A = "${A}2"', ('set', 'A', '${A}2')),
    ('B = "<${A}${U}${B}>"', ('set', 'B', '<${A}${U}${B}>')),
    ('N = "${B}${A}"', ('set', 'N', '${B}${A}')),
    ('unset A', ('unset', 'A')),
    ('unset N', ('unset', 'N')),
)
K2_PHASES = ('setup', 'before-assert', 'assert', 'cleanup')


def _k2_text(phase: str, forms, targets) -> str:
    lines = ['[%s]' % phase]
    for f, t in zip(forms, targets):
        lines.append('env%s %s' % (_OF[t], K2_FORMS[f][0]))
    return '\n'.join(lines) + '\n'


def _run_main_of(instruction, phase: str, env, settings, os_services, builder):
    """`main` of a parsed instruction, called the way the phase's executor calls it (phase_step_executors)."""
    from exactly_lib.test_case.phases.cleanup import PreviousPhase
    if phase == 'setup':
        r = instruction.main(env, settings, os_services, builder)
    elif phase == 'cleanup':
        r = instruction.main(env, settings, os_services, PreviousPhase.ASSERT)
    else:
        r = instruction.main(env, settings, os_services)
    if phase == 'assert':
        from exactly_lib.test_case.result import pfh
        return r.status is pfh.PassOrFailOrHardErrorEnum.PASS
    return r.is_success


def _instructions_of(text: str, phase: str):
    from harness import _C11_lib as L
    tc = L.parse_case(text)
    sec = {'setup': tc.setup_phase, 'before-assert': tc.before_assert_phase, 'assert': tc.assert_phase,
           'cleanup': tc.cleanup_phase}[phase]
    return [e.instruction_info.instruction for e in sec.elements]


def _pre_k2(t0: int, t1: int, ph: int, na_none: bool, ac_none: bool, pa0: bool, a0: str, pa1: bool, a1: str,
            pad: bool, ad: str) -> bool:
    case = ob.case()
    if not (0 <= t0 <= 2 and 0 <= t1 <= 2 and 0 <= ph < len(case['phases'])):
        return False
    if len(case['forms']) < 2 and t1 != 0:
        return False
    return len(a0) <= 2 and len(a1) <= 2 and len(ad) <= 2


def k2_apply(t0: int, t1: int, ph: int, na_none: bool, ac_none: bool, pa0: bool, a0: str, pa1: bool, a1: str,
             pad: bool, ad: str) -> bool:
    """
    pre: _pre_k2(t0, t1, ph, na_none, ac_none, pa0, a0, pa1, a1, pad, ad)
    post: _
    """
    from harness import _C11_lib as L
    from exactly_lib.impls.os_services import os_services_access
    from exactly_lib.test_case.phases.instruction_settings import InstructionSettings
    from exactly_lib.test_case.phases.setup.settings_builder import SetupSettingsBuilder
    from exactly_lib.util.symbol_table import SymbolTable
    case = ob.case()
    forms = case['forms']
    phase = ob.pick(case['phases'], ph)
    targets = (ob.pick(ref.TARGETS, t0), ob.pick(ref.TARGETS, t1))[:len(forms)]

    def mk(present: bool, value: str, b: str):
        d = {'B': b}
        if present:
            d['A'] = value
        return d

    default = mk(pad, ad, 'db')
    getter_calls = []

    def default_getter():
        getter_calls.append(1)
        return dict(default)

    non_act = None if na_none else mk(pa0, a0, 'nb')
    act = None if ac_none else mk(pa1, a1, 'ab')
    # reference
    m = ref.Machine({}, 7, '/c', '/c')
    m.non_act = dict(default) if non_act is None else dict(non_act)
    m.act = dict(default) if act is None else dict(act)
    bug = case.get('oracle_bug', 0)
    for f, t in zip(forms, targets):
        eff = K2_FORMS[f][1]
        if eff[0] == 'set':
            if bug == 1:  # seeded: the value is expanded against the non-act set whatever set is changed
                for s_ in m.sets_changed_by(t, phase == 'setup'):
                    s_[eff[1]] = ref.expand(eff[2], m.non_act)
            else:
                m.env_set(t, phase == 'setup', eff[1], eff[2])
        else:
            m.env_unset(t, phase == 'setup' or bug == 2, eff[1])
    # real
    settings = InstructionSettings(non_act, default_getter, 7)
    builder = SetupSettingsBuilder(None, act)
    os_services = os_services_access.new_for_current_os()
    for ins in _instructions_of(_k2_text(phase, forms, targets), phase):
        env = L.instruction_environment(SymbolTable(), settings.timeout_in_seconds(), settings.environ())
        if not _run_main_of(ins, phase, env, settings, os_services, builder):
            return False
    got_na, got_ac = settings.environ(), builder.environ
    na_touched = any(t in (ref.BOTH, ref.NON_ACT) for t in targets)
    ac_touched = phase == 'setup' and any(t in (ref.BOTH, ref.ACT) for t in targets)
    ok = (got_na is None) == (na_none and not na_touched) and (got_ac is None) == (ac_none and not ac_touched)
    ok = ok and (dict(default) if got_na is None else got_na) == m.non_act
    ok = ok and (dict(default) if got_ac is None else got_ac) == m.act
    ok = ok and (got_na is None or got_na is not got_ac)
    ok = ok and settings.timeout_in_seconds() == 7 and builder.stdin is None
    ok = ok and default == mk(pad, ad, 'db')
    return ob.post(ok)


def _pre_k2t(k: int, none: bool) -> bool:
    return -99 <= k


def k2_timeout(k: int, none: bool) -> bool:
    """
    pre: _pre_k2t(k, none)
    post: _
    """
    from harness import _C11_lib as L
    from vsym import xly
    from exactly_lib.impls.os_services import os_services_access
    from exactly_lib.test_case.phases.instruction_settings import InstructionSettings
    from exactly_lib.test_case.phases.setup.settings_builder import SetupSettingsBuilder
    from exactly_lib.util.symbol_table import SymbolTable
    case = ob.case()
    phase = case['phase']
    none = ob.concrete_bool(none)
    xly.install_int_placeholders([k])
    try:
        ins = _instructions_of('[%s]\ntimeout = %s\n' % (phase, 'none' if none else 'K0'), phase)[0]
        env_d = {'A': 'a'}
        settings = InstructionSettings(env_d, lambda: {'D': 'd'}, 7)
        builder = SetupSettingsBuilder(None, None)
        v = ins.validate_pre_sds(L.pre_sds_environment(SymbolTable(), 7))
        rejected = not v.is_success
        want_rejected = (not none) and (k < 0 if not case.get('oracle_bug') else k <= 0)
        if rejected or want_rejected:
            # an invalid value is rejected by validation (before anything is executed: C03) and main is not reached
            return ob.post(rejected and want_rejected and v.is_validation_error)
        env = L.instruction_environment(SymbolTable(), 7, env_d)
        if not _run_main_of(ins, phase, env, settings, os_services_access.new_for_current_os(), builder):
            return False
        got = settings.timeout_in_seconds()
        ok = (got is None) if none else (got is not None and got == k)
        ok = ok and settings.environ() is env_d and env_d == {'A': 'a'} and builder.environ is None
        return ob.post(ok)
    finally:
        xly.uninstall_int_placeholders()


# ----------------------------------------------------------------------------- K3

PHASES = ('setup', 'before-assert', 'assert', 'cleanup')
ALL_PHASES = ('setup', 'act', 'before-assert', 'assert', 'cleanup')
DEFAULT_TIMEOUT = 60  # reference manual, concept "timeout": default 60 seconds
INITIAL_A = 'a0'  # the variable A is set in the environment Exactly is started with, B and U are not

_OF = {ref.BOTH: '', ref.ACT: ' -of act', ref.NON_ACT: ' -of !act'}


def _forms():
    fs = [
        ('cd sub', ('cd', 'cwd', 'sub')),
        ('cd -rel-act a', ('cd', 'act', 'a')),
        ('cd ..', ('cd', 'cwd', '..')),
        ('timeout = 5', ('timeout', 5)),
        ('timeout = none', ('timeout', None)),
    ]
    for t in ref.TARGETS:
        fs.append(('env%s A = 1' % _OF[t], ('set', t, 'A', '1')))
        fs.append(('env%s A = "${A}2"' % _OF[t], ('set', t, 'A', '${A}2')))
        fs.append(('env%s B = "<${A}${U}>"' % _OF[t], ('set', t, 'B', '<${A}${U}>')))
        fs.append(('env%s unset A' % _OF[t], ('unset', t, 'A')))
    return tuple(fs)


FORMS = _forms()
PRELUDE = ('dir sub/sub/sub', 'dir a/sub/sub')
DIRS_IN_ACT = ('', 'sub', 'sub/sub', 'sub/sub/sub', 'a', 'a/sub', 'a/sub/sub')


def existing_dirs(act_dir: str):
    import posixpath
    root = posixpath.dirname(act_dir)
    ds = {posixpath.normpath(posixpath.join(act_dir, d)) for d in DIRS_IN_ACT}
    ds.update((root, posixpath.dirname(root), posixpath.dirname(posixpath.dirname(root))))
    return ds


def probe(phase: str, i: int) -> str:
    return 'probe-%s-%d' % (phase, i)


def case_text(history) -> str:
    """history: sequence of (form index, phase index into PHASES), phases non-decreasing."""
    lines = []
    for ph in ALL_PHASES:
        lines.append('[%s]' % ph)
        if ph == 'act':
            lines.append('$ probe-act')
            continue
        if ph == 'setup':
            lines.extend(PRELUDE)
        lines.append('$ ' + probe(ph, 0))
        i = 0
        for f, p in history:
            if PHASES[p] == ph:
                i += 1
                lines.append(FORMS[f][0])
                lines.append('$ ' + probe(ph, i))
        lines.append('')
    return '\n'.join(lines) + '\n'


def apply_form(m: ref.Machine, effect, in_setup: bool, bug: int = 0):
    k = effect[0]
    if k == 'cd':
        m.cd(effect[1], effect[2])
    elif k == 'timeout':
        m.set_timeout(effect[1])
    elif k == 'set':
        m.env_set(effect[1], in_setup, effect[2], effect[3])
    elif k == 'unset':
        m.env_unset(effect[1], in_setup if bug != 4 else True, effect[2])
    else:
        raise ValueError(effect)


def expected_observations(history, effects, initial_environ, act_dir: str, bug: int = 0):
    """The reference: what every probe process sees.  None if a `cd` of the history names a directory
    that does not exist (such histories are outside the quantifier: the case stops with HARD_ERROR)."""
    m = ref.Machine(initial_environ, DEFAULT_TIMEOUT, act_dir, act_dir, existing_dirs(act_dir))
    out = []
    for ph in ALL_PHASES:
        if ph == 'act':
            out.append(('probe-act',) + (m.seen_by_atc() if bug != 5 else m.seen_by_instruction()))
            continue
        out.append((probe(ph, 0),) + m.seen_by_instruction())
        i = 0
        for (f, p), eff in zip(history, effects):
            if PHASES[p] == ph:
                i += 1
                apply_form(m, eff, ph == 'setup', bug)
                if m.failed:
                    return None
                out.append((probe(ph, i),) + m.seen_by_instruction())
    return out


def _history_of(args, k: int):
    return tuple((args[2 * i], args[2 * i + 1]) for i in range(k))


def _valid_history(h) -> bool:
    for i, (f, p) in enumerate(h):
        if not (0 <= f < len(FORMS) and 0 <= p < len(PHASES)):
            return False
        if i and p < h[i - 1][1]:
            return False
    return True


def _pre_k3(f0: int, p0: int, f1: int, p1: int, f2: int, p2: int) -> bool:
    case = ob.case()
    k = case['k']
    args = (f0, p0, f1, p1, f2, p2)
    for x in args[2 * k:]:
        if x != 0:
            return False
    h = _history_of(args, k)
    if not _valid_history(h):
        return False
    if 'phases' in case and tuple(p for _, p in h) != tuple(case['phases']):
        return False
    if 'forms0' in case and k and not (case['forms0'][0] <= f0 < case['forms0'][1]):
        return False
    h = tuple((ob.concrete_int(f, 0, len(FORMS) - 1), ob.concrete_int(p, 0, len(PHASES) - 1)) for f, p in h)
    return expected_observations(h, [FORMS[f][1] for f, _ in h], {}, '/R/W/S/act') is not None


def run_history(h):
    import os
    from harness import _C11_lib as L
    had = os.environ.get('A')
    had_b = os.environ.get('B')
    os.environ['A'] = INITIAL_A
    os.environ.pop('B', None)
    os.environ.pop('U', None)
    try:
        initial = dict(os.environ)
        run = L.run_main_program(case_text(h), L.Recorder())
    finally:
        if had is None:
            os.environ.pop('A', None)
        else:
            os.environ['A'] = had
        if had_b is not None:
            os.environ['B'] = had_b
    return initial, run


def check_run(h, initial, run, bug: int = 0) -> bool:
    if run.exception is not None or run.rc != 0 or run.ident != 'PASS' or len(run.sandbox_roots) != 1:
        return False
    if run.environ_after != run.environ_before:  # Exactly's own environment is not the medium
        return False
    want = expected_observations(h, [FORMS[f][1] for f, _ in h], initial, run.act_dir, bug)
    got = [(c.tag, c.env, c.timeout, c.cwd) for c in run.calls]
    return want is not None and got == want


def k3_history(f0: int, p0: int, f1: int, p1: int, f2: int, p2: int) -> bool:
    """
    pre: _pre_k3(f0, p0, f1, p1, f2, p2)
    post: _
    """
    from harness import _C11_lib as L
    case = ob.case()
    k = case['k']
    h = _history_of((f0, p0, f1, p1, f2, p2), k)
    h = tuple((ob.concrete_int(f, 0, len(FORMS) - 1), ob.concrete_int(p, 0, len(PHASES) - 1)) for f, p in h)
    with L.untraced():
        initial, run = run_history(h)
        ok = check_run(h, initial, run, case.get('oracle_bug', 0))
    return ob.post(ok)


# ----------------------------------------------------------------------------- obligations

def obligations(tier: str) -> List[Ob]:
    obs = []
    lens = (0, 1, 2, 3, 4, 5) if tier == 'quick' else (0, 1, 2, 3, 4, 5, 6)
    for n in lens:
        obs.append(Ob(name='K1:expand:len%d' % n, fn='k1_expand', case=dict(len=n, valen=2), kernel='K1',
                      bound='every value of exactly %d characters over {$ { } A _ x}; variable A unset or any text of <= 2 '
                            'characters over the same alphabet, x unset or "X", Ax = "L"' % n,
                      timeout=900, real=REAL_K1, entry='_expand_vars (reached from `env NAME = VALUE`, see K2/K3)'))
    for bug, what in ((1, 'unknown name kept verbatim'), (3, '${} taken as a reference')):
        obs.append(Ob(name='K1:seeded-oracle-error-%d' % bug, fn='k1_expand', case=dict(len=4, valen=1, oracle_bug=bug),
                      kernel='K1', bound='seeded: ' + what, timeout=300, expect=ob.REFUTE))
    return obs
