"""C11  Settings persist forward: cd, env (act / non-act), timeout.

K1  `_expand_vars`: every value of bounded length over {$ { } A _ x}, every value of the variable A
    it can name (A unset, or any text of <= 2 characters over the same alphabet, so that a
    substituted text may itself look like a reference): equal to a regex-free reference expansion
    (unknown name => empty string, `${}` is no reference, a substituted value is not expanded again,
    the longest name is taken); the environment is not changed by the expansion.
K2  one `env` instruction (set / unset, no -of / -of act / -of !act) parsed by the REAL parser from
    a test-case text and executed through `instruction.main` the way each phase's executor calls
    it, on REAL InstructionSettings / SetupSettingsBuilder objects in a SYMBOLIC state: each set
    unset (= inherit) or a dict whose variable A is unset or any text; the default environment
    likewise.  Reference: which set changes (act set only in [setup]), populate-if-unset from the
    default getter, expansion against the set being changed, the other set untouched, the two
    sets never the same object, timeout untouched.  A few two-instruction sequences.
    `timeout = K0` for EVERY integer K0 (negative: rejected by validation, main not reached) and
    `timeout = none`: the settings hold exactly that value afterwards, the environment untouched.
K3  histories through the REAL main program (`MainProgram.execute([FILE])`, in process): a
    generated test case with k of the 17 instruction forms (3 cd, 2 timeout, 12 env) placed in
    setup / before-assert / assert / cleanup in every way, a probe process (started by `$`, `%`,
    `run`) before and after every one of them and at the start of every phase, and the act phase
    process.  `subprocess` is a recording stand-in: what every probe would see (environment,
    timeout, current directory) is compared with a reference state machine (act set, non-act set,
    timeout, cwd).  Every probe point also USES things that were DEFINED ONCE at the start of
    [setup]: path symbols relative to the current directory (implicit relativity, -rel-cd, relative
    to another symbol: "evaluated when referenced"), a program symbol (`run @ PP`) and a
    text-source symbol whose text comes from a program (the stdin of PP): each use, before and
    after every change of a setting and in every later phase, must see the state at the time of
    THAT use (resolved path = current directory at that point; environment / timeout / cwd of the
    processes started through the symbols; the text on stdin).
    Also: the program BEHIND THE STDIN of the action to check (`stdin = -stdout-from PROGRAM`, a `run`
    transformer, both, a text-source symbol; placed anywhere in [setup]): a process that is not the
    process of the act phase - it sees the non-act set / timeout / cwd as they stand at the end of
    [setup], the action to check sees the act set and reads what the program wrote;
    the value of a variable coming from a program (that program is a process
    too); the act phase process started by each of the four kinds of actor; and, with CrossHair
    tracing ON, fixed histories with SYMBOLIC timeouts (literals K0, K1 through the real parser)
    and a SYMBOLIC initial value of the variable A in the environment Exactly is started with.
                                                              [selector] except K3:symbolic
"""
from typing import List

from vsym import ob
from vsym.ob import Ob

from harness import _C11_ref as ref

PROPERTY = 'C11'

REAL_K1 = (
    'exactly_lib.impls.instructions.multi_phase.environ.impl._expand_vars',
    'exactly_lib.impls.instructions.multi_phase.environ.impl._ENV_VAR_REFERENCE',
)

# ----------------------------------------------------------------------------- K1

K1_ALPHABET = '${}A_x'


def _in_alphabet(s: str, alphabet: str) -> bool:
    for c in s:
        if c not in alphabet:
            return False
    return True


def _pre_k1(value: str, va: str, a_set: bool, x_set: bool) -> bool:
    case = ob.case()
    if not (len(value) == case['len'] and _in_alphabet(value, K1_ALPHABET)
            and len(va) <= case['valen'] and _in_alphabet(va, K1_ALPHABET)):
        return False
    chars = case.get('chars')
    if chars is not None:
        for i, allowed in enumerate(chars):
            if value[i] not in allowed:
                return False
    prefix = case.get('prefix')
    return prefix is None or value.startswith(prefix)


def k1_expand(value: str, va: str, a_set: bool, x_set: bool) -> bool:
    """
    pre: _pre_k1(value, va, a_set, x_set)
    post: _
    """
    from exactly_lib.impls.instructions.multi_phase.environ import impl
    environ = {}
    if a_set:
        environ['A'] = va
    if x_set:
        environ['x'] = 'X'
    environ['Ax'] = 'L'  # a longer name with the shorter one as prefix
    before = dict(environ)
    got = impl._expand_vars(value, environ)
    want = ref.expand(value, dict(before), ob.case().get('oracle_bug', 0))
    return ob.post(got == want and environ == before)


# ----------------------------------------------------------------------------- K2

# (instruction text after `env{T} `, effect on the reference machine)
K2_FORMS = (
    ('A = v', ('set', 'A', 'v')),
    ('A = "${A}2"', ('set', 'A', '${A}2')),
    ('B = "<${A}${U}${B}>"', ('set', 'B', '<${A}${U}${B}>')),
    ('N = "${B}${A}"', ('set', 'N', '${B}${A}')),
    ('unset A', ('unset', 'A')),
    ('unset N', ('unset', 'N')),
    ('N = "${A}A}"', ('set', 'N', '${A}A}')),  # a substituted text that completes a reference is not expanded again
)
K2_PHASES = ('setup', 'before-assert', 'assert', 'cleanup')


def _k2_text(phase: str, forms, targets) -> str:
    lines = ['[%s]' % phase]
    for f, t in zip(forms, targets):
        lines.append('env%s %s' % (_OF[t], K2_FORMS[f][0]))
    return '\n'.join(lines) + '\n'


def _run_main_of(instruction, phase: str, env, settings, os_services, builder):
    """`main` of a parsed instruction, called the way the phase's executor calls it (phase_step_executors)."""
    from exactly_lib.test_case.phases.cleanup import PreviousPhase
    if phase == 'setup':
        r = instruction.main(env, settings, os_services, builder)
    elif phase == 'cleanup':
        r = instruction.main(env, settings, os_services, PreviousPhase.ASSERT)
    else:
        r = instruction.main(env, settings, os_services)
    if phase == 'assert':
        from exactly_lib.test_case.result import pfh
        return r.status is pfh.PassOrFailOrHardErrorEnum.PASS
    return r.is_success


def _instructions_of(text: str, phase: str):
    from harness import _C11_lib as L
    tc = L.parse_case(text)
    sec = {'setup': tc.setup_phase, 'before-assert': tc.before_assert_phase, 'assert': tc.assert_phase,
           'cleanup': tc.cleanup_phase}[phase]
    return [e.instruction_info.instruction for e in sec.elements]


def _pre_k2(t0: int, t1: int, ph: int, na_none: bool, ac_none: bool, pa0: bool, a0: str, pa1: bool, a1: str,
            pad: bool, ad: str) -> bool:
    case = ob.case()
    if not (0 <= t0 <= 2 and 0 <= t1 <= 2 and 0 <= ph < len(case['phases'])):
        return False
    if len(case['forms']) < 2 and t1 != 0:
        return False
    return len(a0) <= 2 and len(a1) <= 2 and len(ad) <= 2


def k2_apply(t0: int, t1: int, ph: int, na_none: bool, ac_none: bool, pa0: bool, a0: str, pa1: bool, a1: str,
             pad: bool, ad: str) -> bool:
    """
    pre: _pre_k2(t0, t1, ph, na_none, ac_none, pa0, a0, pa1, a1, pad, ad)
    post: _
    """
    from harness import _C11_lib as L
    from exactly_lib.impls.os_services import os_services_access
    from exactly_lib.test_case.phases.instruction_settings import InstructionSettings
    from exactly_lib.test_case.phases.setup.settings_builder import SetupSettingsBuilder
    from exactly_lib.util.symbol_table import SymbolTable
    case = ob.case()
    forms = case['forms']
    phase = ob.pick(case['phases'], ph)
    targets = (ob.pick(ref.TARGETS, t0), ob.pick(ref.TARGETS, t1))[:len(forms)]

    def mk(present: bool, value: str, b: str):
        d = {'B': b}
        if present:
            d['A'] = value
        return d

    default = mk(pad, ad, 'db')
    getter_calls = []

    def default_getter():
        getter_calls.append(1)
        return dict(default)

    non_act = None if na_none else mk(pa0, a0, 'nb')
    act = None if ac_none else mk(pa1, a1, 'ab')
    # reference
    m = ref.Machine({}, 7, '/c', '/c')
    m.non_act = dict(default) if non_act is None else dict(non_act)
    m.act = dict(default) if act is None else dict(act)
    bug = case.get('oracle_bug', 0)
    for f, t in zip(forms, targets):
        eff = K2_FORMS[f][1]
        if eff[0] == 'set':
            if bug == 1:  # seeded: the value is expanded against the non-act set whatever set is changed
                for s_ in m.sets_changed_by(t, phase == 'setup'):
                    s_[eff[1]] = ref.expand(eff[2], m.non_act)
            else:
                m.env_set(t, phase == 'setup', eff[1], eff[2])
        else:
            m.env_unset(t, phase == 'setup' or bug == 2, eff[1])
    # real
    settings = InstructionSettings(non_act, default_getter, 7)
    builder = SetupSettingsBuilder(None, act)
    os_services = os_services_access.new_for_current_os()
    for ins in _instructions_of(_k2_text(phase, forms, targets), phase):
        env = L.instruction_environment(SymbolTable(), settings.timeout_in_seconds(), settings.environ())
        if not _run_main_of(ins, phase, env, settings, os_services, builder):
            return False
    got_na, got_ac = settings.environ(), builder.environ
    na_touched = any(t in (ref.BOTH, ref.NON_ACT) for t in targets)
    ac_touched = phase == 'setup' and any(t in (ref.BOTH, ref.ACT) for t in targets)
    ok = (got_na is None) == (na_none and not na_touched) and (got_ac is None) == (ac_none and not ac_touched)
    ok = ok and (dict(default) if got_na is None else got_na) == m.non_act
    ok = ok and (dict(default) if got_ac is None else got_ac) == m.act
    ok = ok and (got_na is None or got_na is not got_ac)
    ok = ok and settings.timeout_in_seconds() == 7 and builder.stdin is None
    ok = ok and default == mk(pad, ad, 'db')
    return ob.post(ok)


def _pre_k2t(k: int, none: bool) -> bool:
    return -99 <= k


def k2_timeout(k: int, none: bool) -> bool:
    """
    pre: _pre_k2t(k, none)
    post: _
    """
    from harness import _C11_lib as L
    from vsym import xly
    from exactly_lib.impls.os_services import os_services_access
    from exactly_lib.test_case.phases.instruction_settings import InstructionSettings
    from exactly_lib.test_case.phases.setup.settings_builder import SetupSettingsBuilder
    from exactly_lib.util.symbol_table import SymbolTable
    case = ob.case()
    phase = case['phase']
    none = ob.concrete_bool(none)
    xly.install_int_placeholders([k])
    try:
        ins = _instructions_of('[%s]\ntimeout = %s\n' % (phase, 'none' if none else 'K0'), phase)[0]
        env_d = {'A': 'a'}
        settings = InstructionSettings(env_d, lambda: {'D': 'd'}, 7)
        builder = SetupSettingsBuilder(None, None)
        v = ins.validate_pre_sds(L.pre_sds_environment(SymbolTable(), 7))
        rejected = not v.is_success
        want_rejected = (not none) and (k < 0 if not case.get('oracle_bug') else k <= 0)
        if rejected or want_rejected:
            # an invalid value is rejected by validation (before anything is executed: C03) and main is not reached
            return ob.post(rejected and want_rejected and v.is_validation_error)
        env = L.instruction_environment(SymbolTable(), 7, env_d)
        if not _run_main_of(ins, phase, env, settings, os_services_access.new_for_current_os(), builder):
            return False
        got = settings.timeout_in_seconds()
        ok = (got is None) if none else (got is not None and got == k)
        ok = ok and settings.environ() is env_d and env_d == {'A': 'a'} and builder.environ is None
        return ob.post(ok)
    finally:
        xly.uninstall_int_placeholders()


# ----------------------------------------------------------------------------- K3

PHASES = ('setup', 'before-assert', 'assert', 'cleanup')
ALL_PHASES = ('setup', 'act', 'before-assert', 'assert', 'cleanup')
DEFAULT_TIMEOUT = 60  # reference manual, concept "timeout": default 60 seconds
INITIAL_A = 'a0'  # the variable A is set in the environment Exactly is started with, B, P and U are not
VALUE_PROGRAM_OUTPUT = 'v${A}'  # what the stand-in child `probe-value` writes to stdout

_OF = {ref.BOTH: '', ref.ACT: ' -of act', ref.NON_ACT: ' -of !act'}


# Things that are DEFINED ONCE, before anything else, and USED at every probe point, i.e. before and after every change of
# a setting: a use must see the state at the time of the use, not the state at the time of an earlier use.
#   IMPLICIT  path relative to the current directory (default relativity of `def path`): "evaluated when it is referenced,
#             not when it is defined" (reference manual, syntax PATH)
#   EXPLICIT  the same with the relativity option
#   DERIVED   path relative to the path symbol IMPLICIT
#   PP        program with IMPLICIT as argument: run at every probe point through `run @ PP`
#   TS        text whose source is a program with IMPLICIT as argument: the stdin of PP at every probe point (the program is
#             a process too; the stand-in child writes its own command line, which PP must find on its stdin)
SYMBOL_DEFS = ('def path IMPLICIT = pfile',
               'def path EXPLICIT = -rel-cd qfile',
               'def path DERIVED = -rel IMPLICIT sub',
               'def program PP = % probe-via-program-symbol @[IMPLICIT]@',
               'def text-source TS = -stdout-from % probe-via-text-source-symbol @[IMPLICIT]@')
PATH_ARGS = ' @[IMPLICIT]@ @[EXPLICIT]@ @[DERIVED]@'
VIA_SYMBOL = '/via-program-symbol'
VIA_TEXT_SOURCE = 'probe-via-text-source-symbol'


def stand_in_child_stdout(command_line: str) -> str:
    if command_line.startswith('probe-value'):
        return VALUE_PROGRAM_OUTPUT
    if command_line.startswith(VIA_TEXT_SOURCE):
        return command_line
    if command_line.startswith('probe-stdin-'):
        return 'written by ' + command_line
    return ''
VALUE_PROGRAM = '-stdout-from $ probe-value' + PATH_ARGS


def _forms():
    fs = [
        ('cd sub', ('cd', 'cwd', 'sub')),
        ('cd -rel-act a', ('cd', 'act', 'a')),
        ('cd ..', ('cd', 'cwd', '..')),
        ('timeout = 5', ('timeout', 5)),
        ('timeout = none', ('timeout', None)),
    ]
    for t in ref.TARGETS:
        fs.append(('env%s A = 1' % _OF[t], ('set', t, 'A', '1')))
        fs.append(('env%s A = "${A}2"' % _OF[t], ('set', t, 'A', '${A}2')))
        fs.append(('env%s B = "<${A}${U}>"' % _OF[t], ('set', t, 'B', '<${A}${U}>')))
        fs.append(('env%s unset A' % _OF[t], ('unset', t, 'A')))
    nbase = len(fs)
    # the value comes from a program: the program is a process too (manual, `env`: "it will be executed in an
    # environment with the environment variables of the specified phase")
    for t in ref.TARGETS:
        fs.append(('env%s P = %s' % (_OF[t], VALUE_PROGRAM), ('setprog', t, 'P', VALUE_PROGRAM_OUTPUT)))
    nprog = len(fs)
    # timeouts that are symbolic integers (literal K0 / K1 through the real parser)
    fs.append(('timeout = K0', ('timeout', 'K0')))
    fs.append(('timeout = K1', ('timeout', 'K1')))
    return tuple(fs), nbase, nprog


FORMS, NBASE, NPROG = _forms()
PRELUDE = SYMBOL_DEFS + ('dir sub/sub/sub', 'dir a/sub/sub')
DIRS_IN_ACT = ('', 'sub', 'sub/sub', 'sub/sub/sub', 'a', 'a/sub', 'a/sub/sub')
# the probes are processes started by different instructions
PROBE_KINDS = ('$ TAG', '% TAG', 'run % TAG', '$ TAG')


def existing_dirs(act_dir: str):
    import posixpath
    root = posixpath.dirname(act_dir)
    ds = {posixpath.normpath(posixpath.join(act_dir, d)) for d in DIRS_IN_ACT}
    ds.update((root, posixpath.dirname(root), posixpath.dirname(posixpath.dirname(root))))
    return ds


def probe(phase: str, i: int) -> str:
    return 'probe-%s-%d' % (phase, i)


# the act phase process started by each kind of actor: ([conf] lines, [act] lines)
ACTORS = {
    'command-shell': ((), ('$ probe-act' + PATH_ARGS,)),
    'command-system-program': ((), ('% probe-act' + PATH_ARGS,)),
    'file-interpreter': (('actor = file % probe-act',), ('act-source.txt',)),
    'source-interpreter': (('actor = source % probe-act',), ('source line',)),
}
FILES_IN_HOME = (('act-source.txt', 'source\n'),)


def probe_lines(phase: str, i: int):
    """A probe point: a process started by `$` / `%` / `run` that is given the path symbols as arguments, and a process
    started through the program symbol."""
    return (PROBE_KINDS[i % len(PROBE_KINDS)].replace('TAG', probe(phase, i)) + PATH_ARGS,
            'run @ PP ' + probe(phase, i),
            '    -stdin @[TS]@')


def path_args(cwd: str):
    """What the path symbols denote when referenced with `cwd` as current directory."""
    return (cwd + '/pfile', cwd + '/qfile', cwd + '/pfile/sub')


def probe_point(name: str, seen):
    env, timeout, cwd = seen
    implicit = path_args(cwd)[0]
    return [(name, env, timeout, cwd, path_args(cwd)),
            (VIA_TEXT_SOURCE, dict(env), timeout, cwd, (implicit,)),
            (name + VIA_SYMBOL, dict(env), timeout, cwd, (implicit, VIA_TEXT_SOURCE + ' ' + implicit))]


# The program BEHIND THE STDIN of the action to check: `stdin = TEXT-SOURCE` in [setup] where the text comes from a program.
# The program is a process, and it is not the process of the act phase: it sees the non-act set (and the timeout / current
# directory) as they stand when the act phase consumes the text, i.e. at the end of [setup].
# (stdin line, name of the recorded process, its arguments given the current directory)
STDIN_PRODUCER = 'probe-stdin-producer'
STDIN_TRANSFORMER = 'probe-stdin-transformer'
STDIN_FORMS = (
    ('stdin = -stdout-from % ' + STDIN_PRODUCER + PATH_ARGS, STDIN_PRODUCER, 'paths'),
    ('stdin = -stdout-from $ ' + STDIN_PRODUCER + PATH_ARGS, STDIN_PRODUCER, 'paths'),
    ('stdin = "text" -transformed-by run % ' + STDIN_TRANSFORMER + PATH_ARGS, STDIN_TRANSFORMER, 'paths'),
    ('stdin = -stdout-from % ' + STDIN_PRODUCER + PATH_ARGS + '\n    -transformed-by run % ' + STDIN_TRANSFORMER, None, 'both'),
    ('stdin = @[TS]@', VIA_TEXT_SOURCE, 'implicit'),  # the text-source symbol defined once at the start of [setup]
)


def stdin_observations(stdin_form: int, seen):
    """What the process(es) behind the stdin of the action to check see, given what an instruction would see (`seen`)."""
    env, timeout, cwd = seen
    line, name, args = STDIN_FORMS[stdin_form]
    if args == 'both':
        return [(STDIN_PRODUCER, dict(env), timeout, cwd, path_args(cwd)), (STDIN_TRANSFORMER, dict(env), timeout, cwd, ())]
    return [(name, dict(env), timeout, cwd, path_args(cwd) if args == 'paths' else path_args(cwd)[:1])]


def case_text(history, actor: str = 'command-shell', stdin=None) -> str:
    """history: sequence of (form index, phase index into PHASES), phases non-decreasing.
    stdin: None or (index into STDIN_FORMS, number of instructions of the history in [setup] that precede the stdin line)."""
    lines = []
    if ACTORS[actor][0]:
        lines.append('[conf]')
        lines.extend(ACTORS[actor][0])
    for ph in ALL_PHASES:
        lines.append('[%s]' % ph)
        if ph == 'act':
            lines.extend(ACTORS[actor][1])
            continue
        if ph == 'setup':
            lines.extend(PRELUDE)
        lines.extend(probe_lines(ph, 0))
        i = 0
        if ph == 'setup' and stdin is not None and stdin[1] == 0:
            lines.append(STDIN_FORMS[stdin[0]][0])
        for f, p in history:
            if PHASES[p] == ph:
                i += 1
                lines.append(FORMS[f][0])
                lines.extend(probe_lines(ph, i))
                if ph == 'setup' and stdin is not None and stdin[1] == i:
                    lines.append(STDIN_FORMS[stdin[0]][0])
        lines.append('')
    return '\n'.join(lines) + '\n'


def expected_observations(history, initial_environ, act_dir: str, ints=None, bug: int = 0, stdin_form=None):
    """The reference: what every probe process sees, in the order of the test case.  None if a `cd` of the
    history names a directory that does not exist (such histories are outside the quantifier: the case
    stops with HARD_ERROR there)."""
    m = ref.Machine(initial_environ, DEFAULT_TIMEOUT, act_dir, act_dir, existing_dirs(act_dir))
    out = []
    for ph in ALL_PHASES:
        if ph == 'act':
            if stdin_form is not None:
                # the text is produced when the act phase consumes it; its program is not the process of the act phase
                out.extend(stdin_observations(stdin_form, m.seen_by_instruction() if bug != 7 else m.seen_by_atc()))
            seen = m.seen_by_atc() if bug != 5 else m.seen_by_instruction()
            out.append(('probe-act',) + seen + (path_args(seen[2]),))
            continue
        in_setup = ph == 'setup'
        out.extend(probe_point(probe(ph, 0), m.seen_by_instruction()))
        i = 0
        for f, p in history:
            if PHASES[p] != ph:
                continue
            i += 1
            eff = FORMS[f][1]
            k = eff[0]
            if k == 'cd':
                m.cd(eff[1], eff[2])
                if m.failed:
                    return None
            elif k == 'timeout':
                t = eff[1]
                if bug != 6:
                    m.set_timeout(ints[t] if isinstance(t, str) else t)
            elif k == 'set':
                m.env_set(eff[1], in_setup, eff[2], eff[3])
            elif k == 'unset':
                m.env_unset(eff[1], in_setup, eff[2])
            elif k == 'setprog':
                for s_ in m.sets_changed_by(eff[1], in_setup):
                    out.append(('probe-value', dict(s_), m.timeout, m.cwd, path_args(m.cwd)))  # the program runs in the set being changed
                m.env_set(eff[1], in_setup, eff[2], eff[3])
            else:
                raise ValueError(eff)
            out.extend(probe_point(probe(ph, i), m.seen_by_instruction()))
    return out


def _runs(observations):
    """Splits into runs: every observation is a run of its own, except that adjacent `probe-value`
    observations form one run."""
    out = []
    for o in observations:
        if o[0] == 'probe-value' and out and out[-1][0][0] == 'probe-value':
            out[-1].append(o)
        else:
            out.append([o])
    return out


def same_observations(got, want) -> bool:
    """The order in which `env` without -of evaluates its value for the two sets is not specified: adjacent
    `probe-value` observations (at most two) may come in either order.  Everything else in order."""
    g, w = _runs(got), _runs(want)
    if len(g) != len(w):
        return False
    for a, b in zip(g, w):
        if len(a) != len(b):
            return False
        if len(a) == 1:
            if a[0] != b[0]:
                return False
        elif len(a) == 2:
            if not ((a[0] == b[0] and a[1] == b[1]) or (a[0] == b[1] and a[1] == b[0])):
                return False
        else:
            return False
    return True


def _history_of(args, k: int):
    return tuple((args[2 * i], args[2 * i + 1]) for i in range(k))


def _form_ranges(case):
    k = case['k']
    return tuple(case.get('ranges') or ((0, NBASE),) * k)


def _pre_k3(f0: int, p0: int, f1: int, p1: int, f2: int, p2: int) -> bool:
    from harness import _C11_lib as L
    case = ob.case()
    k = case['k']
    args = (f0, p0, f1, p1, f2, p2)
    for x in args[2 * k:]:
        if x != 0:
            return False
    h = _history_of(args, k)
    phases = tuple(case['phases'])
    ranges = _form_ranges(case)
    for i, (f, p) in enumerate(h):
        if p != phases[i] or not (ranges[i][0] <= f < ranges[i][1]):
            return False
    h = tuple((ob.concrete_int(f, ranges[i][0], ranges[i][1] - 1), phases[i]) for i, (f, p) in enumerate(h))
    with L.untraced():
        return expected_observations(h, {}, '/R/W/S/act') is not None


def run_history(h, recorder=None, actor: str = 'command-shell', stdin=None):
    import os
    from harness import _C11_lib as L
    saved = {n: os.environ.get(n) for n in ('A', 'B', 'P', 'U')}
    os.environ['A'] = INITIAL_A
    for n in ('B', 'P', 'U'):
        os.environ.pop(n, None)
    try:
        initial = dict(os.environ)
        if recorder is None:
            recorder = L.Recorder(stdout_of=stand_in_child_stdout)
        run = L.run_main_program(case_text(h, actor, stdin), recorder, FILES_IN_HOME)
    finally:
        for n, v in saved.items():
            if v is None:
                os.environ.pop(n, None)
            else:
                os.environ[n] = v
    return initial, run


def observed(call, actor: str = 'command-shell'):
    """(name of the probe, environment, timeout, current directory, arguments) of a recorded process."""
    words = call.tag.split(' ')
    name, args = words[0], tuple(words[1:])
    if name == 'probe-via-program-symbol':  # `run @ PP NAME`: program of PP, arguments of PP, NAME
        name, args = words[-1] + VIA_SYMBOL, tuple(words[1:-1]) + (call.stdin_text,)
    elif name == 'probe-act' and actor.endswith('-interpreter'):
        args = path_args(call.cwd)  # interpreter actors: the argument is the source file, not the path symbols
    return name, call.env, call.timeout, call.cwd, args


def check_run(h, initial, run, ints=None, bug: int = 0, actor: str = 'command-shell', stdin_form=None) -> bool:
    if run.exception is not None or run.rc != 0 or run.ident != 'PASS' or len(run.sandbox_roots) != 1:
        return False
    if run.environ_after != run.environ_before:  # the environment of Exactly itself is not the medium
        return False
    want = expected_observations(h, initial, run.act_dir, ints, bug, stdin_form)
    got = [observed(c, actor) for c in run.calls]
    if stdin_form is not None:
        # the action to check finds on its stdin what the (last) program behind it wrote
        for i, c in enumerate(run.calls):
            if c.tag.startswith('probe-act') and (i == 0 or c.stdin_text != stand_in_child_stdout(run.calls[i - 1].tag)):
                return False
    return want is not None and same_observations(got, want)


def k3_history(f0: int, p0: int, f1: int, p1: int, f2: int, p2: int) -> bool:
    """
    pre: _pre_k3(f0, p0, f1, p1, f2, p2)
    post: _
    """
    from harness import _C11_lib as L
    case = ob.case()
    k = case['k']
    phases = tuple(case['phases'])
    ranges = _form_ranges(case)
    h = _history_of((f0, p0, f1, p1, f2, p2), k)
    h = tuple((ob.concrete_int(f, ranges[i][0], ranges[i][1] - 1), phases[i]) for i, (f, p) in enumerate(h))
    with L.untraced():
        initial, run = run_history(h, None, case.get('actor', 'command-shell'))
        ok = check_run(h, initial, run, None, case.get('oracle_bug', 0), case.get('actor', 'command-shell'))
    return ob.post(ok)


# K3 with the program behind the stdin of the action to check.

def _pre_k3i(f0: int, f1: int, sf: int, sp: int) -> bool:
    from harness import _C11_lib as L
    case = ob.case()
    phases = tuple(case['phases'])
    k = len(phases)
    ranges = _form_ranges(dict(case, k=k))
    fs = (f0, f1)
    for x in fs[k:]:
        if x != 0:
            return False
    for i in range(k):
        if not (ranges[i][0] <= fs[i] < ranges[i][1]):
            return False
    lo, hi = case.get('stdin_forms', (0, len(STDIN_FORMS)))
    if not (lo <= sf < hi and 0 <= sp <= len([p for p in phases if p == 0])):
        return False
    h = tuple((ob.concrete_int(fs[i], ranges[i][0], ranges[i][1] - 1), phases[i]) for i in range(k))
    with L.untraced():
        return expected_observations(h, {}, '/R/W/S/act') is not None


def k3_stdin(f0: int, f1: int, sf: int, sp: int) -> bool:
    """
    pre: _pre_k3i(f0, f1, sf, sp)
    post: _
    """
    from harness import _C11_lib as L
    case = ob.case()
    phases = tuple(case['phases'])
    k = len(phases)
    ranges = _form_ranges(dict(case, k=k))
    fs = (f0, f1)
    h = tuple((ob.concrete_int(fs[i], ranges[i][0], ranges[i][1] - 1), phases[i]) for i in range(k))
    lo, hi = case.get('stdin_forms', (0, len(STDIN_FORMS)))
    sf = ob.concrete_int(sf, lo, hi - 1)
    sp = ob.concrete_int(sp, 0, len([p for p in phases if p == 0]))
    actor = case.get('actor', 'command-shell')
    with L.untraced():
        initial, run = run_history(h, None, actor, (sf, sp))
        ok = check_run(h, initial, run, None, case.get('oracle_bug', 0), actor, sf)
    return ob.post(ok)


# K3 with symbolic data: the timeouts and the initial value of A are symbolic; the history is concrete.

class _FakeOs:
    """Stands in for the `os` module as seen by predefined_properties.os_environ_getter: the environment
    Exactly was started with."""

    def __init__(self, environ):
        self.environ = environ


def _pre_k3s(t0: int, t1: int, a: str) -> bool:
    tmax = ob.case()['tmax']
    return 0 <= t0 <= tmax and 0 <= t1 <= tmax and len(a) <= 2


def k3_symbolic(t0: int, t1: int, a: str) -> bool:
    """
    pre: _pre_k3s(t0, t1, a)
    post: _
    """
    from harness import _C11_lib as L
    from vsym import xly
    from exactly_lib.execution import predefined_properties
    case = ob.case()
    h = tuple(case['history'])
    started_with = {'A': a, 'HOME': '/home/x'}
    real_os = predefined_properties.os
    predefined_properties.os = _FakeOs(started_with)
    xly.install_int_placeholders([t0, t1])
    try:
        recorder = L.Recorder(inherited_environ=lambda: started_with,
                              stdout_of=stand_in_child_stdout)
        run = L.run_main_program(case_text(h, case.get('actor', 'command-shell')), recorder, FILES_IN_HOME)
    finally:
        predefined_properties.os = real_os
        xly.uninstall_int_placeholders()
    return ob.post(check_run(h, {'A': a, 'HOME': '/home/x'}, run, {'K0': t0, 'K1': t1}, case.get('oracle_bug', 0))
                   and started_with == {'A': a, 'HOME': '/home/x'})


# ----------------------------------------------------------------------------- obligations

REAL_K2 = (
    'exactly_lib.impls.instructions.multi_phase.environ.impl.TheInstructionEmbryo.main',
    'exactly_lib.impls.instructions.multi_phase.environ.impl.TheInstructionEmbryo._resolve_applier',
    'exactly_lib.impls.instructions.multi_phase.environ.impl.TheInstructionEmbryo._resolve_applier_factory',
    'exactly_lib.impls.instructions.multi_phase.environ.impl._ApplierFactoryWSupportForNonSetupPhase',
    'exactly_lib.impls.instructions.multi_phase.environ.impl._ApplierFactoryWSupportForSetupAndNonSetupPhases',
    'exactly_lib.impls.instructions.multi_phase.environ.impl.ModifierApplierForNonSetupPhase',
    'exactly_lib.impls.instructions.multi_phase.environ.impl.ModifierApplierForSetupPhase',
    'exactly_lib.impls.instructions.multi_phase.environ.impl.SequenceOfAppliers',
    'exactly_lib.impls.instructions.multi_phase.environ.impl.ModifierOfSet',
    'exactly_lib.impls.instructions.multi_phase.environ.impl.ModifierUnset',
    'exactly_lib.impls.instructions.multi_phase.environ.impl.ModifierAdvForSet',
    'exactly_lib.impls.instructions.multi_phase.environ.impl._expand_vars',
    'exactly_lib.impls.instructions.multi_phase.environ.parse.EmbryoParser',
    'exactly_lib.test_case.phases.instruction_settings.InstructionSettings',
    'exactly_lib.test_case.phases.setup.settings_builder.SetupSettingsBuilder',
)
REAL_K2T = (
    'exactly_lib.impls.instructions.multi_phase.timeout.parse.EmbryoParser',
    'exactly_lib.impls.instructions.multi_phase.timeout.impl.TheInstructionEmbryo',
    'exactly_lib.test_case.phases.instruction_settings.InstructionSettings',
    'exactly_lib.impls.types.integer.parse_integer.validator_for_non_negative',
)
REAL_K3 = (
    'exactly_lib.cli.main_program.MainProgram.execute',
    'exactly_lib.execution.partial_execution.impl.executor._PartialExecutor.execute',
    'exactly_lib.execution.partial_execution.impl.executor._PartialExecutor._post_sds_environment',
    'exactly_lib.execution.partial_execution.impl.executor._PartialExecutor._post_sds_main_environments',
    'exactly_lib.execution.partial_execution.impl.executor._PartialExecutor._construct_act_phase_executor',
    'exactly_lib.execution.partial_execution.impl.executor._PartialExecutor._env_vars__read_only',
    'exactly_lib.execution.partial_execution.impl.executor._PartialExecutor._set_cwd_to_act_dir',
    'exactly_lib.execution.partial_execution.setup_settings_handler.StandardSetupSettingsHandler',
    'exactly_lib.execution.partial_execution.setup_settings_handler.AtcExecutionInputAdv',
    'exactly_lib.execution.partial_execution.impl.atc_execution.ActionToCheckExecutor',
    'exactly_lib.execution.impl.phase_step_executors.SetupMainExecutor',
    'exactly_lib.execution.impl.phase_step_executors.BeforeAssertMainExecutor',
    'exactly_lib.execution.impl.phase_step_executors.AssertMainExecutor',
    'exactly_lib.execution.impl.phase_step_executors.CleanupMainExecutor',
    'exactly_lib.execution.predefined_properties.os_environ_getter',
    'exactly_lib.impls.actors.util.atc_proc_exe_settings.for_atc',
    'exactly_lib.impls.instructions.multi_phase.environ.impl.TheInstructionEmbryo.main',
    'exactly_lib.impls.instructions.multi_phase.environ.impl.ModifierApplierForNonSetupPhase',
    'exactly_lib.impls.instructions.multi_phase.environ.impl.ModifierApplierForSetupPhase',
    'exactly_lib.impls.instructions.multi_phase.environ.impl._expand_vars',
    'exactly_lib.impls.instructions.multi_phase.environ.parse.EmbryoParser',
    'exactly_lib.impls.instructions.multi_phase.change_dir.InstructionEmbryo.custom_main',
    'exactly_lib.impls.instructions.multi_phase.change_dir.EmbryoParser',
    'exactly_lib.impls.instructions.multi_phase.timeout.parse.EmbryoParser',
    'exactly_lib.impls.instructions.multi_phase.timeout.impl.TheInstructionEmbryo.main',
    'exactly_lib.test_case.phases.instruction_settings.InstructionSettings',
    'exactly_lib.test_case.phases.setup.settings_builder.SetupSettingsBuilder',
    'exactly_lib.util.process_execution.process_executor.ProcessExecutor.execute',
    'exactly_lib.definitions.os_proc_env.TIMEOUT__DEFAULT',
)
REAL_K3I = (
    'exactly_lib.execution.partial_execution.setup_settings_handler.AtcExecutionInputAdv.resolve',
    'exactly_lib.execution.partial_execution.impl.atc_execution.ActionToCheckExecutor._app_env_for_execute',
    'exactly_lib.impls.instructions.setup.stdin.Parser',
)
STUB_SUBPROCESS = ('subprocess module at process_executor / preprocessor: recording stand-in that starts nothing; records command line, '
                   'env= (None: os.environ at that moment), timeout=, cwd= (absent: os.getcwd() at that moment); exit code 0')
STUB_UNTRACED = ('CrossHair tracing is suspended (crosshair.tracers.NoTracing) once every selector has been made concrete: the real '
                 'program runs natively on concrete data, the solver enumerates the selector space exhaustively')
STUB_OS_ENVIRON = ('`os` as seen by predefined_properties.os_environ_getter: object whose `environ` is a dict with a symbolic value; '
                   'a child started with env=None is taken to inherit that same dict')
STUB_INT = 'python_evaluate -> placeholder table (the integer literal K0 denotes the symbolic integer)'
STUB_GETTER = 'default_environ_getter argument of InstructionSettings: returns a fresh copy of a dict with symbolic contents'


def _k2_form_name(forms) -> str:
    return '+'.join(K2_FORMS[f][0].replace(' ', '') for f in forms)


def obligations(tier: str) -> List[Ob]:
    obs = []
    # ---- K1
    lens = (0, 1, 2, 3, 4, 5) if tier == 'quick' else (0, 1, 2, 3, 4, 5, 6)
    for n in lens:
        if n < 5:
            parts = [None]
        elif n == 5:
            parts = [('$', '{'), ('$', '$}A_x'), ('{}',), ('A_x',)]
        else:
            parts = [('$', '{', c) for c in K1_ALPHABET] + [('$', '$}A_x')] + [(c,) for c in K1_ALPHABET[1:]]
        for i, part in enumerate(parts):
            obs.append(Ob(name='K1:expand:len%d%s' % (n, '' if part is None else ':part%d' % i), fn='k1_expand',
                          case=dict(len=n, valen=2, chars=part), kernel='K1',
                          bound='every value of exactly %d characters over {$ { } A _ x}%s; variable A unset or any text of <= 2 '
                                'characters over the same alphabet, x unset or "X", Ax = "L"' % (
                                    n, '' if part is None else ' whose first characters are in %s' % ' '.join('{%s}' % ' '.join(c) for c in part)),
                          timeout=900, real=REAL_K1, entry='_expand_vars (reached from `env NAME = VALUE`, see K2 / K3)'))
    for n in ((6,) if tier == 'quick' else (6, 7)):
        obs.append(Ob(name='K1:expand:ref+tail:len%d' % n, fn='k1_expand', case=dict(len=n, valen=2, prefix='${A}'), kernel='K1',
                      bound='every value "${A}" + %d characters over {$ { } A _ x}; A unset or any text of <= 2 characters over the same '
                            'alphabet (a substituted text may complete a reference)' % (n - 4),
                      timeout=900, real=REAL_K1, entry='_expand_vars'))
    obs.append(Ob(name='K1:seeded-oracle-error-2', fn='k1_expand', case=dict(len=6, valen=2, prefix='${A}', oracle_bug=2),
                  kernel='K1', bound='seeded: the substituted text is expanded again', timeout=300, expect=ob.REFUTE))
    for bug, what in ((1, 'unknown name kept verbatim'), (3, '${} taken as a reference')):
        obs.append(Ob(name='K1:seeded-oracle-error-%d' % bug, fn='k1_expand', case=dict(len=4, valen=1, oracle_bug=bug),
                      kernel='K1', bound='seeded: ' + what, timeout=300, expect=ob.REFUTE))
    # ---- K2
    singles = [(f,) for f in range(len(K2_FORMS))]
    # sequences follow from the single steps (every reachable pair of sets is among the symbolic initial states, and the two
    # sets are checked not to be the same object); a few pairs are run all the same
    pairs = [(4, 1)] if tier == 'quick' else [(0, 1), (1, 1), (4, 1), (1, 3), (3, 2), (2, 4), (4, 0), (5, 3)]
    for forms in singles + pairs:
        phases = (('setup', 'before-assert') if tier == 'quick' else K2_PHASES) if len(forms) == 1 else ('setup',)
        obs.append(Ob(name='K2:env:' + _k2_form_name(forms), fn='k2_apply', case=dict(forms=forms, phases=phases), kernel='K2',
                      bound='instruction(s) `env{T} %s`, every T in {none, -of act, -of !act} per instruction, in each of %s; '
                            'non-act set / act set: unset (inherit) or a dict with B set and A unset or any text of <= 2 '
                            'characters; default environment likewise' % ('`, `env{T} '.join(K2_FORMS[f][0] for f in forms), list(phases)),
                      timeout=600, real=REAL_K2, stubs=(STUB_GETTER,),
                      entry='instruction parsed from a test-case text by the real parser; instruction.main(...)'))
    obs.append(Ob(name='K2:seeded-oracle-error-1', fn='k2_apply', case=dict(forms=(1,), phases=('setup',), oracle_bug=1), kernel='K2',
                  bound='seeded: value always expanded against the non-act set', timeout=300, expect=ob.REFUTE))
    obs.append(Ob(name='K2:seeded-oracle-error-2', fn='k2_apply', case=dict(forms=(4,), phases=('before-assert',), oracle_bug=2),
                  kernel='K2', bound='seeded: `-of act` after the act phase changes the act set', timeout=300, expect=ob.REFUTE))
    for ph in (('setup', 'cleanup') if tier == 'quick' else K2_PHASES):
        obs.append(Ob(name='K2:timeout:' + ph, fn='k2_timeout', case=dict(phase=ph), kernel='K2',
                      bound='`timeout = K0` for every integer K0 >= -99 (negative: rejected by validation) and `timeout = none`, in [%s]' % ph,
                      timeout=300, real=REAL_K2T, stubs=(STUB_INT,),
                      entry='instruction parsed from a test-case text by the real parser; validate_pre_sds, main'))
    obs.append(Ob(name='K2:timeout:seeded-oracle-error', fn='k2_timeout', case=dict(phase='setup', oracle_bug=True), kernel='K2',
                  bound='seeded: 0 is claimed to be rejected', timeout=300, expect=ob.REFUTE))
    # ---- K3
    import itertools
    stubs_k3 = (STUB_SUBPROCESS, 'counting sandbox resolver (MainProgram constructor argument)', 'in-memory stdout/stderr')
    outside_k3 = ('histories in which a `cd` names a directory that does not exist (the case ends HARD_ERROR there)',
                  'that a started child really receives env= / cwd / timeout= (contract of subprocess.call)',
                  'changing directory inside a child process (OS behaviour, no code of exactly_lib involved)')
    probes = ('a probe point before and after every one of them and at the start of every phase (a process started by `$`, `%` or '
              '`run` given three path symbols defined once with cwd relativity as arguments; a process started through a program '
              'symbol defined once, its stdin a text-source symbol defined once whose program is a process too), and the act phase '
              'process; observed: environment, timeout, current directory, the arguments (resolved paths) and the stdin text')

    def k3(name, case, forms_text, expect=ob.CONFIRM, timeout=1200):
        phases = case['phases']
        return Ob(name=name, fn='k3_history', case=case, kernel='K3', selector=True,
                  bound='every history of %d instruction(s) %s placed in [%s]; %s' % (
                      case['k'], forms_text, '], ['.join(PHASES[p] for p in phases), probes),
                  timeout=timeout, real=REAL_K3, stubs=stubs_k3 + (STUB_UNTRACED,), outside=outside_k3, expect=expect,
                  entry='MainProgram.execute([FILE]) on the generated test-case file')

    base_text = 'out of the %d forms %s' % (NBASE, [f[0] for f in FORMS[:NBASE]])
    prog_text = 'one of them out of %s, the others %s' % ([f[0] for f in FORMS[NBASE:NPROG]], base_text)
    kmax = 2 if tier == 'quick' else 3
    for k in range(0, kmax + 1):
        for phases in itertools.combinations_with_replacement(range(len(PHASES)), k):
            name = 'K3:history:k%d:%s' % (k, '+'.join(PHASES[p] for p in phases) or 'none')
            if k < 3:
                obs.append(k3(name, dict(k=k, phases=phases), base_text))
            else:
                step = 6
                for lo in range(0, NBASE, step):
                    hi = min(lo + step, NBASE)
                    obs.append(k3('%s:f%d-%d' % (name, lo, hi - 1), dict(k=k, phases=phases, ranges=((lo, hi), (0, NBASE), (0, NBASE))),
                                  base_text + ' (first form: index %d..%d)' % (lo, hi - 1), timeout=2400))
    # the value of the variable comes from a program
    for k in (1, 2):
        for phases in itertools.combinations_with_replacement(range(len(PHASES)), k):
            for pos in range(k):
                if tier == 'quick' and k == 2 and (phases, pos) not in (((0, 0), 1), ((0, 1), 1)):
                    continue
                ranges = tuple((NBASE, NPROG) if i == pos else (0, NBASE) for i in range(k))
                obs.append(k3('K3:value-program:k%d:%s:pos%d' % (k, '+'.join(PHASES[p] for p in phases), pos),
                              dict(k=k, phases=phases, ranges=ranges), prog_text))
    # the act phase process started by every kind of actor
    for actor in ACTORS:
        if actor == 'command-shell':
            continue
        for phases in (((0,),) if tier == 'quick' else ((0,), (0, 0), (0, 1))):
            k = len(phases)
            obs.append(k3('K3:actor:%s:k%d:%s' % (actor, k, '+'.join(PHASES[p] for p in phases)),
                          dict(k=k, phases=phases, actor=actor, ranges=((0, NPROG),) + ((0, NBASE),) * (k - 1)),
                          'the first out of the %d forms %s, the others out of the first %d of these; actor %s: %s' % (
                              NPROG, [f[0] for f in FORMS[:NPROG]], NBASE, actor, ACTORS[actor])))
    # the program behind the stdin of the action to check
    stdin_text = ('`stdin = TEXT-SOURCE` placed in [setup] before / between / after them in every way, TEXT-SOURCE every one of %s: '
                  'the process(es) producing the text see the non-act set, the timeout and the current directory as they stand at '
                  'the end of [setup], the action to check the act set, and it reads on its stdin what the program wrote; '
                  % [f[0] for f in STDIN_FORMS])

    def k3i(name, case, forms_text, expect=ob.CONFIRM, timeout=900):
        phases = case['phases']
        return Ob(name=name, fn='k3_stdin', case=case, kernel='K3', selector=True,
                  bound='every history of %d instruction(s) %s placed in [%s]; %s%s' % (
                      len(phases), forms_text, '], ['.join(PHASES[p] for p in phases), stdin_text, probes),
                  timeout=timeout, real=REAL_K3 + REAL_K3I, stubs=stubs_k3 + (STUB_UNTRACED,), outside=outside_k3 + (
                      'the form `-stdin TEXT-SOURCE` written inside [act]',), expect=expect,
                  entry='MainProgram.execute([FILE]) on the generated test-case file')

    stdin_histories = [(), (0,), (0, 0)] if tier == 'quick' else [(), (0,), (0, 0), (0, 1), (0, 2), (0, 3), (1, 2)]
    for phases in stdin_histories:
        name = 'K3:stdin-program:k%d:%s' % (len(phases), '+'.join(PHASES[p] for p in phases) or 'none')
        if len(phases) < 2:
            obs.append(k3i(name, dict(phases=phases), base_text))
        else:
            for sfi in range(len(STDIN_FORMS)):
                obs.append(k3i('%s:form%d' % (name, sfi), dict(phases=phases, stdin_forms=(sfi, sfi + 1)),
                               base_text + ' (TEXT-SOURCE: form %d only)' % sfi))
    for actor in ACTORS:
        if actor != 'command-shell':
            obs.append(k3i('K3:stdin-program:actor:%s' % actor, dict(phases=(0,), actor=actor, ranges=((0, NPROG),)),
                           'out of the %d forms %s; actor %s: %s' % (NPROG, [f[0] for f in FORMS[:NPROG]], actor, ACTORS[actor])))
    obs.append(k3i('K3:stdin-program:seeded-oracle-error', dict(phases=(0,), oracle_bug=7),
                   'seeded: the program behind stdin is claimed to see the act set', expect=ob.REFUTE, timeout=600))
    obs.append(k3('K3:seeded-oracle-error-atc-sees-non-act-set', dict(k=1, phases=(0,), oracle_bug=5),
                  'seeded: the act process is claimed to see the non-act set', expect=ob.REFUTE, timeout=600))
    obs.append(k3('K3:seeded-oracle-error-timeout-ignored', dict(k=1, phases=(2,), oracle_bug=6),
                  'seeded: `timeout` is claimed to have no effect', expect=ob.REFUTE, timeout=600))

    # symbolic data through the whole program
    def fi(text):
        return [i for i, f in enumerate(FORMS) if f[0] == text][0]

    sym = [
        ('timeouts', (('timeout = K0', 0), ('timeout = K1', 1))),
        ('env-timeout-env', (('env A = "${A}2"', 0), ('timeout = K0', 1), ('env B = "<${A}${U}>"', 2))),
        ('act-nonact-timeout', (('env -of act A = "${A}2"', 0), ('env -of !act unset A', 0), ('timeout = K0', 2))),
    ]
    if tier == 'thorough':
        sym += [
            ('timeout-none-timeout', (('timeout = K0', 0), ('timeout = none', 0), ('timeout = K1', 3))),
            ('nonact-program-timeout', (('env -of !act B = "<${A}${U}>"', 0), ('env P = ' + VALUE_PROGRAM, 0), ('timeout = K1', 3))),
            ('cd-timeout-env', (('cd sub', 0), ('timeout = K0', 0), ('env A = 1', 1))),
            ('timeouts-late', (('timeout = K0', 2), ('env -of act A = 1', 2), ('timeout = K1', 3))),
            ('act-program', (('timeout = K1', 0), ('env -of act P = ' + VALUE_PROGRAM, 0), ('env unset A', 1))),
        ]
    tmax = 99 if tier == 'quick' else 9999
    for name, hist in sym:
        h = tuple((fi(t), p) for t, p in hist)
        obs.append(Ob(name='K3:symbolic:' + name, fn='k3_symbolic', case=dict(history=h, tmax=tmax), kernel='K3',
                      bound='the history %s; every K0, K1 in [0, %d] (integer literals through the real parser); A of the environment '
                            'Exactly is started with: any text of <= 2 characters; %s' % (
                                ['[%s] %s' % (PHASES[p], t) for t, p in hist], tmax, probes),
                      timeout=900, real=REAL_K3, stubs=stubs_k3 + (STUB_INT, STUB_OS_ENVIRON), outside=outside_k3,
                      entry='MainProgram.execute([FILE]) on the generated test-case file'))
    obs.append(Ob(name='K3:symbolic:seeded-oracle-error', fn='k3_symbolic',
                  case=dict(history=((fi('timeout = K0'), 0), (fi('timeout = K1'), 1)), tmax=99, oracle_bug=6), kernel='K3',
                  bound='seeded: `timeout` is claimed to have no effect', timeout=600, expect=ob.REFUTE))
    return obs


def selftest(tier) -> int:
    """Concrete comparison of the reference expansion with an independent definition, and of the recording
    stand-in's reading of `env=None` / `cwd` with a REAL child process."""
    import itertools
    import os
    import subprocess
    import sys
    import re
    n = 0
    alphabet = '${}A_x1'
    envs = ({}, {'A': 'va'}, {'A': '${x}', 'x': 'X'}, {'A': '${', 'x': 'X', 'Ax': 'L', '1': 'one'})
    # the reference expansion against the manual's definition written as a regular-expression substitution (not exactly_lib code:
    # a defect in exactly_lib must show as a VIOLATION of an obligation, not as a failing self-test)
    documented = re.compile(r'\$\{([a-zA-Z0-9_]+)\}')
    for length in range(0, 6 if tier == 'quick' else 7):
        for t in itertools.product(alphabet, repeat=length):
            v = ''.join(t)
            for e in envs:
                if documented.sub(lambda m: e.get(m.group(1), ''), v) != ref.expand(v, dict(e)):
                    raise AssertionError('reference expansion differs from the documented substitution on %r %r' % (v, e))
                n += 1
    # the assumed contract of subprocess.call: env=None => the child inherits os.environ, no cwd= => it starts in os.getcwd();
    # a child that changes its directory does not change ours
    from harness import _C11_lib as L
    rec = L.Recorder()
    os.environ['C11_SELFTEST'] = 'inherited'
    here = os.getcwd()
    try:
        rec.call(['x'], env=None)
        out = subprocess.run([sys.executable, '-c', 'import os; print(os.environ.get("C11_SELFTEST")); print(os.getcwd()); os.chdir("/")'],
                             stdout=subprocess.PIPE, env=None).stdout.decode().split('\n')
    finally:
        del os.environ['C11_SELFTEST']
    if rec.calls[0].env.get('C11_SELFTEST') != out[0] or os.path.realpath(rec.calls[0].cwd) != os.path.realpath(out[1]):
        raise AssertionError('recording stand-in differs from a real child: %r %r' % (rec.calls[0], out))
    if os.getcwd() != here:
        raise AssertionError('a child changed the current directory of its parent')
    return n + 3


ASSUMPTIONS = [
    'subprocess.call is the only way exactly_lib starts processes (process_executor.py, preprocessor.py); a child started with '
    'env=None inherits os.environ and, no cwd= being given, starts in os.getcwd() of that moment; timeout= is enforced by subprocess '
    '(C19)',
    'reference manual, instruction `env`: "If STRING-SOURCE involves a PROGRAM, it will be executed in an environment with the '
    'environment variables of the specified phase" - the program computing the value for `env -of act` is therefore expected to see '
    'the ACT set (the only process besides the act phase process that does)',
    'the default timeout is 60 seconds (reference manual)',
]
OUTSIDE = [
    'changing directory inside a child process does not change the current directory of the test: behaviour of the OS (checked once, '
    'concretely, in the self-test); no code of exactly_lib is involved',
    '`def` (named in the title of the property, not in its statement): definition-before-use and visibility of symbols is C08',
    'histories longer than the bound; variable names / values / directories other than those of the stated forms',
    'cd to a directory that does not exist (HARD_ERROR; the execution protocol after a failure is C01 / C02)',
]
