"""Helpers of the C10 harness: the OS stand-in at the single choke point
`exactly_lib.util.process_execution.process_executor.subprocess`, and a runner for whole
test cases (text -> REAL test-case parser -> REAL full_execution.execute).

Nothing here models exactly_lib.  The recorder stands in for the `subprocess` module:

    contract assumed of subprocess.call(args, stdin=, stdout=, stderr=, env=, timeout=, shell=):
      it hands exactly `args` (a list: the argument vector; a str with shell=True: the command
      line for the shell) to the OS, the child reads `stdin`, writes to `stdout` / `stderr`,
      inherits the cwd of the calling process at the time of the call (no cwd= is given), and
      its exit code is returned.

The recorder records (args, shell, text readable from stdin, os.getcwd(), env, timeout, any
extra keyword), lets a `behaviour` callable (the "child") choose what is written to stdout /
stderr and which code is returned (or which exception is raised).  Like a real child it reads
and writes THROUGH THE FILE DESCRIPTORS (os.read / os.write at the current offset), not through
the parent's file objects: text the parent has written to a file object but not flushed is not
in the file yet when the child writes.
"""
import os
import pathlib
import subprocess as _real_subprocess
from typing import Callable, Dict, List, Optional, Sequence, Tuple

from vsym import scratch


class Call:
    def __init__(self, args, shell, stdin_text, stdin_obj, stdout_obj, stderr_obj, cwd, env, timeout, extra):
        self.args = args
        self.shell = shell
        self.stdin_text = stdin_text  # None: no stdin (DEVNULL / None)
        self.stdin_obj = stdin_obj
        self.stdout_obj = stdout_obj
        self.stderr_obj = stderr_obj
        self.cwd = cwd
        self.env = env
        self.timeout = timeout
        self.extra = extra
        self.files = {}  # path -> contents, of argv elements the behaviour chose to read

    def __repr__(self):
        return 'Call(args=%r, shell=%r, stdin=%r, cwd=%r, extra=%r)' % (
            self.args, self.shell, self.stdin_text, self.cwd, self.extra)


class Child:
    """What the stand-in child process does: (stdout text, stderr text, exit code) or raise.
    `out` / `err` may also be `bytes`: a child writes BYTES to its descriptors - nothing obliges them to be the
    encoding of a text (they are then written as they are)."""

    def __init__(self, out='', err='', code: int = 0, raises: Optional[Exception] = None,
                 read_file_arg: Optional[int] = None):
        self.out, self.err, self.code, self.raises = out, err, code, raises
        self.read_file_arg = read_file_arg  # index of an argv element that is a file to be read (source interpreter)


def _fileno(f):
    try:
        return f.fileno()
    except (AttributeError, OSError, ValueError):
        return None


def _write_through_descriptor(f, text):
    """A child process writes to the DESCRIPTOR it inherits, at the current offset of the open file
    description - it knows nothing of what the parent's file OBJECT still holds in its buffer.
    (Objects without a descriptor - in-memory files - are written at Python level.)
    `text`: str (encoded with the encoding of the file) or bytes (written as they are)."""
    fd = _fileno(f)
    if fd is None:
        f.write(text if isinstance(text, str) else text.decode('utf-8', 'surrogateescape'))
        return
    data = text if isinstance(text, bytes) else text.encode(getattr(f, 'encoding', None) or 'utf-8')
    while data:
        n = os.write(fd, data)
        data = data[n:]


def _read_through_descriptor(f) -> str:
    """A child process reads its stdin from the descriptor, from the current offset, until EOF."""
    fd = _fileno(f)
    if fd is None:
        return f.read()
    chunks = []
    while True:
        b = os.read(fd, 65536)
        if not b:
            break
        chunks.append(b)
    return b''.join(chunks).decode(getattr(f, 'encoding', None) or 'utf-8')


class Recorder:
    """Stands in for the `subprocess` module inside process_executor."""
    DEVNULL = _real_subprocess.DEVNULL
    PIPE = _real_subprocess.PIPE
    STDOUT = _real_subprocess.STDOUT
    TimeoutExpired = _real_subprocess.TimeoutExpired
    SubprocessError = _real_subprocess.SubprocessError
    CalledProcessError = _real_subprocess.CalledProcessError

    def __init__(self, behaviour: Callable[[Call], Child]):
        self.behaviour = behaviour
        self.calls: List[Call] = []

    def call(self, args, stdin=None, stdout=None, stderr=None, env=None, timeout=None, shell=False, **extra):
        stdin_text = None
        if stdin is not None and hasattr(stdin, 'read'):
            stdin_text = _read_through_descriptor(stdin)
        c = Call(args, shell, stdin_text, stdin, stdout, stderr, os.getcwd(), env, timeout, dict(extra))
        self.calls.append(c)
        child = self.behaviour(c)
        if child.read_file_arg is not None and not isinstance(args, str):
            p = args[child.read_file_arg]
            try:
                with open(p) as f:
                    c.files[p] = f.read()
            except OSError as e:
                c.files[p] = 'UNREADABLE: %s' % e
        if child.raises is not None:
            raise child.raises
        if stdout is not None and hasattr(stdout, 'write'):
            _write_through_descriptor(stdout, child.out)
        if stderr is not None and hasattr(stderr, 'write'):
            _write_through_descriptor(stderr, child.err)
        return child.code

    # anything else the real module offers is not part of the contract
    def __getattr__(self, name):
        raise AttributeError('subprocess stand-in: %s is outside the assumed contract' % name)


def install(recorder: Recorder):
    from exactly_lib.util.process_execution import process_executor
    process_executor.subprocess = recorder


def uninstall():
    from exactly_lib.util.process_execution import process_executor
    process_executor.subprocess = _real_subprocess


# ----------------------------------------------------------------------------- whole test cases

_PARSER = None
_CASES: Dict[str, object] = {}


def _parser():
    global _PARSER
    if _PARSER is None:
        from exactly_lib.cli_default.program_modes.test_case import default_instructions_setup
        from exactly_lib.common import instruction_name_and_argument_splitter
        from exactly_lib.processing.instruction_setup import TestCaseParsingSetup
        from exactly_lib.processing.parse import test_case_parser
        from exactly_lib.processing.parse.act_phase_source_parser import ActPhaseParser
        _PARSER = test_case_parser.new_parser(TestCaseParsingSetup(
            instruction_name_and_argument_splitter.splitter,
            default_instructions_setup.INSTRUCTIONS_SETUP,
            ActPhaseParser()))
    return _PARSER


def parse_case(text: str):
    """The REAL test-case parser with the default instruction set; cached per (concrete) text:
    the parsed document is immutable (instructions hold SDVs; the ATC is built per execution)."""
    if text not in _CASES:
        from exactly_lib.processing.test_case_processing import TestCaseFileReference
        from exactly_lib.section_document.parse_source import ParseSource
        _CASES[text] = _parser().apply(
            TestCaseFileReference(pathlib.Path('/vsym/case.case'), pathlib.Path('/vsym')), ParseSource(text))
    return _CASES[text]


class CaseRun:
    def __init__(self):
        self.result = None
        self.exception = None
        self.calls: List[Call] = []
        self.sds_root = None
        self.hds = None
        self.cwd_before = None

    @property
    def status(self) -> str:
        if self.exception is not None:
            return 'EXCEPTION:%s' % type(self.exception).__name__
        return self.result.status.name

    @property
    def act_dir(self) -> str:
        return os.path.realpath(os.path.join(self.sds_root, 'act'))

    def failing_phase(self) -> str:
        if self.exception is not None or self.result.failure_info is None:
            return ''
        return self.result.failure_info.phase_step.phase.identifier

    def failing_line(self) -> str:
        """first source line of the instruction that failed ('' if none / act phase)"""
        if self.exception is not None or self.result.failure_info is None:
            return ''
        loc = self.result.failure_info.source_location
        if loc is None:
            return ''
        return loc.location.source.first_line.text

    def failure_text(self) -> str:
        if self.exception is not None:
            return repr(self.exception)
        fi = self.result.failure_info
        return '' if fi is None else str(fi)


def default_actor():
    from exactly_lib.cli_default.program_modes.test_case import test_case_handling_setup
    return test_case_handling_setup.setup().act_phase_setup.actor_nav


def run_case(text: str,
             recorder: Recorder,
             predefined: Optional[dict] = None,
             hds_files: Sequence[Tuple[str, str, int]] = (),
             inspect: Optional[Callable] = None,
             ) -> CaseRun:
    """text -> real parser -> real full_execution.execute (real default actor, real OsServices,
    real sandbox under a scratch dir with a deterministic name).  `hds_files`: (name, contents,
    mode) created in the home directory before the execution.  `inspect(run)` is called while
    the sandbox still exists."""
    from exactly_lib.execution.configuration import ExecutionConfiguration
    from exactly_lib.execution.full_execution import execution as full_execution
    from exactly_lib.execution.predefined_properties import os_environ_getter
    from exactly_lib.impls.os_services import os_services_access
    from exactly_lib.test_case.phases.configuration import ConfigurationBuilder
    from exactly_lib.util.symbol_table import SymbolTable

    run = CaseRun()
    tc = parse_case(text)
    work = scratch.new_dir('c10')
    hds = pathlib.Path(work) / 'home'
    hds.mkdir()
    for name, contents, mode in hds_files:
        p = hds / name
        with open(str(p), 'w') as f:
            f.write(contents)
        os.chmod(str(p), mode)
    run.hds = os.path.realpath(str(hds))
    sandbox = pathlib.Path(work) / 'sds'

    def resolver() -> str:
        sandbox.mkdir()
        run.sds_root = str(sandbox)
        return str(sandbox)

    exe_conf = ExecutionConfiguration(os_environ_getter, None, None,
                                      os_services_access.new_for_current_os(), resolver, 2 ** 10,
                                      SymbolTable(dict(predefined or {})))
    builder = ConfigurationBuilder(hds, hds, default_actor())
    run.cwd_before = os.getcwd()
    install(recorder)
    try:
        try:
            run.result = full_execution.execute(exe_conf, builder, True, tc)
        except Exception as e:  # noqa
            run.exception = e
        run.calls = list(recorder.calls)
        if inspect is not None:
            inspect(run)
    finally:
        uninstall()
        try:
            os.chdir(run.cwd_before)
        except OSError:
            pass
        _make_writable(work)
        scratch.remove(work)
    return run


def _make_writable(root: str):
    for d, dirs, files in os.walk(root):
        for f in files:
            try:
                os.chmod(os.path.join(d, f), 0o600)
            except OSError:
                pass


# ----------------------------------------------------------------------------- symbols with symbolic values

def string_symbol(value: str):
    """A string symbol whose value is `value` (may be a symbolic str): the container that
    `def string NAME = ...` would have put into the symbol table."""
    from exactly_lib.symbol.sdv_structure import SymbolContainer
    from exactly_lib.symbol.value_type import ValueType
    from exactly_lib.type_val_deps.types.string_ import string_sdvs
    return SymbolContainer(string_sdvs.str_constant(value), ValueType.STRING, None)


def list_symbol(values: Sequence[str]):
    from exactly_lib.symbol.sdv_structure import SymbolContainer
    from exactly_lib.symbol.value_type import ValueType
    from exactly_lib.type_val_deps.types.list_ import list_sdvs
    return SymbolContainer(list_sdvs.from_str_constants(list(values)), ValueType.LIST, None)


# ----------------------------------------------------------------------------- selector-only kernels

class _Null:
    def __enter__(self):
        return self

    def __exit__(self, *a):
        return False


def no_tracing():
    """Context in which CrossHair's tracer is suspended (no-op outside CrossHair).  Only for blocks in which
    every value is concrete (selectors already made concrete by ob.pick / ob.concrete_*): the real code then
    runs natively on concrete data; the solver's part is the exhaustive enumeration of the selector space."""
    try:
        from crosshair.tracers import NoTracing, is_tracing
    except ImportError:
        return _Null()
    if not is_tracing():
        return _Null()
    return NoTracing()
