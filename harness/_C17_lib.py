"""Helpers of harness/C17.py (independence of cases; suite contents).  No model of exactly_lib lives here.

* K1 works on REAL `TestSuiteDocument` / `TestCase` documents built from labelled section elements;
* K2 runs a sequence of stub test cases (vsym.exeharness: stub instructions of the public base classes) through ONE
  real case executor (`processors.new_executor_that_should_not_pollute_current_processes`) - exactly what
  `exactly suite` does with the cases of a suite - and records what the probes of each case see;
* K3 / K4 write suite and case files to a scratch directory and run the REAL `MainProgram.execute` on them in the
  three ways the property names (`suite FILE`, `--suite FILE CASE`, `CASE` beside `exactly.suite`); `subprocess` is
  replaced (at `process_executor.subprocess` and `preprocessor.subprocess`) by a recorder that starts nothing and
  records, per started "process", argv, cwd, environment, timeout and the listing of the sandbox directories.

What IS written here independently of the implementation is the reference oracle: where the contents of a suite go
in a case (before the case's own, after in cleanup, not in sub-suites), what an actor / preprocessor / status
configuration means, and what a case must observe when nothing leaked (the configured initial values).
"""
import io
import os
import subprocess as _real_subprocess
from typing import Callable, Dict, List, Optional, Sequence, Tuple

from vsym import scratch

PHASES = ('conf', 'setup', 'act', 'before-assert', 'assert', 'cleanup')


def getcwd() -> str:
    """os.getcwd(), or a description if the current directory does not exist any more (a removed sandbox)"""
    try:
        return os.getcwd()
    except OSError as e:
        return '<no current directory: %s>' % type(e).__name__


# ============================================================================= K1: documents of labelled elements

_LABEL_CLASSES = []


def _label_classes():
    """Per phase, an instruction class (of the public base class of the phase - the documents assert it) that is
    nothing but its label: the transformer must not look into instructions."""
    if not _LABEL_CLASSES:
        from exactly_lib.test_case.phases.act.instruction import ActPhaseInstruction
        from exactly_lib.test_case.phases.assert_ import AssertPhaseInstruction
        from exactly_lib.test_case.phases.before_assert import BeforeAssertPhaseInstruction
        from exactly_lib.test_case.phases.cleanup import CleanupPhaseInstruction
        from exactly_lib.test_case.phases.configuration import ConfigurationPhaseInstruction
        from exactly_lib.test_case.phases.setup.instruction import SetupPhaseInstruction
        for base in (ConfigurationPhaseInstruction, SetupPhaseInstruction, ActPhaseInstruction,
                     BeforeAssertPhaseInstruction, AssertPhaseInstruction, CleanupPhaseInstruction):
            class Labelled(base):
                def __init__(self, label: str):
                    self.label = label

            _LABEL_CLASSES.append(Labelled)
    return _LABEL_CLASSES


def _labelled(phase: int, label: str):
    return _label_classes()[phase](label)


def labelled_section(phase: int, labels: Sequence[str]):
    from exactly_lib.section_document import model
    from vsym import exeharness as xh
    return model.SectionContents(tuple(xh.element(_labelled(phase, l), i + 1, l) for i, l in enumerate(labels)))


def labels_of(section) -> List[str]:
    return [e.instruction_info.instruction.label for e in section.elements]


def labelled_case(prefix: str, counts: Sequence[int]):
    """TestCase whose phase number p holds counts[p] elements labelled '<prefix>-<phase>-<i>'"""
    from exactly_lib.test_case import test_case_doc
    secs = [labelled_section(p, ['%s-%s-%d' % (prefix, PHASES[p], i) for i in range(counts[p])]) for p in range(6)]
    return test_case_doc.TestCase(*secs)


def sections_of(test_case) -> List:
    return [test_case.configuration_phase, test_case.setup_phase, test_case.act_phase,
            test_case.before_assert_phase, test_case.assert_phase, test_case.cleanup_phase]


def expected_labels(suite_counts: Sequence[int], case_counts: Sequence[int], oracle_bug: bool = False,
                    default_marks: bool = False) -> List[List[str]]:
    """Reference oracle (property statement): contents of the suite before the case's own in every phase except
    cleanup, where they come after.  (default_marks: the default transformer has appended one element 'D-<phase>' to
    every phase of the case before the suite's contents are added.)"""
    out = []
    for p, name in enumerate(PHASES):
        s = ['S-%s-%d' % (name, i) for i in range(suite_counts[p])]
        c = ['C-%s-%d' % (name, i) for i in range(case_counts[p])]
        if default_marks:
            c = c + ['D-' + name]
        after = (name == 'cleanup')
        if oracle_bug and name == 'assert':
            after = True  # seeded oracle error
        out.append(c + s if after else s + c)
    return out


_DEFAULT_SETUP = []


def _stub_default_handling_setup(marks: bool):
    """The handling setup that is in force before the suite file is taken into account (stub actor, identity
    preprocessor; transformer: identity, or one that marks every phase of the case)."""
    from exactly_lib.processing.act_phase import ActPhaseSetup
    from exactly_lib.processing.preprocessor import IDENTITY_PREPROCESSOR
    from exactly_lib.processing.test_case_handling_setup import TestCaseHandlingSetup, TestCaseTransformer
    from exactly_lib.test_case import test_case_doc
    from exactly_lib.section_document import model
    from vsym import exeharness as xh
    if not _DEFAULT_SETUP:
        class Marker(TestCaseTransformer):
            def transform(self, test_case):
                secs = []
                for p, sec in enumerate(sections_of(test_case)):
                    secs.append(model.SectionContents(
                        tuple(sec.elements) + (xh.element(_labelled(p, 'D-' + PHASES[p]), 99, 'D'),)))
                return test_case_doc.TestCase(*secs)

        aps = ActPhaseSetup('stub-default-actor', object())
        _DEFAULT_SETUP.append((TestCaseHandlingSetup(aps, IDENTITY_PREPROCESSOR),
                               TestCaseHandlingSetup(aps, IDENTITY_PREPROCESSOR, Marker())))
    return _DEFAULT_SETUP[0][1 if marks else 0]


def transform_labelled(suite_counts: Sequence[int], case_counts: Sequence[int], default_marks: bool = False) -> List[List[str]]:
    """REAL: TestSuiteDocument holding the suite's case phases -> resolve_test_case_handling_setup -> its transformer
    applied to the case document.  -> labels per phase of the resulting document."""
    from exactly_lib.section_document import model
    from exactly_lib.test_suite import test_suite_doc
    from exactly_lib.test_suite.file_reading import suite_file_reading
    empty = model.SectionContents(())
    doc = test_suite_doc.TestSuiteDocument(empty, empty, empty, labelled_case('S', suite_counts))
    default = _stub_default_handling_setup(default_marks)
    setup = suite_file_reading.resolve_test_case_handling_setup(doc, default)
    if setup.act_phase_setup is not default.act_phase_setup or setup.preprocessor is not default.preprocessor:
        return [['act phase setup / preprocessor changed by a suite without [conf]']]
    result = setup.transformer.transform(labelled_case('C', case_counts))
    return [labels_of(sec) for sec in sections_of(result)]


# ----------------------------------------------------------------------------- K1: the [conf] section of a suite

CONF_KINDS = ('preprocessor instruction', 'case configuration instruction', 'comment line', 'empty line')


def _conf_elements(kinds: Sequence[int]):
    from exactly_lib.section_document import model
    from exactly_lib.test_suite.instruction_set.sections.configuration import preprocessor
    from vsym import exeharness as xh
    els = []
    for i, k in enumerate(kinds):
        if k == 0:
            els.append(xh.element(preprocessor.Instruction(['pp-%d' % i]), i + 1, 'preprocessor = pp-%d' % i))
        elif k == 1:
            els.append(xh.element(_labelled(0, 'S-conf-%d' % i), i + 1, 'S-conf-%d' % i))
        else:
            e = xh.element(None, i + 1, '# comment' if k == 2 else '')
            els.append(model.SectionContentElement(
                model.ElementType.COMMENT if k == 2 else model.ElementType.EMPTY, None, e.source_location_info))
    return model.SectionContents(tuple(els))


def conf_section_observed(kinds: Sequence[int]):
    """REAL: _separate_configuration_elements on the [conf] section, the suite document built from its two parts,
    resolve_test_case_handling_setup, its transformer applied to a case with one own conf element.
    -> (command of the resulting preprocessor or None for the default one, conf labels of the transformed case,
        the actor is the default one)"""
    from exactly_lib.section_document import model
    from exactly_lib.test_case import test_case_doc
    from exactly_lib.test_suite import test_suite_doc
    from exactly_lib.test_suite.file_reading import suite_file_reading
    from exactly_lib.processing.preprocessor import PreprocessorViaExternalProgram
    suite_conf, case_conf = suite_file_reading._separate_configuration_elements(_conf_elements(kinds))
    empty = model.SectionContents(())
    doc = test_suite_doc.TestSuiteDocument(suite_conf, empty, empty,
                                           test_case_doc.TestCase(case_conf, empty, empty, empty, empty, empty))
    default = _stub_default_handling_setup(False)
    setup = suite_file_reading.resolve_test_case_handling_setup(doc, default)
    pp = setup.preprocessor
    if pp is default.preprocessor:
        cmd = None
    elif isinstance(pp, PreprocessorViaExternalProgram):
        cmd = list(pp.external_program)
    else:
        cmd = 'unexpected preprocessor %r' % (pp,)
    result = setup.transformer.transform(labelled_case('C', (1, 0, 0, 0, 0, 0)))
    n_suite_part = len(suite_conf.elements)
    return cmd, labels_of(result.configuration_phase), setup.act_phase_setup is default.act_phase_setup, n_suite_part


def conf_section_expected(kinds: Sequence[int], oracle_bug: bool = False):
    """Reference: the preprocessor set last is in force (none: the default one); the case configuration instructions
    of the suite come, in their order, before the case's own; everything else stays with the suite."""
    pps = [i for i, k in enumerate(kinds) if k == 0]
    cmd = None
    if pps:
        cmd = ['pp-%d' % (pps[0] if oracle_bug else pps[-1])]
    labels = ['S-conf-%d' % i for i, k in enumerate(kinds) if k == 1] + ['C-conf-0']
    return cmd, labels, True, len([k for k in kinds if k != 1])


# ============================================================================= K2: a sequence of cases on ONE executor

# what the faulty / misbehaving instruction of a case does before it ends with its fault kind
MUTATIONS = (
    'none',  # 0
    'env-set',  # 1  what `env X = v` does: settings.environ() (made a dict first if None) gets a new variable
    'env-unset',  # 2  what `env unset X` does: a variable of the configured environment is removed
    'env-change',  # 3  the value of a variable of the configured environment is changed
    'env-replace',  # 4  settings.set_environ(<another dict>)
    'timeout-set',  # 5  settings.set_timeout(T)
    'timeout-none',  # 6  settings.set_timeout(None)
    'symbol-def',  # 7  what `def` does: environment.symbols.put(<new name>, ...)
    'symbol-redef',  # 8  environment.symbols.put(<name of a predefined symbol>, <another value>)
    'chdir-tmp',  # 9  what `cd` does: the current directory becomes a sub directory of the sandbox
    'chdir-root',  # 10 the current directory becomes one outside the sandbox
    'files',  # 11 what `file` / `dir` do: new files and directories in act/ and tmp/
    'act-env',  # 12 what `env -of act` does (setup only): settings_builder.environ gets a new variable
    'act-stdin',  # 13 what `stdin` does (setup only): settings_builder.stdin is set
    'conf-actor',  # 14 what `actor = ...` does (conf only): another actor
    'conf-status',  # 15 what `status = FAIL` does (conf only)
    'conf-home',  # 16 what `home = ...` / `act-home = ...` do (conf only)
)
N_MUT = len(MUTATIONS)

ENV_BASE_VAR = 'VSYM_C17_BASE'
ENV_LEAK_VAR = 'VSYM_C17_LEAK'
PREDEFINED_SYMBOL = 'VSYM_C17_PREDEFINED'
LEAK_SYMBOL = 'VSYM_C17_LEAKED_SYMBOL'

# the cells (phase, step) at which the misbehaving instruction may stand
MUT_CELLS = (
    ('conf', 'main', 0),
    ('setup', 'pre', 0),
    ('setup', 'main', 0),
    ('act', 'execute', 0),
    ('ba', 'main', 0),
    ('assert', 'post', 0),
    ('assert', 'main', 0),
    ('cleanup', 'main', 0),
)


def mutation_applicable(kind: int, cell: tuple) -> bool:
    """which misbehaviour is possible where: an instruction can only touch what the step is handed"""
    name = MUTATIONS[kind]
    phase, step, _ = cell
    if name == 'none':
        return True
    if name.startswith('conf-'):
        return phase == 'conf'
    if phase == 'conf':
        return False  # (the conf phase is handed the configuration builder only; see OUTSIDE for chdir in [conf])
    if name in ('act-env', 'act-stdin'):
        return phase == 'setup' and step == 'main'
    if name.startswith('env-') or name.startswith('timeout-'):
        return step == 'main' and phase != 'act'
    if name in ('symbol-def', 'symbol-redef'):
        return phase != 'act'
    if name in ('chdir-tmp', 'files'):
        return step != 'pre'  # needs the sandbox
    if name == 'chdir-root':
        return True
    return False


def fault_applicable(fault: int, cell: tuple) -> bool:
    from vsym import exeharness as xh
    phase, step, _ = cell
    if fault == xh.OK:
        return True
    if fault == xh.FAIL:
        return phase == 'assert' and step == 'main'
    if fault == xh.VAL:
        return step in ('pre', 'post') or phase == 'conf'
    return fault in (xh.HARD, xh.HARD_EXC, xh.EXC)


class CaseSpec:
    def __init__(self, mutation: int, cell: tuple, fault: int, timeout_value=None):
        self.mutation = mutation
        self.cell = cell
        self.fault = fault
        self.timeout_value = timeout_value


class CaseObs:
    def __init__(self):
        self.problems: List[str] = []
        self.n_probes = 0
        self.trace = []
        self.status = None
        self.sds_root = None


class SeqObs:
    def __init__(self):
        self.cases: List[CaseObs] = []
        self.roots: List[str] = []
        self.problems: List[str] = []


def _string_symbol(value: str):
    from exactly_lib.symbol.sdv_structure import SymbolContainer
    from exactly_lib.symbol.value_type import ValueType
    from exactly_lib.type_val_deps.types.string_ import string_sdvs
    return SymbolContainer(string_sdvs.str_constant(value), ValueType.STRING, None)


N_INSTR = (1, 1, 1, 1, 1)


def run_sequence(specs: Sequence[CaseSpec], environ_is_dict: bool, timeout_cfg, oracle_bug: bool = False) -> SeqObs:
    """Runs len(specs) stub cases, one after the other, on ONE real case executor (as `exactly suite` does for the
    cases of a suite).  Every step of every case probes - until the case's own misbehaving instruction has run - that
    everything an instruction can see has its configured initial value."""
    import pathlib
    from vsym import exeharness as xh
    from exactly_lib.execution.configuration import PredefinedProperties
    from exactly_lib.execution.predefined_properties import os_environ_getter
    from exactly_lib.impls.os_services import os_services_access
    from exactly_lib.processing import processors
    from exactly_lib.processing.act_phase import ActPhaseSetup
    from exactly_lib.processing.preprocessor import IDENTITY_PREPROCESSOR
    from exactly_lib.processing.test_case_handling_setup import TestCaseHandlingSetup
    from exactly_lib.tcfs.path_relativity import RelHdsOptionType
    from exactly_lib.test_case.test_case_status import TestCaseStatus
    from exactly_lib.util.symbol_table import SymbolTable

    seq = SeqObs()
    work = scratch.new_dir('c17seq')
    work_real = os.path.realpath(work)
    case_dir = pathlib.Path(work_real) / 'cases'
    case_dir.mkdir()
    sandbox_base = pathlib.Path(work_real) / 'sandboxes'
    sandbox_base.mkdir()

    def resolver() -> str:
        d = sandbox_base / ('sds-%d' % (len(seq.roots) + 1))
        d.mkdir()
        seq.roots.append(str(d))
        return str(d)

    environ_cfg = {ENV_BASE_VAR: 'base', 'VSYM_C17_OTHER': 'other'} if environ_is_dict else None
    environ_snapshot = None if environ_cfg is None else dict(environ_cfg)
    predefined_container = _string_symbol('predefined')
    predefined = SymbolTable({PREDEFINED_SYMBOL: predefined_container})
    current = {}

    class DefaultActor(xh.ActorStub):
        """the actor of the default handling setup: parses with the plan of the case that is being executed"""

        def __init__(self):
            pass

        @property
        def plan(self):
            return current['plan']

    class OtherActor(DefaultActor):
        pass

    default_actor = DefaultActor()
    configuration = processors.Configuration(
        processors.TestCaseDefinition(None, PredefinedProperties(os_environ_getter, environ_cfg, timeout_cfg, predefined)),
        TestCaseHandlingSetup(ActPhaseSetup('default-stub-actor', default_actor), IDENTITY_PREPROCESSOR),
        os_services_access.new_for_current_os(), 2 ** 10, False, resolver)
    executor = processors.new_executor_that_should_not_pollute_current_processes(configuration)

    cwd0 = getcwd()
    os_environ0 = tuple(sorted(os.environ.items()))

    def env_ok(e) -> bool:
        if environ_snapshot is None:
            return e is None
        return e is not None and dict(e) == environ_snapshot

    for case_no, spec in enumerate(specs):
        co = CaseObs()
        seq.cases.append(co)
        st = dict(mutated=False, own_root=None)
        n_roots_before = len(seq.roots)
        case_path = case_dir / ('case-%d.case' % case_no)
        expect_timeout = timeout_cfg
        if oracle_bug and case_no > 0 and specs[case_no - 1].mutation == 5:
            expect_timeout = specs[case_no - 1].timeout_value  # seeded oracle error: demands the leak

        def probe(cell, env, ctx, co=co, st=st, n_roots_before=n_roots_before, expect_timeout=expect_timeout):
            co.n_probes += 1
            bad = co.problems.append
            phase, step, _ = cell
            if co.n_probes == 1 and tuple(sorted(os.environ.items())) != os_environ0:
                bad('os.environ differs')
            sds = None
            if env is not None and hasattr(env, 'sds'):
                sds = env.sds
            if sds is None:
                if getcwd() != cwd0:
                    bad('%r: cwd before the sandbox exists is %s' % (cell, getcwd()))
            else:
                root = str(sds.root_dir)
                if st['own_root'] is None:
                    st['own_root'] = root
                    if os.listdir(str(sds.act_dir)) or os.listdir(str(sds.user_tmp_dir)) or os.listdir(str(sds.result.root_dir)):
                        bad('%r: act/, tmp/ or result/ of the sandbox of a case that has not done anything yet is not '
                            'empty' % (cell,))
                    if getcwd() != str(sds.act_dir):
                        bad('%r: cwd is %s' % (cell, getcwd()))
                else:
                    if root != st['own_root']:
                        bad('%r: sandbox changed' % (cell,))
                    if getcwd() != str(sds.act_dir):
                        bad('%r: cwd is %s' % (cell, getcwd()))
                    if os.listdir(str(sds.act_dir)) or os.listdir(str(sds.user_tmp_dir)):
                        bad('%r: act/ or tmp/ not empty' % (cell,))
            if env is not None:
                pes = env.proc_exe_settings
                if pes.timeout_in_seconds != expect_timeout:
                    bad('%r: timeout of the environment is %r' % (cell, pes.timeout_in_seconds))
                if not env_ok(pes.environ):
                    bad('%r: environ of the environment' % (cell,))
                names = env.symbols.names_set
                if names != {PREDEFINED_SYMBOL}:
                    bad('%r: symbols %r' % (cell, sorted(names)))
                elif env.symbols.lookup(PREDEFINED_SYMBOL) is not predefined_container:
                    bad('%r: predefined symbol has another value' % (cell,))
                if env.hds.case_dir != case_dir or env.hds.act_dir != case_dir:
                    bad('%r: home directories %s' % (cell, env.hds.case_dir))
            settings = ctx.get('settings')
            if settings is not None:
                if settings.timeout_in_seconds() != expect_timeout:
                    bad('%r: timeout setting is %r' % (cell, settings.timeout_in_seconds()))
                if not env_ok(settings.environ()):
                    bad('%r: environ setting' % (cell,))
            sb = ctx.get('settings_builder')
            if sb is not None:
                if sb.stdin is not None or not env_ok(sb.environ):
                    bad('%r: settings of the act phase (stdin / environ)' % (cell,))
            ai = ctx.get('atc_input')
            if ai is not None:
                if ai.stdin is not None or not env_ok(ai.environ):
                    bad('%r: input of the action to check (stdin / environ)' % (cell,))
            builder = ctx.get('builder')
            if builder is not None:
                if builder.actor.value is not default_actor:
                    bad('%r: actor is %r' % (cell, builder.actor.name))
                if builder.test_case_status is not TestCaseStatus.PASS:
                    bad('%r: status is %r' % (cell, builder.test_case_status))
                if builder.get_hds_dir(RelHdsOptionType.REL_HDS_CASE) != case_dir \
                        or builder.get_hds_dir(RelHdsOptionType.REL_HDS_ACT) != case_dir:
                    bad('%r: home directories' % (cell,))

        def mutate(cell, env, ctx, spec=spec):
            name = MUTATIONS[spec.mutation]
            settings = ctx.get('settings')
            if name in ('env-set', 'env-unset', 'env-change'):
                e = settings.environ()
                if e is None:
                    e = settings.default_environ_getter()
                    settings.set_environ(e)
                if name == 'env-set':
                    e[ENV_LEAK_VAR] = 'leak'
                elif name == 'env-unset':
                    e.pop(ENV_BASE_VAR, None)
                    e.pop('PATH', None)
                else:
                    e[ENV_BASE_VAR] = 'changed'
            elif name == 'env-replace':
                settings.set_environ({ENV_LEAK_VAR: 'leak'})
            elif name == 'timeout-set':
                settings.set_timeout(spec.timeout_value)
            elif name == 'timeout-none':
                settings.set_timeout(None)
            elif name == 'symbol-def':
                env.symbols.put(LEAK_SYMBOL, _string_symbol('leak'))
            elif name == 'symbol-redef':
                env.symbols.put(PREDEFINED_SYMBOL, _string_symbol('leak'))
            elif name == 'chdir-tmp':
                d = env.sds.user_tmp_dir / 'cd-target'
                d.mkdir()
                os.chdir(str(d))
            elif name == 'chdir-root':
                os.chdir(str(sandbox_base))
            elif name == 'files':
                for d in (env.sds.act_dir, env.sds.user_tmp_dir):
                    with open(str(d / 'leak.txt'), 'w') as f:
                        f.write('leak')
                    (d / 'leak-dir').mkdir()
            elif name == 'act-env':
                sb = ctx['settings_builder']
                e = sb.environ
                if e is None:
                    e = settings.default_environ_getter()
                    sb.environ = e
                e[ENV_LEAK_VAR] = 'leak'
            elif name == 'act-stdin':
                ctx['settings_builder'].stdin = _StdinStub()
            elif name == 'conf-actor':
                from exactly_lib.util.name_and_value import NameAndValue
                ctx['builder'].set_actor(NameAndValue('other-stub-actor', OtherActor()))
            elif name == 'conf-status':
                ctx['builder'].set_test_case_status(TestCaseStatus.FAIL)
            elif name == 'conf-home':
                ctx['builder'].set_hds_dir(RelHdsOptionType.REL_HDS_CASE, sandbox_base)
                ctx['builder'].set_hds_dir(RelHdsOptionType.REL_HDS_ACT, sandbox_base)

        def observer(cell, env, ctx, spec=spec, st=st):
            if not st['mutated']:
                probe(cell, env, ctx)
            if cell == spec.cell and not st['mutated']:
                st['mutated'] = spec.mutation != 0
                mutate(cell, env, ctx)

        def kind_of(cell, spec=spec):
            return spec.fault if cell == spec.cell else xh.OK

        plan = xh.Plan(kind_of, observer)
        current['plan'] = plan
        doc = xh.stub_test_case(plan, N_INSTR, None)
        try:
            result = executor.apply(case_path, doc)
            co.status = result.status.name
        except Exception as e:  # noqa  an escaping exception is an observation
            co.status = 'EXCEPTION %s: %s' % (type(e).__name__, e)
        co.trace = list(plan.trace)
        if getcwd() != cwd0:
            co.problems.append('cwd after the case is %s' % getcwd())
            os.chdir(cwd0)
        for r in seq.roots:
            if os.path.exists(r) and os.listdir(r):
                co.problems.append('sandbox %s left behind' % r)
    if environ_cfg is not None and environ_cfg != environ_snapshot:
        seq.problems.append('the configured environ was modified')
    if predefined.names_set != {PREDEFINED_SYMBOL} or predefined.lookup(PREDEFINED_SYMBOL) is not predefined_container:
        seq.problems.append('the table of predefined symbols was modified')
    if tuple(sorted(os.environ.items())) != os_environ0:
        seq.problems.append('os.environ was modified')
    xh._make_writable(work)
    scratch.remove(work)
    return seq


class _StdinStub:
    """stands for the stdin of the action to check that `stdin` sets (never resolved by the stub actor)"""

    def validate(self):
        return None

    def resolve(self, environment):
        return None


def expected_status(spec: CaseSpec) -> str:
    """Reference (outcome table, C02) - used as a sanity check of the harness only"""
    from vsym import exeharness as xh
    f = spec.fault
    if MUTATIONS[spec.mutation] == 'conf-status':
        return {xh.OK: 'XPASS'}.get(f, None) or _status_of_fault(f)
    if f == xh.OK:
        return 'PASS'
    return _status_of_fault(f)


def _status_of_fault(f: int) -> str:
    from vsym import exeharness as xh
    return {xh.VAL: 'VALIDATION_ERROR', xh.HARD: 'HARD_ERROR', xh.HARD_EXC: 'HARD_ERROR', xh.EXC: 'INTERNAL_ERROR',
            xh.FAIL: 'FAIL'}[f]


_FULL_TRACE = []


def full_trace():
    """the trace of a case without any fault, executed alone on a fresh executor (computed once per process)"""
    if not _FULL_TRACE:
        seq = run_sequence([CaseSpec(0, MUT_CELLS[0], 0)], False, 60)
        if seq.cases[0].status != 'PASS' or seq.cases[0].problems:
            raise RuntimeError('harness error: reference run %r %r' % (seq.cases[0].status, seq.cases[0].problems))
        _FULL_TRACE.append(seq.cases[0].trace)
    return _FULL_TRACE[0]


# ============================================================================= K3 / K4: the whole program on files

class Event:
    """One started "process" (kind 'proc': through process_executor; kind 'pp': a preprocessor)."""

    def __init__(self, kind: str, args, where: str, env_view, timeout, listing, source, stdin_text, extra):
        self.kind = kind
        self.args = args  # argv (list) or command line (str, shell)
        self.where = where  # cwd, normalised: 'SDS/<rel>' in the newest sandbox, 'OLD-SDS<k>/...' in an older one, 'W/<rel>'
        self.env_view = env_view  # the variables VSYM_C17_* the child would see
        self.timeout = timeout
        self.listing = listing  # (names in act/, names in tmp/) of the sandbox the cwd lies in
        self.source = source  # contents of the source file handed to an interpreter (source interpreter actor)
        self.stdin_text = stdin_text
        self.extra = extra  # other keyword arguments; shell=True; the contents of the files act/*.probe

    def key(self) -> tuple:
        return (self.kind, tuple(self.args) if isinstance(self.args, list) else self.args, self.where, self.env_view,
                self.timeout, self.listing, self.source, self.stdin_text, self.extra)

    def __repr__(self):
        return 'Event%r' % (self.key(),)


PP_TOKEN = 'PPTOKEN'


class World:
    """A scratch directory holding suite and case files + the stand-ins for the OS: every CLI run in it appends to
    `self.log` (Events and ('out', text) entries for what is written to stdout)."""

    def __init__(self, files: Dict[str, str]):
        from harness import _C16_lib as L16
        self.L16 = L16
        self.dir = os.path.realpath(scratch.new_dir('c17w'))
        L16.Tree(files).write(self.dir)
        self.roots: List[str] = []
        self.log: List = []
        self.exit_code_of: Callable[[Sequence[str]], int] = _exit_code_of_tag

    # ---- stand-in for the subprocess module (process_executor and preprocessor)
    DEVNULL = _real_subprocess.DEVNULL
    PIPE = _real_subprocess.PIPE
    STDOUT = _real_subprocess.STDOUT
    TimeoutExpired = _real_subprocess.TimeoutExpired
    SubprocessError = _real_subprocess.SubprocessError

    def _where(self, cwd: str) -> str:
        cwd = os.path.realpath(cwd)
        for k, r in enumerate(reversed(self.roots)):
            if cwd == r or cwd.startswith(r + os.sep):
                rel = os.path.relpath(cwd, r)
                return ('SDS/' if k == 0 else 'OLD-SDS%d/' % k) + rel
        if cwd == self.dir or cwd.startswith(self.dir + os.sep):
            return 'W/' + os.path.relpath(cwd, self.dir)
        return cwd

    def _sandbox_of(self, cwd: str):
        cwd = os.path.realpath(cwd)
        for r in reversed(self.roots):
            if cwd == r or cwd.startswith(r + os.sep):
                return r
        return None

    def call(self, args, stdin=None, stdout=None, stderr=None, env=None, timeout=None, shell=False, cwd=None, **extra):
        if cwd is not None:
            return self._preprocess(args, cwd, stdout, stderr, extra)
        here = getcwd()
        eff = os.environ if env is None else env
        env_view = tuple(sorted((k, v) for k, v in eff.items() if k.startswith('VSYM_C17_')))
        root = self._sandbox_of(here)
        listing = None
        if root is not None:
            listing = (tuple(sorted(os.listdir(os.path.join(root, 'act')))), tuple(sorted(os.listdir(os.path.join(root, 'tmp')))))
        source = None
        if not isinstance(args, str) and len(args) >= 2 and root is not None and os.path.isfile(args[-1]) \
                and os.path.realpath(args[-1]).startswith(root + os.sep):
            with open(args[-1]) as f:
                source = f.read()
            rel = os.path.relpath(os.path.realpath(args[-1]), root)
            # a file in act/ or tmp/ is named; one in the internal directories (source file of an interpreter) is not
            args = list(args[:-1]) + ['<SDS>/' + rel if rel.split(os.sep)[0] in ('act', 'tmp') else '<SRC>']
        stdin_text = None
        if stdin is not None and hasattr(stdin, 'read'):
            stdin_text = stdin.read()
        x = tuple(sorted(extra.items())) + ((('shell', True),) if shell else ())
        if root is not None:
            for name in listing[0]:
                if name.endswith('.probe'):
                    with open(os.path.join(root, 'act', name)) as f:
                        x += ((name, f.read()),)
        self.log.append(Event('proc', list(args) if not isinstance(args, str) else args, self._where(here), env_view, timeout,
                              listing, source, stdin_text, x))
        return self.exit_code_of(args)

    def _preprocess(self, args, cwd, stdout, stderr, extra):
        """contract of a preprocessor program: it is given the name of the case file (relative to its directory, which
        is the cwd) and writes the preprocessed case to stdout.  The stand-in `pp-<X>` replaces PPTOKEN by pp<X>."""
        self.log.append(Event('pp', list(args), self._where(cwd), None, None, None, None, None, tuple(sorted(extra.items()))))
        with open(os.path.join(cwd, args[-1])) as f:
            text = f.read()
        name = args[0]
        if not name.startswith('pp-'):
            stderr.write('no such preprocessor')
            return 1
        stdout.write(text.replace(PP_TOKEN, 'pp' + name[3:]))
        return 0

    # ---- running the main program
    def _resolver(self) -> str:
        d = os.path.join(self.dir, '.sandboxes', 'sds-%d' % (len(self.roots) + 1))
        os.makedirs(d)
        self.roots.append(d)
        return d

    def run(self, argv: Sequence[str]):
        """MainProgram.execute(argv) with cwd = the world's directory.  -> CliRun"""
        from exactly_lib.cli import main_program
        from exactly_lib.cli_default import default_main_program_setup as d
        from exactly_lib.execution import sandbox_dir_resolving
        from exactly_lib.processing import preprocessor
        from exactly_lib.util.file_utils.std import StdOutputFiles
        from exactly_lib.util.process_execution import process_executor
        L16 = self.L16
        L16.install_clock()
        world = self

        class Out:
            def __init__(self, log):
                self.parts = []
                self._log = log

            def write(self, s):
                self.parts.append(s)
                if self._log is not None:
                    self._log.append(('out', s))
                return len(s)

            def flush(self):
                pass

            def isatty(self):
                return False

        out, err = Out(self.log), Out(None)
        mp = main_program.MainProgram(
            d.test_case_handling_setup.setup(), self._resolver,
            d.TestCaseDefinitionForMainProgram(
                d.TestCaseParsingSetup(d.instruction_name_and_argument_splitter.splitter,
                                       d.default_instructions_setup.INSTRUCTIONS_SETUP, d.ActPhaseParser()),
                d.builtin_symbols.ALL),
            d.test_suite.test_suite_definition(), io.DEFAULT_BUFFER_SIZE)
        saved = (process_executor.subprocess, preprocessor.subprocess, preprocessor.tempfile,
                 sandbox_dir_resolving.mk_tmp_dir_with_prefix)
        process_executor.subprocess = self
        preprocessor.subprocess = self
        preprocessor.tempfile = L16._TempfileStub
        sandbox_dir_resolving.mk_tmp_dir_with_prefix = lambda prefix: world._resolver
        cwd = getcwd()
        os.chdir(self.dir)
        had_base = os.environ.get(ENV_BASE_VAR_CLI)
        os.environ[ENV_BASE_VAR_CLI] = 'base'
        start = len(self.log)
        n_roots = len(self.roots)
        try:
            try:
                rc = mp.execute(list(argv), StdOutputFiles(out, err))
            except Exception as e:  # noqa   an escaping exception is an observation
                rc = 'EXCEPTION %s: %s' % (type(e).__name__, e)
            cwd_after = getcwd()
        finally:
            (process_executor.subprocess, preprocessor.subprocess, preprocessor.tempfile,
             sandbox_dir_resolving.mk_tmp_dir_with_prefix) = saved
            if had_base is None:
                del os.environ[ENV_BASE_VAR_CLI]
            else:
                os.environ[ENV_BASE_VAR_CLI] = had_base
            os.chdir(cwd)
        left = [r for r in self.roots[n_roots:] if os.path.exists(r) and os.listdir(r)]
        return CliRun(rc, ''.join(out.parts), ''.join(err.parts), self.log[start:], cwd_after == self.dir, left)

    def close(self):
        from vsym import exeharness as xh
        xh._make_writable(self.dir)
        scratch.remove(self.dir)


ENV_BASE_VAR_CLI = 'VSYM_C17_BASE'


def _exit_code_of_tag(args) -> int:
    """the stand-in child `<name>-exit<N>` exits with N, every other one with 0"""
    tag = args if isinstance(args, str) else args[0]
    if '-exit' in tag:
        return int(tag.rsplit('-exit', 1)[1])
    return 0


class CliRun:
    def __init__(self, rc, out: str, err: str, log: List, cwd_preserved: bool, sandboxes_left: List[str]):
        self.rc = rc
        self.out = out
        self.err = err
        self.log = log
        self.cwd_preserved = cwd_preserved
        self.sandboxes_left = sandboxes_left

    def events(self) -> List[Event]:
        return [e for e in self.log if isinstance(e, Event)]

    def identifier(self) -> str:
        """standalone run: the exit identifier is the first line of stdout"""
        return self.out.split('\n')[0]

    def per_case(self):
        """suite run -> [(case name as presented, identifier, [Event])] in processing order, or None if the progress
        output is not of the expected form"""
        cases = []
        cur = None
        for e in self.log:
            if isinstance(e, Event):
                if cur is None:
                    return None  # a process started outside of any case
                cur[2].append(e)
            else:
                text = e[1]
                if text.startswith('case  ') and text.endswith(': '):
                    cur = [text[len('case  '):-2], None, []]
                    cases.append(cur)
                elif text.startswith('suite '):
                    cur = None
        events, rest = _parse_progress(self.out)
        ids = [(ev[1], ev[2]) for ev in events if ev[0] == 'case']
        if [c[0] for c in cases] != [n for n, _ in ids]:
            return None
        for c, (_, ident) in zip(cases, ids):
            c[1] = ident
        return [tuple(c) for c in cases]

    def suite_verdict(self) -> str:
        lines = self.out.rstrip('\n').split('\n')
        return lines[-1] if lines else ''


def _parse_progress(text: str):
    from harness import _C16_lib as L16
    return L16.parse_progress(text)


def keys(events: Sequence[Event]) -> List[tuple]:
    return [e.key() for e in events]


# ----------------------------------------------------------------------------- K3: fixtures and the reference oracle

# bits of a contents mask
B_CONF, B_SETUP, B_ACT, B_BA, B_ASSERT, B_CLEANUP = 1, 2, 4, 8, 16, 32
ALL_BITS = 63
_PHASE_OF_BIT = ((B_SETUP, 'setup'), (B_ACT, 'act'), (B_BA, 'before-assert'), (B_ASSERT, 'assert'), (B_CLEANUP, 'cleanup'))


class Contents:
    """What a suite file supplies for its cases / what a case file holds: per phase one line that starts a process
    tagged '<tag>-<phase>'; [conf]: `actor = source % <tag>-interp` (+ for a suite: `status = FAIL`; for a case:
    `status = PASS`); a suite may set the preprocessor `pp-<tag>`.  Every line ends with PPTOKEN."""

    def __init__(self, tag: str, mask: int, pp: bool = False, actor_tag: Optional[str] = None, pp_tag: Optional[str] = None):
        self.tag, self.mask, self.pp = tag, mask, pp
        # the interpreter of the actor / the preprocessor program may be named by another tag than the phase lines
        # (hierarchies of suites: the same actor / preprocessor in several suites)
        self.actor_tag = tag if actor_tag is None else actor_tag
        self.pp_tag = tag if pp_tag is None else pp_tag

    def phase_line(self, phase: str) -> str:
        return '%% %s-%s %s' % (self.tag, phase, PP_TOKEN)

    def lines(self, is_suite: bool) -> List[str]:
        ls = []
        if self.mask & B_CONF or (is_suite and self.pp):
            ls.append('[conf]')
            if is_suite and self.pp:
                ls.append('preprocessor = pp-%s' % self.pp_tag)
            if self.mask & B_CONF:
                ls.append('actor = source %% %s-interp' % self.actor_tag)
                ls.append('status = FAIL' if is_suite else 'status = PASS')
        for bit, phase in _PHASE_OF_BIT:
            if self.mask & bit:
                ls.append('[%s]' % phase)
                ls.append(self.phase_line(phase))
        return ls


def suite_file_text(contents: Optional[Contents], cases: Sequence[str], suites: Sequence[str] = ()) -> str:
    ls = []
    if suites:
        ls += ['[suites]'] + list(suites)
    if cases:
        ls += ['[cases]'] + list(cases)
    if contents is not None:
        ls += contents.lines(True)
    return '\n'.join(ls) + '\n'


def case_file_text(contents: Contents) -> str:
    return ''.join(l + '\n' for l in contents.lines(False))


DEFAULT_ENV_VIEW = ((ENV_BASE_VAR_CLI, 'base'),)
DEFAULT_TIMEOUT = 60  # the manual: the default timeout is 60 seconds


def _proc_key(args: Sequence[str], source: Optional[str] = None) -> tuple:
    return ('proc', tuple(args), 'SDS/act', DEFAULT_ENV_VIEW, DEFAULT_TIMEOUT, ((), ()), source, None, ())


def expected_case_run(suite: Optional[Contents], case: Contents, case_file: str, case_dir: str, oracle_bug: bool = False):
    """Reference oracle (property statement + manual): the identifier and the processes started - in order - by a
    case that holds `case`, run with the suite contents `suite` (None: no suite applies).
    case_dir: directory of the case file, relative to the world."""
    ev = []
    token = PP_TOKEN
    if suite is not None and suite.pp:
        ev.append(('pp', ('pp-' + suite.pp_tag, case_file), 'W/' + case_dir, None, None, None, None, None, ()))
        token = 'pp' + suite.pp_tag  # the preprocessor transforms the case file (not the lines of the suite)
    smask = suite.mask if suite is not None else 0

    def line_of(c: Contents, phase: str, tok: str) -> List[str]:
        return [c.tag + '-' + phase, tok]

    # [conf]: the suite's instructions first, the case's after: the case's settings win
    if case.mask & B_CONF:
        interp, ident = case.actor_tag + '-interp', 'PASS'
    elif smask & B_CONF:
        interp, ident = suite.actor_tag + '-interp', 'XPASS'
    else:
        interp, ident = None, 'PASS'
    act_lines = []
    if smask & B_ACT:
        act_lines.append(suite.phase_line('act'))
    if case.mask & B_ACT:
        act_lines.append(case.phase_line('act').replace(PP_TOKEN, token))
    if interp is None and len(act_lines) > 1:
        # the command line actor: the act phase is a single command line
        return 'SYNTAX_ERROR', ev
    for phase in ('setup', 'act', 'before-assert', 'assert', 'cleanup'):
        if phase == 'act':
            if interp is not None:
                ev.append(_proc_key([interp, '<SRC>'], ''.join(l + '\n' for l in act_lines)))
            elif act_lines:
                ev.append(_proc_key(act_lines[0][2:].split()))
            continue
        bit = dict((p, b) for b, p in _PHASE_OF_BIT)[phase]
        s = [_proc_key(line_of(suite, phase, PP_TOKEN))] if smask & bit else []
        c = [_proc_key(line_of(case, phase, token))] if case.mask & bit else []
        after = phase == 'cleanup'
        if oracle_bug and phase == 'setup':
            after = True  # seeded oracle error
        ev += (c + s) if after else (s + c)
    return ident, ev


LAYOUTS = ('beside', 'named', 'both', 'sub')


def k3_observe(layout: str, S: Contents, C: Contents, B: Optional[Contents] = None, suite_as_dir: bool = False,
               oracle_bug: bool = False):
    """Writes the fixture of `layout`, runs the REAL main program in each of the ways the layout allows and returns
    [(what, observed (identifier, event keys) or a str describing a malformed run, expected (identifier, event keys))]."""
    out = []

    def standalone(world, argv, exp, what):
        r = world.run(argv)
        obs = (r.identifier(), keys(r.events()))
        if not r.cwd_preserved or r.sandboxes_left or not isinstance(r.rc, int):
            obs = 'malformed run: rc=%r cwd_preserved=%r sandboxes_left=%r' % (r.rc, r.cwd_preserved, r.sandboxes_left)
        elif (r.rc == 0) != (obs[0] == 'PASS'):
            obs = 'exit code %r with identifier %r' % (r.rc, obs[0])
        out.append((what, obs, exp))

    def suite_run(world, argv, exps, what):
        """exps: [(case name as presented, expected)] in processing order"""
        r = world.run(argv)
        pc = r.per_case()
        if pc is None or not r.cwd_preserved or r.sandboxes_left or not isinstance(r.rc, int):
            out.append((what, 'malformed suite run: rc=%r out=%r err=%r' % (r.rc, r.out, r.err), None))
            return
        # (how a case file is presented - relative to which directory, `x/..` kept - is not part of the property)
        if [os.path.normpath(c[0]) for c in pc] != [n for n, _ in exps]:
            out.append((what, 'cases processed: %r' % ([c[0] for c in pc],), None))
            return
        for (name, ident, evs), (_, exp) in zip(pc, exps):
            out.append(('%s: %s' % (what, name), (ident, keys(evs)), exp))
        all_ok = all(c[1] in ('PASS', 'XFAIL', 'SKIPPED') for c in pc)
        if (r.rc == 0) != all_ok:
            out.append((what, 'exit code %r' % (r.rc,), None))

    if layout == 'beside':
        files = {'top/exactly.suite': suite_file_text(S, ['c1.case']), 'top/c1.case': case_file_text(C)}
        exp = expected_case_run(S, C, 'c1.case', 'top', oracle_bug)
        w = World(files)
        suite_run(w, ['suite', 'top' if suite_as_dir else 'top/exactly.suite'], [('top/c1.case', exp)], 'suite')
        standalone(w, ['--suite', 'top/exactly.suite', 'top/c1.case'], exp, '--suite')
        standalone(w, ['top/c1.case'], exp, 'beside exactly.suite')
    elif layout == 'named':
        files = {'suites/x.suite': suite_file_text(S, ['../top/c1.case']), 'top/c1.case': case_file_text(C)}
        exp = expected_case_run(S, C, 'c1.case', 'top', oracle_bug)
        w = World(files)
        suite_run(w, ['suite', 'suites/x.suite'], [('top/c1.case', exp)], 'suite')
        standalone(w, ['--suite', 'suites/x.suite', 'top/c1.case'], exp, '--suite')
        standalone(w, ['top/c1.case'], expected_case_run(None, C, 'c1.case', 'top', oracle_bug), 'no suite')
    elif layout == 'both':
        files = {'suites/x.suite': suite_file_text(S, ['../top/c1.case']), 'top/exactly.suite': suite_file_text(B, ['c1.case']),
                 'top/c1.case': case_file_text(C)}
        exp_x = expected_case_run(S, C, 'c1.case', 'top', oracle_bug)
        exp_e = expected_case_run(B, C, 'c1.case', 'top', oracle_bug)
        w = World(files)
        standalone(w, ['--suite', 'suites/x.suite', 'top/c1.case'], exp_x, '--suite x.suite (exactly.suite beside the case)')
        standalone(w, ['top/c1.case'], exp_e, 'beside exactly.suite')
        suite_run(w, ['suite', 'suites/x.suite'], [('top/c1.case', exp_x)], 'suite x.suite')
    elif layout == 'sub':
        D = Contents('d', C.mask)
        files = {'top/exactly.suite': suite_file_text(S, ['c1.case'], ['sub']), 'top/c1.case': case_file_text(C),
                 'top/sub/exactly.suite': suite_file_text(B, ['c2.case']), 'top/sub/c2.case': case_file_text(D)}
        exp1 = expected_case_run(S, C, 'c1.case', 'top', oracle_bug)
        exp2 = expected_case_run(B, D, 'c2.case', 'top/sub', oracle_bug)
        w = World(files)
        suite_run(w, ['suite', 'top' if suite_as_dir else 'top/exactly.suite'], [('top/sub/c2.case', exp2), ('top/c1.case', exp1)], 'suite')
        standalone(w, ['--suite', 'top/sub/exactly.suite', 'top/sub/c2.case'], exp2, '--suite (sub-suite)')
        standalone(w, ['top/sub/c2.case'], exp2, 'beside exactly.suite (sub-suite)')
    else:
        raise ValueError(layout)
    w.close()
    return out


def k3_ok(observations) -> bool:
    for what, obs, exp in observations:
        if exp is None or obs != exp:
            return False
    return True


# ----------------------------------------------------------------------------- K3: hierarchies of suites

HIER_SHAPES = ('one-sub', 'siblings', 'chain')
PP_NONE, PP_OWN, PP_SHARED = 0, 1, 2
PP_KINDS = ('no preprocessor', 'a preprocessor of its own (pp-<suite>)', 'the preprocessor pp-x (same in every suite that has it)')
SHARED_TAG = 'x'


def hier_suite_tags(shape: str) -> Tuple[str, ...]:
    return ('r', 'a') if shape == 'one-sub' else ('r', 'a', 'b')


def hier_contents(tag: str, mask: int, pp_kind: int, shared_actor: bool) -> Contents:
    """The contents of the suite `tag` of a hierarchy: the phase lines always carry the tag of the suite (so the
    contents of two suites always differ where both have some); the actor / the preprocessor are the suite's own or
    the ones every suite uses."""
    return Contents(tag, mask, pp_kind != PP_NONE,
                    actor_tag=SHARED_TAG if shared_actor else tag,
                    pp_tag=SHARED_TAG if pp_kind == PP_SHARED else tag)


class HierCase:
    def __init__(self, path: str, suite_tag: str, suite_path: str, contents: Contents):
        self.path = path  # relative to the world
        self.dir, self.file = os.path.split(path)
        self.suite_tag = suite_tag  # the suite that lists it
        self.suite_path = suite_path
        self.contents = contents


def hier_fixture(shape: str, suites: Dict[str, Contents], n_cases: Dict[str, int], cmask: int, order: int,
                 exactly_names: bool = False):
    """-> (files, root suite path, [HierCase]).
    Directories: the root suite r in h/, the sub-suite a in h/a/, the sub-suite b in h/b/ (siblings: r lists a and b)
    or h/a/b/ (chain: a lists b).  Suite files are <tag>.suite, listed by file name - or exactly.suite, listed by
    the name of the directory.  The suite <t> lists the cases <t>1.case .. <t>N.case beside it; the first case of a
    suite holds the contents mask `cmask`, the second one the complement.
    order: bit 0 - [cases] is written before [suites]; bit 1 - the sub-suites / the cases are listed in reverse."""
    tags = hier_suite_tags(shape)
    dirs = {'r': 'h', 'a': 'h/a', 'b': 'h/a/b' if shape == 'chain' else 'h/b'}
    subs = {'r': [t for t in tags[1:] if not (shape == 'chain' and t == 'b')],
            'a': ['b'] if shape == 'chain' else [], 'b': []}
    cases_first, rev = bool(order & 1), bool(order & 2)

    def suite_path(t):
        return dirs[t] + '/' + ('exactly.suite' if exactly_names else t + '.suite')

    files = {}
    cases = []
    for t in tags:
        names = ['%s%d.case' % (t, i + 1) for i in range(n_cases[t])]
        for i, n in enumerate(names):
            c = Contents('%s%d' % (t, i + 1), cmask if i % 2 == 0 else ALL_BITS - cmask)
            files[dirs[t] + '/' + n] = case_file_text(c)
            cases.append(HierCase(dirs[t] + '/' + n, t, suite_path(t), c))
        sub_refs = [os.path.relpath(dirs[u] if exactly_names else suite_path(u), dirs[t]) for u in subs[t]]
        if rev:
            names, sub_refs = names[::-1], sub_refs[::-1]
        sec_s = (['[suites]'] + sub_refs) if sub_refs else []
        sec_c = (['[cases]'] + names) if names else []
        ls = (sec_c + sec_s) if cases_first else (sec_s + sec_c)
        ls += suites[t].lines(True)
        files[suite_path(t)] = '\n'.join(ls) + '\n'
    return files, suite_path('r'), cases


def hier_observe(shape: str, suites: Dict[str, Contents], n_cases: Dict[str, int], cmask: int, order: int,
                 exactly_names: bool = False, oracle_bug: bool = False):
    """Writes the hierarchy, runs the REAL main program on the root suite, and on every case alone with
    `--suite THE-SUITE-THAT-LISTS-IT` (and without --suite if the suites are named exactly.suite).
    -> [(what, observed, expected)] as k3_observe; the reference: the contents of the suite that lists the case -
    of no other suite of the hierarchy - apply to it, in the same way in the suite run and alone."""
    files, root, cases = hier_fixture(shape, suites, n_cases, cmask, order, exactly_names)
    out = []
    w = World(files)
    try:
        r = w.run(['suite', root])
        pc = r.per_case()
        if pc is None or not r.cwd_preserved or r.sandboxes_left or not isinstance(r.rc, int):
            return [('suite', 'malformed suite run: rc=%r out=%r err=%r' % (r.rc, r.out, r.err), None)]
        # every case of the hierarchy is processed exactly once (in which order is not part of this property)
        in_suite = {}
        for name, ident, evs in pc:
            in_suite.setdefault(os.path.normpath(name), []).append((ident, keys(evs)))
        if sorted(in_suite) != sorted(c.path for c in cases) or any(len(v) != 1 for v in in_suite.values()):
            return [('suite', 'cases processed: %r' % ([c[0] for c in pc],), None)]
        for c in cases:
            own = suites[c.suite_tag]
            if oracle_bug and c.suite_tag != 'r':
                own = suites['r']  # seeded oracle error: the cases of a sub-suite get the contents of the root suite
            exp = expected_case_run(own, c.contents, c.file, c.dir)
            got = in_suite[c.path][0]
            out.append(('suite: ' + c.path, got, exp))
            alone = w.run(['--suite', c.suite_path, c.path])
            obs = (alone.identifier(), keys(alone.events()))
            if not alone.cwd_preserved or alone.sandboxes_left or not isinstance(alone.rc, int):
                obs = 'malformed run: rc=%r' % (alone.rc,)
            out.append(('--suite %s %s' % (c.suite_path, c.path), obs, exp))
            out.append(('in the suite run as alone: ' + c.path, got, obs))
            if exactly_names:
                beside = w.run([c.path])
                out.append(('beside exactly.suite: ' + c.path, (beside.identifier(), keys(beside.events())), exp))
        all_ok = all(v[0][0] in ('PASS', 'XFAIL', 'SKIPPED') for v in in_suite.values())
        if (r.rc == 0) != all_ok:
            out.append(('suite', 'exit code %r' % (r.rc,), None))
    finally:
        w.close()
    return out


# ----------------------------------------------------------------------------- K4: histories of real cases in one suite run

def _case(conf=(), setup=(), act=('% act-probe',), ba=('% ba-probe',), asrt=('% assert-probe',), cleanup=('% cleanup-probe',)) -> str:
    ls = []
    for name, lines in (('conf', conf), ('setup', setup), ('act', act), ('before-assert', ba), ('assert', asrt),
                        ('cleanup', cleanup)):
        if lines:
            ls.append('[%s]' % name)
            ls += list(lines)
    return ''.join(l + '\n' for l in ls)


FIRST = '% first-probe'
SYM = 'VSYM_C17_S'

# name -> text of the case file.  Every case starts its [setup] with the probe `first-probe` and probes in every phase.
HISTORY_CASES = {
    'observer': _case(setup=(FIRST, 'def string %s = own' % SYM, '%% own-symbol @[%s]@' % SYM)),
    'reference-to-undefined-symbol': _case(setup=(FIRST, '%% leaked-symbol @[%s]@' % SYM)),
    'env': _case(setup=(FIRST, 'env VSYM_C17_LEAK = leak', 'env unset VSYM_C17_BASE', '% after')),
    'env-late': _case(cleanup=('env VSYM_C17_LEAK = leak', 'env unset VSYM_C17_BASE', '% cleanup-probe'), setup=(FIRST,)),
    'env-of-act+stdin': _case(setup=(FIRST, 'env -of act VSYM_C17_LEAK = leak', "stdin = 'leaked stdin'", '% after')),
    'cd': _case(setup=(FIRST, 'dir d', 'cd d', '% after')),
    'cd-late': _case(setup=(FIRST, 'dir d'), asrt=('cd d', '% assert-probe'), cleanup=('cd -rel-tmp .', '% cleanup-probe')),
    'timeout': _case(setup=(FIRST, 'timeout = 7', '% after')),
    'timeout-none-late': _case(setup=(FIRST,), ba=('timeout = none', '% ba-probe'), cleanup=('timeout = 3', '% cleanup-probe')),
    'def': _case(setup=(FIRST, 'def string %s = leak' % SYM, '%% after @[%s]@' % SYM)),
    'def-late': _case(setup=(FIRST,), cleanup=('def string %s = leak' % SYM, '% cleanup-probe')),
    'files': _case(setup=(FIRST, "file leak.txt = 'x'", 'dir leak-dir', 'dir -rel-tmp leak-tmp-dir',
                          "file -rel-tmp leak-tmp.txt = 'x'", '% after')),
    'conf': _case(conf=('actor = source % leaked-interp', 'status = FAIL'), setup=(FIRST,), act=('source line',)),
    'hard-error-after-changes': _case(setup=(FIRST, 'env VSYM_C17_LEAK = leak', 'timeout = 9', 'def string %s = leak' % SYM,
                                             'dir d', 'cd d', "file leak.txt = 'x'", 'cd non-existing-dir', '% not-reached')),
    'fail-after-changes': _case(setup=(FIRST, 'env VSYM_C17_LEAK = leak', 'timeout = 9', 'dir d', 'cd d'),
                                asrt=('exit-code == 72',)),
}
HISTORY_KINDS = tuple(HISTORY_CASES)

# Reference (manual): what these cases must end with when nothing else interferes
HISTORY_IDENTIFIER = {k: 'PASS' for k in HISTORY_KINDS}
HISTORY_IDENTIFIER.update({'reference-to-undefined-symbol': 'VALIDATION_ERROR', 'conf': 'XPASS',
                           'hard-error-after-changes': 'HARD_ERROR', 'fail-after-changes': 'FAIL'})

_HISTORY_REF = {}


def history_reference(kind: str):
    """The case of `kind` run ALONE (standalone, with the suite given): (identifier, event keys).  Computed once per
    process (deterministic, concrete)."""
    if kind not in _HISTORY_REF:
        w = World({'h/exactly.suite': suite_file_text(None, ['c.case']), 'h/c.case': HISTORY_CASES[kind]})
        r = w.run(['--suite', 'h/exactly.suite', 'h/c.case'])
        w.close()
        if not isinstance(r.rc, int):
            raise RuntimeError('harness error: reference run of %s: %r' % (kind, r.rc))
        _HISTORY_REF[kind] = (r.identifier(), keys(r.events()))
    return _HISTORY_REF[kind]


PRISTINE_FIRST = ('proc', ('first-probe',), 'SDS/act', DEFAULT_ENV_VIEW, DEFAULT_TIMEOUT, ((), ()), None, None, ())


def history_observe(kinds: Sequence[str], oracle_bug: bool = False):
    """A suite that lists one case per element of `kinds`, run by `exactly suite`.
    -> [(case name, observed (identifier, event keys), expected)]"""
    names = ['k%d.case' % i for i in range(len(kinds))]
    files = {'h/exactly.suite': suite_file_text(None, names)}
    for n, k in zip(names, kinds):
        files['h/' + n] = HISTORY_CASES[k]
    w = World(files)
    r = w.run(['suite', 'h/exactly.suite'])
    w.close()
    pc = r.per_case()
    if pc is None or not r.cwd_preserved or r.sandboxes_left or not isinstance(r.rc, int):
        return [('suite', 'malformed suite run: rc=%r out=%r err=%r' % (r.rc, r.out, r.err), None)]
    if [os.path.normpath(c[0]) for c in pc] != ['h/' + n for n in names]:
        return [('suite', 'cases processed: %r' % ([c[0] for c in pc],), None)]
    out = []
    for i, ((name, ident, evs), kind) in enumerate(zip(pc, kinds)):
        exp = history_reference(kind)
        if oracle_bug and i > 0 and kinds[i - 1] == 'timeout':
            exp = (exp[0], [k[:4] + (7,) + k[5:] if k[0] == 'proc' else k for k in exp[1]])  # seeded: demands the leak
        out.append((name, (ident, keys(evs)), exp))
    return out


def history_ok(kinds: Sequence[str], observations) -> bool:
    if len(observations) != len(kinds):
        return False
    for kind, (name, obs, exp) in zip(kinds, observations):
        if exp is None or obs != exp:
            return False
        # absolute part of the oracle: the documented outcome, and the first instruction sees the pristine state
        if obs[0] != HISTORY_IDENTIFIER[kind]:
            return False
        if not obs[1] or obs[1][0] != PRISTINE_FIRST:
            if not (kind == 'reference-to-undefined-symbol' and not obs[1]):
                return False
    return True


# ----------------------------------------------------------------------------- K5: instructions of a suite that use symbols of the case

_F2 = ('file f.txt = <<EOF', 'first', 'second', 'EOF')
_F1 = ('file f.txt = <<EOF', 'first', 'EOF')
_EXP_FIRST = 'def string EXPECTED = "first\n"'
_EXP_SECOND = 'def string EXPECTED = "second\n"'
_CONTENTS = 'contents f.txt :'
_EQUALS = '    equals @[EXPECTED]@'

# name -> (phase of the suite that holds the instruction(s), their lines, [setup] lines of case `a`, [setup] lines of case `b`)
# An instruction written in a suite file is executed in every case of the suite; the symbols it refers to are those of
# the case it is executed in.  Each case is consistent with its OWN definitions (the manual: it passes when run
# alone with the suite); it would not pass with the definitions of the other case.
SYMBOL_FORMS = {
    'string in a program argument': (
        'before-assert', ('% probe @[V]@',), ('def string V = of-a',), ('def string V = of-b',)),
    'list in program arguments': (
        'cleanup', ('% probe @[L]@',), ('def list L = a1 a2',), ('def list L = b1',)),
    'filter -line-nums RANGE-FROM-SYMBOL': (
        'assert', (_CONTENTS, '    -transformed-by filter -line-nums @[N]@', _EQUALS),
        _F2 + ('def string N = 1', _EXP_FIRST), _F2 + ('def string N = 2', _EXP_SECOND)),
    'filter line-num == INTEGER-FROM-SYMBOL': (
        'assert', (_CONTENTS, '    -transformed-by filter line-num == @[N]@', _EQUALS),
        _F2 + ('def string N = 1', _EXP_FIRST), _F2 + ('def string N = 1+1', _EXP_SECOND)),
    'filter contents matches REGEX-FROM-SYMBOL': (
        'assert', (_CONTENTS, '    -transformed-by filter contents matches @[RE]@', _EQUALS),
        _F2 + ('def string RE = ^f', _EXP_FIRST), _F2 + ('def string RE = ^s', _EXP_SECOND)),
    'replace REGEX-FROM-SYMBOL': (
        'assert', (_CONTENTS, '    -transformed-by replace @[RE]@ @[BY]@', _EQUALS),
        _F1 + ('def string RE = ir', 'def string BY = IR', 'def string EXPECTED = "fIRst\n"'),
        _F1 + ('def string RE = st', 'def string BY = ST', 'def string EXPECTED = "firST\n"')),
    'text-transformer symbol': (
        'assert', (_CONTENTS, '    -transformed-by T', _EQUALS),
        _F2 + ('def text-transformer T = filter line-num == 1', _EXP_FIRST),
        _F2 + ('def text-transformer T = filter line-num == 2', _EXP_SECOND)),
    'line-matcher symbol': (
        'assert', (_CONTENTS, '    -transformed-by filter LM', _EQUALS),
        _F2 + ('def line-matcher LM = line-num == 1', _EXP_FIRST),
        _F2 + ('def line-matcher LM = contents matches second', _EXP_SECOND)),
    'text-matcher symbol': (
        'assert', (_CONTENTS + ' TM',),
        _F1 + ('def text-matcher TM = num-lines == 1',), _F2 + ('def text-matcher TM = num-lines == 2',)),
    'integer-matcher symbol': (
        'assert', (_CONTENTS + ' num-lines IM',),
        _F1 + ('def integer-matcher IM = == 1',), _F2 + ('def integer-matcher IM = > 1',)),
    'file-matcher symbol': (
        'assert', ('exists f.txt : FM',),
        _F1 + ('def file-matcher FM = type file',), ('dir f.txt', 'def file-matcher FM = type dir')),
    'files-matcher symbol': (
        'assert', ('dir-contents . : DM',),
        _F1 + ('def files-matcher DM = num-files == 1',),
        _F1 + ("file g.txt = 'g'", 'def files-matcher DM = num-files == 2')),
    'path symbol': (
        'assert', ('exists @[P]@',),
        _F1 + ('def path P = -rel-act f.txt',), ("file g.txt = 'g'", 'def path P = -rel-act g.txt')),
    'program symbol': (
        'before-assert', ('run @ PGM from-suite',),
        ('def program PGM = % program-of-a arg-a',), ('def program PGM = % program-of-b',)),
    'text from a here document with a symbol': (
        'before-assert', ('file out.probe = <<EOF', 'value: @[V]@', 'EOF', '% probe'),
        ('def string V = of-a',), ('def string V = of-b',)),
    'text-source symbol': (
        'before-assert', ('file out.probe = @[TS]@', '% probe'),
        ("def text-source TS = 'text of a'",), ("def text-source TS = 'text of b'",)),
    'files-condition symbol': (
        'assert', ('dir-contents . : matches -full FC',),
        _F1 + ('def files-condition FC = { f.txt }',), _F1 + ("file g.txt = 'g'", 'def files-condition FC = {', '  f.txt', '  g.txt', '}')),
    'env value from symbol': (
        'before-assert', ('env VSYM_C17_X = @[V]@', '% probe'), ('def string V = of-a',), ('def string V = of-b',)),
    'timeout from symbol': (
        'before-assert', ('timeout = @[N]@', '% probe'), ('def string N = 11',), ('def string N = 2*11',)),
    'cd to directory from symbol': (
        'before-assert', ('cd @[D]@', '% probe'), ('dir da', 'def string D = da'), ('dir db', 'def string D = db')),
    'exit-code == INTEGER-FROM-SYMBOL': (
        'assert', ('exit-code == @[N]@',), ('def string N = 0',), ('def string N = 5+2',),
        dict(act_a=('% act-probe',), act_b=('% act-probe-exit7',))),
    'num-lines == INTEGER-FROM-SYMBOL': (
        'assert', (_CONTENTS + ' num-lines == @[N]@',), _F1 + ('def string N = 1',), _F2 + ('def string N = 4-2',)),
    'filter -line-nums TWO-RANGES-FROM-SYMBOLS': (
        'assert', (_CONTENTS, '    -transformed-by filter -line-nums @[R1]@ @[R2]@', _EQUALS),
        _F2 + ('def string R1 = 1', 'def string R2 = 1:1', _EXP_FIRST),
        _F2 + ('def string R1 = 2:', 'def string R2 = -1', _EXP_SECOND)),
    'text-matcher matches REGEX-FROM-SYMBOL': (
        'assert', (_CONTENTS + ' matches @[RE]@',), _F1 + ('def string RE = ^first$',), _F2 + ('def string RE = second',)),
    'files selected by GLOB-FROM-SYMBOL': (
        'assert', ('dir-contents . : -selection name @[GLOB]@ num-files == 1',),
        _F1 + ('def string GLOB = f.*',), ("file g.txt = 'g'", 'def string GLOB = g.*')),
    'file contents from PATH-FROM-SYMBOL': (
        'before-assert', ('file out.probe = -contents-of @[P]@', '% probe'),
        ("file in-a.txt = 'contents of a'", 'def path P = -rel-act in-a.txt'),
        ("file -rel-tmp in-b.txt = 'contents of b'", 'def path P = -rel-tmp in-b.txt')),
    'path relative to PATH-SYMBOL': (
        'assert', ('exists -rel D f.txt',),
        ('dir da', "file da/f.txt = 'x'", 'def path D = -rel-act da'),
        ('dir -rel-tmp db', "file -rel-tmp db/f.txt = 'x'", 'def path D = -rel-tmp db')),
    'symbol defined by the suite from a symbol of the case': (
        'before-assert', ('def string W = @[V]@-suffix', '% probe @[W]@'), ('def string V = of-a',), ('def string V = of-b',)),
    'program of an assertion with argument from symbol': (
        'assert', ('stdout -from % output-probe @[V]@', '    is-empty'), ('def string V = of-a',), ('def string V = of-b',)),
    'existing-file program argument from PATH-SYMBOL': (
        'cleanup', ('% probe -existing-file @[P]@',),
        ("file in-a.txt = 'x'", 'def path P = -rel-act in-a.txt'), ("file in-b.txt = 'x'", 'def path P = -rel-act in-b.txt')),
    # symbols DEFINED by the suite (the definition is parsed once, too) whose value depends on the case
    'suite text-source from a file of the sandbox': (
        'before-assert', ('def text-source TS = -contents-of -rel-act in.txt', 'file out.probe = @[TS]@', '% probe'),
        ("file in.txt = 'in of a'",), ("file in.txt = 'in of b'",)),
    'suite path symbol in the sandbox': (
        'before-assert', ('def path P = -rel-tmp in.txt', 'file out.probe = -contents-of @[P]@', '% probe'),
        ("file -rel-tmp in.txt = 'in of a'",), ("file -rel-tmp in.txt = 'in of b'",)),
    'suite text-transformer symbol using a symbol of the case': (
        'assert', ('def text-transformer T = filter -line-nums @[N]@', _CONTENTS, '    -transformed-by T', _EQUALS),
        _F2 + ('def string N = 1', _EXP_FIRST), _F2 + ('def string N = 2', _EXP_SECOND)),
    'suite program symbol with argument from the case': (
        'before-assert', ('def program PGM = % suite-program @[V]@', 'run @ PGM extra'),
        ('def string V = of-a',), ('def string V = of-b',)),
    'suite line-matcher symbol using a regex of the case': (
        'assert', ('def line-matcher LM = contents matches @[RE]@', _CONTENTS, '    -transformed-by filter LM', _EQUALS),
        _F2 + ('def string RE = ^f', _EXP_FIRST), _F2 + ('def string RE = ^s', _EXP_SECOND)),
    'file relative to the home directory of the case': (
        'before-assert', ('copy -rel-home data.txt out.probe', '% probe'), (), (),
        dict(b_path='bdir/b.case', files={'s/data.txt': 'data of a', 's/bdir/data.txt': 'data of b'})),
}
SYMBOL_FORM_NAMES = tuple(SYMBOL_FORMS)
REGION_LINE_NUMS_MEMO = 'suite-instruction-line-nums-memo'
FORM_IN_REGION_LINE_NUMS_MEMO = 'filter -line-nums RANGE-FROM-SYMBOL'


def _symbol_form_files(form: str, order: Sequence[str]):
    phase, lines, setup_a, setup_b = SYMBOL_FORMS[form][:4]
    extra = SYMBOL_FORMS[form][4] if len(SYMBOL_FORMS[form]) > 4 else {}
    path = {'a': 'a.case', 'b': extra.get('b_path', 'b.case')}
    suite = suite_file_text(None, [path[c] for c in order]) + '[%s]\n' % phase + ''.join(l + '\n' for l in lines)
    files = {'s/exactly.suite': suite,
             's/a.case': _case(setup=setup_a, act=extra.get('act_a', ('% act-probe',)), ba=(), asrt=(), cleanup=()),
             's/' + path['b']: _case(setup=setup_b, act=extra.get('act_b', ('% act-probe',)), ba=(), asrt=(), cleanup=())}
    files.update(extra.get('files', {}))
    return files


def _symbol_form_case_path(form: str, case: str) -> str:
    extra = SYMBOL_FORMS[form][4] if len(SYMBOL_FORMS[form]) > 4 else {}
    return 's/' + {'a': 'a.case', 'b': extra.get('b_path', 'b.case')}[case]


_SYMBOL_FORM_REF = {}


def symbol_form_reference(form: str, case: str):
    """(identifier, event keys) of case `a` / `b` run ALONE with the suite given (`--suite`); once per process"""
    if (form, case) not in _SYMBOL_FORM_REF:
        w = World(_symbol_form_files(form, ('a', 'b')))
        r = w.run(['--suite', 's/exactly.suite', _symbol_form_case_path(form, case)])
        w.close()
        if not isinstance(r.rc, int):
            raise RuntimeError('harness error: reference run of %s / %s: %r' % (form, case, r.rc))
        _SYMBOL_FORM_REF[(form, case)] = (r.identifier(), keys(r.events()))
    return _SYMBOL_FORM_REF[(form, case)]


def symbol_form_observe(form: str, b_first: bool, oracle_bug: bool = False):
    """-> [(case, observed in the suite run, expected = observed alone)]"""
    order = ('b', 'a') if b_first else ('a', 'b')
    w = World(_symbol_form_files(form, order))
    r = w.run(['suite', 's/exactly.suite'])
    w.close()
    pc = r.per_case()
    if pc is None or not r.cwd_preserved or r.sandboxes_left or not isinstance(r.rc, int):
        return [('suite', 'malformed suite run: rc=%r out=%r err=%r' % (r.rc, r.out, r.err), None)]
    if [os.path.normpath(c[0]) for c in pc] != [_symbol_form_case_path(form, c) for c in order]:
        return [('suite', 'cases processed: %r' % ([c[0] for c in pc],), None)]
    out = []
    for (name, ident, evs), c in zip(pc, order):
        exp = symbol_form_reference(form, order[0] if oracle_bug else c)  # seeded: every case like the first one
        out.append((c, (ident, keys(evs)), exp))
    return out


def symbol_form_ok(observations) -> bool:
    if len(observations) != 2:
        return False
    for c, obs, exp in observations:
        if exp is None or obs != exp:
            return False
        if obs[0] != 'PASS':  # absolute part: each case is consistent with its own definitions
            return False
    return True
