"""C19  Timeouts are enforced on every OS process; Exactly never waits indefinitely.

Time is a symbolic integer; the OS is a stub of the `subprocess` module at exactly_lib's
single process-starting site, with the contract

    call(..., timeout=t) raises TimeoutExpired iff t is not None and the child's duration > t.

K1  ProcessExecutor.execute / CommandExecutorFromProcessExecutor: duration and timeout symbolic
    (N or none): HardErrorException iff duration > timeout, otherwise the child's exit code.
K2  plumbing at every site, through the REAL MainProgram.execute on generated test cases:
    site in {act; `$`, `%`, `run` in setup / before-assert / assert / cleanup; program as text
    source of `file` and of `env`; `run` as transformer; `run` as matcher} x where
    `timeout = T` / `timeout = none` stands relative to the site (absent, before, after, in an
    earlier phase, before-and-none) with T SYMBOLIC (literal K0 through the real parser) and
    the child's duration SYMBOLIC.  The `timeout=` received by the stub must be the value in
    force at that point (60 by default); if the duration exceeds it the verdict is HARD_ERROR,
    the cleanup phase still ran, the sandbox is gone.

Outside the claim (stated plainly): that the child is really killed, that Exactly returns
within bounded wall-clock time, children ignoring SIGTERM, liveness of the pid — properties of
`subprocess` and the kernel; no code of exactly_lib implements them beyond passing timeout=.
"""
import os
from typing import List, Optional

from vsym import ob
from vsym.ob import Ob

PROPERTY = 'C19'

DEFAULT_TIMEOUT = 60  # reference manual: default timeout

REAL_K1 = (
    'exactly_lib.util.process_execution.process_executor.ProcessExecutor.execute',
    'exactly_lib.impls.program_execution.impl.cmd_exe_from_proc_exe.CommandExecutorFromProcessExecutor',
)
REAL_K2 = REAL_K1 + (
    'exactly_lib.impls.instructions.multi_phase.timeout.parse.EmbryoParser',
    'exactly_lib.test_case.phases.instruction_settings.InstructionSettings',
    'exactly_lib.execution.partial_execution.impl.executor._PartialExecutor._post_sds_environment',
    'exactly_lib.impls.actors.util.atc_proc_exe_settings.for_atc',
    'exactly_lib.impls.program_execution.processors.store_result_in_files',
    'exactly_lib.impls.program_execution.processors.read_stderr_on_error',
    'exactly_lib.impls.types.string_source.command_output.string_source',
    'exactly_lib.impls.types.string_transformer.impl.run_program.primitive',
    'exactly_lib.impls.types.matcher.impls.run_program.adv',
    'exactly_lib.definitions.os_proc_env.TIMEOUT__DEFAULT',
    'exactly_lib.cli.main_program.MainProgram.execute',
)

STUB = ('subprocess module at process_executor: call(..., timeout=t) raises TimeoutExpired iff t is not None and '
        'duration > t; starts nothing; records args, timeout=, env=')


class SubprocessStub:
    import subprocess as _sp
    TimeoutExpired = _sp.TimeoutExpired
    DEVNULL = _sp.DEVNULL
    PIPE = _sp.PIPE
    STDOUT = _sp.STDOUT

    def __init__(self, duration_of, exit_code: int = 0):
        self.calls = []
        self._duration_of = duration_of
        self._exit_code = exit_code

    def call(self, args, stdin=None, stdout=None, stderr=None, env=None, timeout=None, shell=False, **kw):
        tag = args if isinstance(args, str) else ' '.join(str(a) for a in args)
        self.calls.append(dict(tag=tag, timeout=timeout, shell=shell))
        d = self._duration_of(tag)
        if timeout is not None and d is not None and d > timeout:
            raise self.TimeoutExpired(args, timeout)
        return self._exit_code


# ----------------------------------------------------------------------------- K1

def _pre_k1(duration: int, timeout: int, no_timeout: bool, code: int) -> bool:
    return duration >= 0 and timeout >= 0 and (not no_timeout or timeout == 0) and 0 <= code <= 255


def k1_process_executor(duration: int, timeout: int, no_timeout: bool, code: int) -> bool:
    """
    pre: _pre_k1(duration, timeout, no_timeout, code)
    post: _
    """
    from exactly_lib.util.process_execution import process_executor as pe
    from exactly_lib.util.process_execution.execution_elements import Executable, ProcessExecutionSettings
    from exactly_lib.util.file_utils.std import StdFiles, StdOutputFiles
    stub = SubprocessStub(lambda tag: duration, code)
    pe.subprocess = stub
    t = None if no_timeout else timeout
    settings = ProcessExecutionSettings(t, None)
    raised = False
    rc = None
    try:
        rc = pe.ProcessExecutor().execute(Executable(False, ['prog', 'arg']), settings,
                                          StdFiles(None, StdOutputFiles(None, None)))
    except pe.ProcessExecutionException:
        raised = True
    exceeds = (t is not None) and duration > t
    if ob.case().get('oracle_bug'):
        exceeds = (t is not None) and duration >= t
    ok = (raised == exceeds) and (raised or rc == code)
    ok = ok and len(stub.calls) == 1 and (stub.calls[0]['timeout'] is None if t is None else stub.calls[0]['timeout'] == t)
    return ob.post(ok)


# ----------------------------------------------------------------------------- K2

PHASE_ORDER = ('setup', 'act', 'before-assert', 'assert', 'cleanup')

# name -> (phase, lines that start exactly one process tagged SITE)
SITES = {
    'act': ('act', ['$ SITE']),
    'act-with-env-set-in-setup': ('act', ['$ SITE'], ['env VSYM_VAR = value']),
    'act-with-env-of-act-set-in-setup': ('act', ['$ SITE'], ['env -of act VSYM_VAR = value']),
    'setup-shell': ('setup', ['$ SITE']),
    'setup-sys': ('setup', ['% SITE']),
    'setup-run': ('setup', ['run % SITE']),
    'ba-shell': ('before-assert', ['$ SITE']),
    'ba-run': ('before-assert', ['run % SITE']),
    'assert-shell': ('assert', ['$ SITE']),
    'assert-run': ('assert', ['run % SITE']),
    'cleanup-shell': ('cleanup', ['$ SITE']),
    'cleanup-sys': ('cleanup', ['% SITE']),
    'setup-file-from-program': ('setup', ['file out.txt = -stdout-from $ SITE']),
    'ba-file-from-program': ('before-assert', ['file out.txt = -stderr-from % SITE']),
    'setup-env-from-program': ('setup', ['env V = -stdout-from $ SITE']),
    'ba-env-from-program': ('before-assert', ['env V = -stdout-from % SITE']),
    'setup-env-of-act-from-program': ('setup', ['env -of act V = -stdout-from % SITE']),
    'cleanup-env-from-program': ('cleanup', ['env V = -stdout-from $ SITE']),
    'setup-run-as-transformer': ('setup', ["file out.txt = 'text' -transformed-by run % SITE"]),
    'assert-run-as-transformer': ('assert', ["contents in.txt : -transformed-by run % SITE", "    ! is-empty"]),
    'assert-run-as-matcher': ('assert', ["contents in.txt : run % SITE"]),
    'assert-stdout-from-program': ('assert', ["stdout -from $ SITE", "    is-empty"]),
    'assert-exists-run-matcher': ('assert', ["exists in.txt : run % SITE"]),
    'assert-stdout-from-program-transformed-by-run': ('assert', ["stdout -from % generator", "    -transformed-by run % SITE",
                                                                 "    is-empty"]),
    'assert-stderr-from-program-transformed-by-run': ('assert', ["stderr -from $ generator", "    -transformed-by run % SITE",
                                                                 "    ! is-empty"]),
    'setup-file-from-program-transformed-by-run': ('setup', ["file out2.txt = -stdout-from % generator",
                                                             "    -transformed-by run % SITE"]),
    # file-creating instructions outside [setup] (their main-step result is translated per phase)
    'assert-file-from-program': ('assert', ['file out3.txt = -stdout-from $ SITE']),
    'assert-file-contents-of-transformed-by-run': ('assert', ["file out4.txt = -contents-of -rel-act in.txt",
                                                              "    -transformed-by run % SITE"]),
    'assert-dir-with-file-from-program': ('assert', ['dir d3 = {', '    file f.txt = -stdout-from % SITE', '}']),
    'ba-dir-with-file-from-program': ('before-assert', ['dir d4 = {', '    file f.txt = -stdout-from $ SITE', '}']),
    'cleanup-file-from-program': ('cleanup', ['file out5.txt = -stderr-from % SITE']),
    # programs that are started in the act phase but are not the action to check (round 5: C19-r5m1 resolved the stdin of the
    # action with process settings that had lost the timeout)
    'act-stdin-from-program-set-in-setup': ('act', ['$ act-default'], ['stdin = -stdout-from % the-site']),
    'act-stdin-from-program-transformed-by-run': ('act', ['$ act-default'], ["stdin = 'text' -transformed-by run % the-site"]),
    'act-stdin-option-from-program': ('act', ['% act-default', '    -stdin -stdout-from % SITE']),
    'act-source-interpreter': ('act', ['source line'], [], ['actor = source % the-site']),
    # the file-interpreter actor (round 9: C19-r9m1 built its process settings without the timeout); the source file is the
    # test-case file itself (it exists in the home directory)
    'act-file-interpreter': ('act', ['t.case'], [], ['actor = file % the-site']),
    'act-file-interpreter-with-arguments': ('act', ['t.case arg1 arg2'], [], ['actor = file % the-site interpreter-arg']),
    # the variants that ignore the exit code of the program still enforce the timeout (round 6: C19-r6m1 swallowed the
    # time-out of `run -ignore-exit-code` together with the exit code)
    'setup-run-as-transformer-ignoring-exit-code': ('setup', ["file out7.txt = 'text' -transformed-by run -ignore-exit-code % SITE"]),
    'assert-run-as-transformer-ignoring-exit-code': ('assert', ["contents in.txt : -transformed-by run -ignore-exit-code % SITE",
                                                                "    ! is-empty"]),
    'setup-file-from-program-ignoring-exit-code': ('setup', ['file out8.txt = -stdout-from -ignore-exit-code $ SITE']),
    'ba-file-from-program-stderr-ignoring-exit-code': ('before-assert', ['file out9.txt = -stderr-from -ignore-exit-code % SITE']),
    'setup-env-from-program-ignoring-exit-code': ('setup', ['env V2 = -stdout-from -ignore-exit-code $ SITE']),
    'act-stdin-from-program-ignoring-exit-code': ('act', ['$ act-default'], ['stdin = -stdout-from -ignore-exit-code % the-site']),
    'setup-run-ignoring-exit-code': ('setup', ['run -ignore-exit-code % SITE']),
    # a process in [cleanup] that exceeds the timeout AFTER an assertion has failed: the step is still a HARD_ERROR (round 5:
    # C19-r5m2 reported the earlier FAIL only)
    'cleanup-shell-after-failed-assertion': ('cleanup', ['$ SITE'], [], [], ['exit-code == 1']),
    'cleanup-file-from-program-after-failed-assertion': ('cleanup', ['file out6.txt = -stdout-from % SITE'], [], [],
                                                         ['exit-code == 1']),
    'cleanup-run-after-two-failed-assertions': ('cleanup', ['run % SITE'], [], [], ['exit-code == 1', 'exit-code == 2']),
}

# where the timeout instruction(s) stand relative to the site
PLACEMENTS = ('absent', 'just-before', 'just-after', 'in-setup-first', 'before-then-none', 'none-then-before',
              'in-later-phase')


def case_text(site: str, placement: str) -> str:
    phase, lines = SITES[site][0], SITES[site][1]
    secs = {p: [] for p in PHASE_ORDER}
    secs['setup'] = ["file in.txt = 'x'"] + (list(SITES[site][2]) if len(SITES[site]) > 2 else [])
    conf = list(SITES[site][3]) if len(SITES[site]) > 3 else []
    secs['act'] = ['$ act-default']
    secs['assert'] = list(SITES[site][4]) if len(SITES[site]) > 4 else []
    secs['cleanup'] = ['$ cleanup-probe']
    site_lines = [l.replace('SITE', 'the-site') for l in lines]
    if phase == 'act':
        secs['act'] = site_lines
        target = None
    else:
        target = phase
    T = 'timeout = K0'
    NONE = 'timeout = none'
    block = list(site_lines)
    if placement == 'just-before':
        block = [T] + block
    elif placement == 'just-after':
        block = block + [T]
    elif placement == 'before-then-none':
        block = [T, NONE] + block
    elif placement == 'none-then-before':
        block = [NONE, T] + block
    if phase == 'act':
        # instructions cannot stand in [act]: "just before" is the end of [setup], "just after" the start of [before-assert]
        if placement in ('just-before', 'before-then-none', 'none-then-before'):
            secs['setup'] += block[:-len(site_lines)]
        elif placement == 'just-after':
            secs['before-assert'] = [T] + secs['before-assert']
    elif phase == 'cleanup':
        secs['cleanup'] = block + secs['cleanup']
    else:
        secs[phase] = secs[phase] + block
    if placement == 'in-setup-first':
        secs['setup'] = [T] + secs['setup']
    if placement == 'in-later-phase':
        later = PHASE_ORDER[min(PHASE_ORDER.index(phase) + 1, len(PHASE_ORDER) - 1)]
        if later == 'act':
            later = 'before-assert'
        if later == phase:
            secs[later] = secs[later] + [T]
        else:
            secs[later] = [T] + secs[later]
    out = []
    if conf:
        out += ['[conf]'] + conf + ['']
    for p in PHASE_ORDER:
        out.append('[%s]' % p)
        out.extend(secs[p])
        out.append('')
    return '\n'.join(out) + '\n'


def timeout_in_force(site: str, placement: str, T: int) -> Optional[int]:
    """Reference: the value last set before the site in execution order; 60 by default; none lifts the limit."""
    phase = SITES[site][0]
    if placement in ('absent', 'just-after'):
        return DEFAULT_TIMEOUT
    if placement in ('just-before', 'none-then-before', 'in-setup-first'):
        return T
    if placement == 'before-then-none':
        return None
    # in-later-phase: set in the phase after the site's (for cleanup: after the site within cleanup)
    return DEFAULT_TIMEOUT


def run_case(text: str, T, duration):
    """Real main program, in process."""
    import io
    from vsym import scratch, xly
    from harness.C02 import Sink
    from exactly_lib.cli import main_program
    from exactly_lib.cli_default import default_main_program_setup as d
    from exactly_lib.util.file_utils.std import StdOutputFiles
    from exactly_lib.util.process_execution import process_executor
    stub = SubprocessStub(lambda tag: duration if 'the-site' in tag else 0)
    process_executor.subprocess = stub
    xly.install_int_placeholders([T])
    work = scratch.new_dir('c19')
    case_dir = os.path.join(work, 'case')
    os.mkdir(case_dir)
    path = os.path.join(case_dir, 't.case')
    with open(path, 'w') as f:
        f.write(text)
    roots = []

    def resolver() -> str:
        p = os.path.join(work, 'sandbox-%d' % (len(roots) + 1))
        os.mkdir(p)
        roots.append(p)
        return p

    mp = main_program.MainProgram(
        d.test_case_handling_setup.setup(), resolver,
        d.TestCaseDefinitionForMainProgram(
            d.TestCaseParsingSetup(d.instruction_name_and_argument_splitter.splitter,
                                   d.default_instructions_setup.INSTRUCTIONS_SETUP, d.ActPhaseParser()),
            d.builtin_symbols.ALL),
        d.test_suite.test_suite_definition(), io.DEFAULT_BUFFER_SIZE)
    out, err = Sink(), Sink()
    cwd = os.getcwd()
    exc = None
    try:
        rc = mp.execute([path], StdOutputFiles(out, err))
    except Exception as e:  # noqa
        rc, exc = None, e
    os.chdir(cwd)
    sandbox_left = [os.path.isdir(r) and len(os.listdir(r)) > 0 for r in roots]
    scratch.remove(work)
    return dict(rc=rc, exc=exc, ident=out.value().split('\n')[0], stderr=err.value(), calls=stub.calls,
                sandboxes=len(roots), sandbox_left=sandbox_left)


def _pre_k2(T: int, duration: int, pl: int) -> bool:
    # T is bounded because exactly_lib renders it (str(T)), which forks once per number of digits
    tmax = ob.case()['tmax']
    if not (0 <= T <= tmax and 0 <= duration <= tmax + 1 and 0 <= pl < len(PLACEMENTS)):
        return False
    return pl in ob.case()['placements']


def k2_plumbing(T: int, duration: int, pl: int) -> bool:
    """
    pre: _pre_k2(T, duration, pl)
    post: _
    """
    site = ob.case()['site']
    placement = ob.pick(PLACEMENTS, pl)
    r = run_case(case_text(site, placement), T, duration)
    if r['exc'] is not None:
        return False
    site_calls = [c for c in r['calls'] if 'the-site' in c['tag']]
    if len(site_calls) < 1:
        return False
    exp = timeout_in_force(site, placement, T)
    if ob.case().get('oracle_bug'):
        exp = DEFAULT_TIMEOUT
    # (`env` without -of in [setup] evaluates its value once per environment set: the program is started twice)
    for c in site_calls:
        got = c['timeout']
        if exp is None:
            if got is not None:
                return False
        elif got is None or got != exp:
            return False
    timed_out = exp is not None and duration > exp
    cleanup_ran = any('cleanup-probe' in c['tag'] for c in r['calls'])
    ok = r['sandboxes'] == 1 and r['sandbox_left'] == [False]
    if timed_out:
        phase = SITES[site][0]
        ok = ok and r['rc'] == 128 and r['ident'] == 'HARD_ERROR' and ('[%s]' % phase) in r['stderr']
        # cleanup still runs (the probe stands after the site when the site itself is in cleanup: then it does not)
        ok = ok and (cleanup_ran or phase == 'cleanup')
    else:
        ok = ok and r['ident'] in ('PASS', 'FAIL') and cleanup_ran
    return ob.post(ok)


def obligations(tier: str) -> List[Ob]:
    obs = [
        Ob(name='K1:process-executor', fn='k1_process_executor', case={}, kernel='K1',
           bound='every duration >= 0, every timeout >= 0 or none, every exit code 0..255', timeout=300, real=REAL_K1,
           stubs=(STUB,)),
        Ob(name='K1:seeded-oracle-error', fn='k1_process_executor', case=dict(oracle_bug=True), kernel='K1',
           bound='seeded: oracle uses >=', timeout=120, expect=ob.REFUTE),
    ]
    sites = list(SITES)
    # (round 7: every placement in the quick tier too - a kernel this cheap needs no smaller quick tier)
    quick_pl = tuple(range(len(PLACEMENTS)))
    for s in sites:
        groups = [quick_pl] if tier == 'quick' else [(i,) for i in range(len(PLACEMENTS))]
        tmax = 99 if tier == 'quick' else 9999
        for g in groups:
            obs.append(Ob(
                name='K2:%s%s' % (s, '' if tier == 'quick' else ':' + PLACEMENTS[g[0]]), fn='k2_plumbing',
                case=dict(site=s, placements=tuple(g), tmax=tmax), kernel='K2',
                bound='site %s; timeout instruction placements %s; every T in [0, %d] (literal K0 through the real parser) and '
                      'every duration in [0, %d] of the child' % (s, [PLACEMENTS[i] for i in g], tmax, tmax + 1),
                timeout=900, real=REAL_K2, stubs=(STUB, 'python_evaluate placeholder K0 -> symbolic int',
                                                  'counting sandbox resolver', 'in-memory stdout/stderr'),
                entry='MainProgram.execute([FILE])',
                outside=('real termination of the child, wall-clock bound, children ignoring SIGTERM, pid liveness '
                         '(subprocess / kernel)', 'timeouts above the stated bound')))
    obs.append(Ob(name='K2:seeded-oracle-error', fn='k2_plumbing', case=dict(site='setup-shell', placements=(1,), tmax=99, oracle_bug=True),
                  kernel='K2', bound='seeded: oracle ignores the timeout instruction', timeout=600, expect=ob.REFUTE))
    return obs


ASSUMPTIONS = [
    'subprocess.call(..., timeout=t) raises TimeoutExpired iff t is not None and the child runs longer than t (its documented contract); '
    'exactly_lib starts processes only through it',
    'an integer literal denotes its integer (python_evaluate placeholder)',
]
OUTSIDE = ['that the child is really killed; that Exactly returns within bounded wall-clock time; children ignoring SIGTERM; '
           'liveness of the pid: properties of subprocess and the kernel, not of exactly_lib code']
